"""C01 — image geometry ops keep landmarks and mask registered to pixel content (DESIGN.md section 6, C01).

Three parties per case:
  * the implementation: the real public methods of Image / MaskedImage / BooleanImage with return_transform=True;
  * the property oracle (independent of the Lean model): on images whose channels are known analytically
    (affine ramps a + b*i + c*j, i.e. generalised identity-coordinate images) it checks that
      O1  the returned transform maps the returned landmarks onto the original ones (sequences: the composition),
      O2  sampling the result at a returned landmark gives the original content at the original landmark
          (bilinear results: affine channels, only where the landmark's cell is sampled inside the source - exactly
           the content at the transform interpolated over that cell, hence within sum |slope| |interp - l| of the
           content at the original landmark; nearest-neighbour results and boolean images: landmarks that land on a
           grid point, any content; spline orders 2-5: landmarks on a grid point against the source sampled with the
           same order; crop family and mirror: any content, any sub-pixel landmark),
      O3  result pixels are the source at (returned transform)(pixel index)  - pixels (every order), mask, boolean pixels,
      O5  class / landmark groups are kept; the call without return_transform gives the same image;
  * the Lean model (Core/C01Warp.lean + Core/C01Ext.lean through Drive/C01.lean): template shape, the transform handed
    to warp_to_shape, landmarks (per family class: by the closed form of its pseudoinverse supplier), a sample of
    result pixels + mask pixels for arbitrary content, whole operation sequences, gaussian pyramid levels incl. the
    blurred border, the result read back at landmarks under non-affine transforms; plus the exact quantities behind the
    square-root contract parameters.
Tables regenerated from the live classes on every run: harness/extract_c01.py.
The Python-level plumbing of the operations TRANSLATED from the source text on every run: harness/trans_c01.py
(Generated/C01Src.lean, C01Src3.lean; obligations GenProps/C01Src.lean, C01SrcProps.lean, C01SrcConstrain.lean,
C01Src3.lean, C01Src3Props.lean).
"""
import json
import math
from fractions import Fraction as F

from . import common
from . import extract_c01
from .common import fq, close

PROP = "C01"
INFO = dict(
    technique="Lean 4 proof (multilinear interpolation reproduces affine content and is a convex combination of the cell's "
              "grid points; the warp funnel registers pixels, mask and landmarks through one map for every interpolation "
              "order; exact value and error bound of a warped affine image under an arbitrary transform; every public "
              "operation's template->source map is invertible on its domain; per-operation laws; invariants over "
              "operation sequences; a symmetric normalised blur keeps an affine ramp; pseudoinverse closed forms of the "
              "homogeneous family) + 6 `decide` obligations over tables regenerated from the live classes on every run "
              "(method resolution and defaults of the three image classes, pseudoinverse suppliers of the family, the "
              "arguments each operation hands to warp_to_shape) + the TRANSLATOR TIE: 41 functions of menpo/image/base.py, "
              "masked.py, boolean.py, interpolation.py and menpo/transform/compositions.py are translated from their SOURCE "
              "TEXT into Lean on every run and proved equal to the model - for all arguments where the statement is an unconditional "
              "equation (funnel, sampler, helpers, crop family, zoom, mirror, generators), and under the stated non-degeneracy "
              "hypotheses where the plan has a `degenerate` guard the code lacks (rescale family: extents >= 2 and non-zero "
              "index-space factors; transform_about_centre / rotate: det != 0; the square-root contracts); error kinds are "
              "compared modulo PyExc.toErr, which merges ValueError / TypeError / ZeroDivisionError / OutOfMaskSampleError into "
              "`value` (harness/trans_c01.py, py2lean2 + py2lean2w + py2lean2c + py2lean2n: helpers without a rule are inlined at their call sites, temporaries that are fragments of a vocabulary unit are substituted into their uses, guard loops and any(...) share one form, views such as result[0] are tracked as aliases - so behaviour-preserving refactorings keep the obligations) against "
              "the plans executed through the funnel - 23 of them a second time, from the same text, over a 3-D vocabulary (94 obligations re-checked by lake on every run) + "
              "model/implementation correspondence (query protocol: "
              "shapes, transforms, landmarks, sampled pixels and mask pixels, whole operation sequences) + an independent "
              "registration oracle on analytically known images",
    level_text="Theorems over an executable rational model of Image.sample (scipy map_coordinates, orders 0/1, modes "
               "constant/nearest), Image.warp_to_shape / warp_to_mask and of the plan (template shape, transform, forced "
               "order, mode) each public operation builds.  Part 1: bilinear/trilinear sampling reproduces affine content; "
               "for every invertible affine T and affine content, sampling the warped image at T^-1(l) gives the original "
               "content at l whenever the landmark's cell is sampled inside the source (2-D and 3-D), and for arbitrary "
               "content and both orders whenever T^-1(l) is a grid point; pixels and mask are sampled through one T (mask "
               "with order 0); the returned transform maps the returned landmarks onto the originals; each operation "
               "(rescale family, resize, crop family, zoom, rotate, transform_about_centre with/without retain_shape, "
               "mirror, warp_to_shape, pyramid step; 3-D: rescale, resize, crop, zoom, mirror, warp_to_shape) yields an "
               "invertible T on its documented domain; crop is pixel exact with landmarks shifted by the same integer "
               "offset; mirror is an involution; transform_about_centre re-origins the source box into the template frame; "
               "rescale scales pixel centres.  Part 2: (a) every interpolation order 0..5 - landmarks, returned transform "
               "and mask do not depend on the order (nor do the pixels of a BooleanImage, of the crop family, of "
               "rescale_to_diagonal and of the pyramids, whose order is fixed), each result pixel is the source sampled "
               "with the effective order at T(pixel), and for any interpolating sampler the result read at a returned "
               "landmark on the grid is the source sampled with that order at the original landmark; (b) arbitrary "
               "transforms (piecewise affine across triangle borders, thin plate splines): for affine content the bilinear "
               "result read at a returned landmark l' is exactly the content at interpT(l'), the transform interpolated "
               "bilinearly over the cell of l', hence differs from the content at the original landmark l by at most "
               "sum_k |slope_k| |interpT(l')_k - l_k|, and by at most (|b|+|c|) eps when the transform stays within eps of "
               "an affine map sending l' to l on that cell; (c) rescale_to_diagonal (order fixed to 1; the extents before "
               "rounding have exactly the requested diagonal), rescale_to_pointcloud (the scale handed to rescale is exactly "
               "k when the target is the group scaled by k and translated), rescale_landmarks_to_diagonal_range (the scaled "
               "bounding box has the requested diagonal), the whole crop family incl. MaskedImage.crop_to_true_mask (exact "
               "registration for arbitrary content and sub-pixel landmarks), constrain_landmarks_to_bounds; (d) "
               "gaussian_pyramid: a symmetric kernel of total weight 1 with scipy's reflect rule reproduces an affine ramp "
               "at every pixel at least one radius from the border, hence every level is registered for landmarks whose "
               "cell is sampled there; (e) sequences of operations: by induction over the operation list the composition of "
               "the returned transforms is invertible and maps the final landmarks onto the first ones; for pyramid and "
               "gaussian_pyramid the Part-2 theorems pyramid_levels_registered / gauss_pyramid_levels_registered only say that "
               "the landmarks of every level are SOME invertible affine image of the originals (the map is existential there) - "
               "the per-level statement with the explicit transform, pixels and mask is genPyramid_steps + "
               "pyramidStepObj_registered of Part 3; (f) the closed forms Rotation(inv R), NonUniformScale(1/s), "
               "UniformScale(1/s), Translation(-t) are the matrix inverse on the matrices their classes hold, so every class "
               "of the family moves landmarks by the inverse of the map used for the pixels; (g) each operation hands "
               "warp_to_shape exactly the order/mode its plan carries.  Part 3 (the translator tie, GenProps/C01Src.lean + "
               "C01SrcProps.lean): the "
               "following functions are TRANSLATED from the source text of the working tree rather than transcribed - "
               "interpolation.scipy_interpolation (the loop over channels); Image/MaskedImage/BooleanImage.sample; "
               "Image._build_warp_to_shape; Image/MaskedImage/BooleanImage.warp_to_shape (which order / mode / cval each override "
               "forces, that the mask is warped separately through the same transform, that landmarks are moved by "
               "transform.pseudoinverse()); Image/BooleanImage._build_warp_to_mask, Image/MaskedImage/BooleanImage.warp_to_mask; "
               "round_image_shape, Image.centre, Image.diagonal, Image.constrain_points_to_bounds; "
               "compositions.transform_about_centre / scale_about_centre; Image.crop, crop_to_pointcloud, crop_to_landmarks, both "
               "_proportion variants, BooleanImage.bounds_true, MaskedImage.crop_to_true_mask; Image.rescale (the try/except on "
               "len(scale), the positivity loop, template shape with each round mode, index-space factors, "
               "NonUniformScale(factors).pseudoinverse(), mode nearest), rescale_to_diagonal, rescale_to_pointcloud, "
               "rescale_landmarks_to_diagonal_range, resize; zoom; rotate_ccw_about_centre; transform_about_centre (both "
               "retain_shape branches, bounding box, re-origin translation); mirror; the generators pyramid and "
               "gaussian_pyramid; the in-place operations Image.constrain_landmarks_to_bounds (the loops over groups and axes), "
               "BooleanImage.constrain_to_pointcloud / constrain_to_landmarks and MaskedImage.constrain_mask_to_landmarks (option "
               "ladder, integer bounding box, index filter, slices, flat assignment): proved to keep pixels, shape, class and "
               "landmarks (registered through the identity) and to set the mask to the containment test inside the bounding "
               "box, False elsewhere; the index filter and the slices select the same pixels when the box starts inside the "
               "image (constrain_sets_agree; a witness shows they differ when it does not).  The n-D functions (sampler, funnel, the three "
               "warp_to_shape, round_image_shape, centre, constrain_points_to_bounds, the compositions, crop and its pointcloud / "
               "landmark / proportion wrappers, rescale, resize, zoom, mirror, pyramid) are translated A SECOND TIME FROM THE SAME "
               "SOURCE TEXT over vectors of length 3 (Core/C01Src3.lean) and proved equal to the 3-D plans executed through the "
               "funnel for every interpolation order (GenProps/C01Src3.lean), with the property restated for 3-D objects "
               "(Registered3, cropResult3_exact).  A `self.method(...)` call site is normalised against the signature AND THE DEFAULTS of the "
               "callee as its source has them now, per class of the receiver (method resolution of the live classes).  Every "
               "translated operation is proved equal (error kinds modulo the merge of PyExc.toErr; rescale family under its "
               "non-degeneracy hypotheses; MaskedImage.sample for verify_mask=False) to its plan executed on an image object with any "
               "number of channels (Plan2.result / cropResult), and the property is restated for what the translated code "
               "returns (Registered: returned transform, landmarks, every pixel of every channel, mask; registration at grid "
               "landmarks for every order; affine content under bilinear interpolation; the crop family exact).  The class of "
               "transform object handed to warp_to_shape (Translation / NonUniformScale / composed) comes from the source, and "
               "its closed-form pseudoinverse is proved to be the inverse there.  Tied to /repo also by three tables "
               "regenerated from the "
               "live classes on every run (6 decide obligations) and by running every public operation on "
               "Image/MaskedImage/BooleanImage (float64/float32/uint8/uint16/int16/int32, 1-4 channels, 2-D and 3-D, "
               "orders 0-5, every class of the homogeneous family as the transform argument, C-contiguous, Fortran-ordered "
               "and strided pixel buffers, images that are themselves results of earlier operations) with "
               "return_transform=True and diffing shape, transform, landmarks, sampled pixels and mask pixels against the "
               "Lean driver; the registration oracle decides the property on the real code.",
    level_note="Trusted: Lean kernel; axioms propext/Classical.choice/Quot.sound; harness incl. harness/extract_c01.py; driver "
               "parser; the translator harness/py2lean2.py + py2lean2w.py + py2lean2c.py + py2lean2n.py (self-tests tools/test_py2lean2*.py) "
               "and the C01 vocabulary harness/trans_c01.py: numpy vector arithmetic, PointCloud.bounds / range, the "
               "constructors and compose_before of the transform classes (class ladder: C03), boolean-mask indexing, the "
               "LandmarkManager setter, `self.mask` being a BooleanImage are vocabulary (their meaning is Core/C01Src.lean's, "
               "tied by the correspondence); further vocabulary units that are whole library / menpo helpers mapped to one word "
               "and therefore trusted, not translated: indices_for_image_of_shape and BooleanImage.true_indices (modelled as "
               "the identity array of points indexed by the template pixel), the pixel order of reshape / ravel / "
               "_from_vector_inplace / boolean-mask assignment (reshapeSampled, fromSampledMasked), transform.apply ignoring "
               "batch_size, Image.as_masked, MaskedImage.init_blank, bounding_box, AlignmentUniformScale(...).as_vector()[0], "
               "gaussian_filter, verify_mask's np.all (sampledAllTrue = true); the dimension guards (`self.n_dims != "
               "transform.n_dims`) are vacuous in a model typed by dimension; the 2-D typing of vectors (`n_dims` = 2); the point-in-pointcloud test of the constrain "
               "operations (PiecewiseAffine containment, C09) is a contract parameter: the oracle judges the new mask against the "
               "exact convex hull of the group, the driver receives the containment bits of the queried pixels.  "
               "funnel_pixel, funnelS_pixel, mask_same_mapping, the pixel conjunct of returned_transform_consistent2/3 and "
               "execObj_frame / _lms / _mask are definitional unfoldings of the model (their content is the translator tie and "
               "the correspondence), counted among the audited theorems but not independent results.  Everything holds for the "
               "scipy path only: a live cv2_perspective_interpolation makes the translation of Image.warp_to_shape a stub (broken "
               "obligation).  maskMode (cval cast for Boolean output) is claimed for |cval| < 256 only (scipy casts through 8 "
               "bits: 256.0 wraps to False); the harness uses 0/1 there.  "
               "Contract parameters (checked numerically on every run, not proved): scipy.ndimage.map_coordinates "
               "implements orders 0/1 with the half-up rounding and the constant/nearest boundary rules of the model, and "
               "orders 2-5 are interpolating (return the pixel at a grid point); np.linalg.inv is the matrix inverse (the "
               "closed-form pseudoinverses of Rotation / the scales / Translation are proved, the generic one is C04); "
               "numpy cos/sin of the generated angle return the generating point of the unit circle; the square roots "
               "behind rescale_to_diagonal / rescale_to_pointcloud / rescale_landmarks_to_diagonal_range (their squares are "
               "compared with the model's exact quantities); scipy's gaussian kernel is symmetric, of total weight 1 and "
               "radius int(4 sigma + 0.5) (measured as an impulse response on every run; the blurred pixels are compared "
               "with the model incl. the reflected border); PiecewiseAffine/ThinPlateSplines .apply and .pseudoinverse "
               "(C04, C09) are taken as given functions: the model receives the points they produce.  Integer dtypes: the "
               "model is exact, the implementation rounds the interpolated value (compared to within half a level).",
    rule="a case = one public operation call (or one sequence of 2-3 calls) on one image (class, dtype, buffer layout, shape, "
         "channel contents, mask, landmark groups, parameters); distinct = distinct (operation, class, dtype, shape, "
         "parameters, landmarks); non-trivial = the operation's transform is not the identity and at least one landmark was "
         "checked for registration against the pixels, or (nearest-neighbour and spline results) the landmarks were checked "
         "against the returned transform and at least one result pixel against the source through that transform",
    partial=["thin plate splines: ThinPlateSplines.pseudoinverse is not an exact inverse away from the control points, so "
             "the returned landmark l' satisfies T(l') = l only approximately; the theorems bound the registration error by "
             "the distance between interpT(l') and l (exact identity + bound, any transform) - how small that distance is for "
             "a given spline is measured by the oracle, not proved",
             "interpolation orders 2-5: the spline sampler is a contract parameter (interpolating); what is proved for them "
             "is order independence of landmarks/transform/mask, the funnel identity and registration on grid points; the "
             "reproduction of affine content by splines (which holds only away from the border) is not modelled",
             "landmarks near the far border (audit F1): Image.rescale uses the index-space factors (s*len-1)/(len-1) but a "
             "template of ceil|round(s*len) pixels, so when s*len is not an integer the last result row / column is sampled "
             "beyond the source (clamped, mode nearest); a landmark whose result cell contains such a pixel is NOT registered "
             "even on affine content on the unchanged code (error <= slope * 1 px: e.g. 10x10, rescale(0.75), landmark (9,9): "
             "95.19 instead of 99.0; 9x9 ramp, pyramid level 1, landmark (7.5,7.5): 78.96 instead of 82.5), and under "
             "round='floor' it may leave the result frame.  The registration theorems assume the landmark's cell is sampled "
             "inside the source (hcell / hroom), the oracle does not judge such landmarks (counted as landmarks-skipped-border) "
             "and the pyramid generators keep landmarks in the part of the image where every level is clear of that band.  "
             "Decision: a limit of what resampling at the clamped border can give, recorded here, not a known finding",
             "MaskedImage.warp_to_mask / Image.warp_to_mask (audit F3): menpo attaches the TEMPLATE mask to the result and drops "
             "the source mask; the model follows the code (imageWarpToMask), the clause 'the mask is carried by the same "
             "mapping' is read as not applicable to warp_to_mask, the oracle judges pixels and landmarks only and a result "
             "whose mask is not the template is a correspondence observation, not a failure",
             "landmark groups (audit F6): the translated model keeps ONE list of landmark points per image (lmGroup / "
             "groupNames / setLmGroup ignore the group name), so the obligations about crop_to_landmarks, "
             "rescale_to_pointcloud, rescale_landmarks_to_diagonal_range, constrain_* hold for every `group` only because the "
             "argument is discarded; that the right group is selected and that EVERY group is moved is decided by the oracle "
             "and the correspondence (two groups of different shape classes per case), not by the translated obligations",
             "aliasing / non-mutation (audit F5): the translation is value-level.  `points.copy()` in "
             "constrain_points_to_bounds is typed (Owned: a dropped copy no longer type-checks); for image objects "
             "(`self.copy()`, `template_mask.copy()`, copy= flags) a dropped copy gives the same translation - that the source "
             "image is not changed is decided by the oracle's before/after comparisons, not by the obligations",
             "warp_landmarks: every *_registered theorem and every harness call fixes warp_landmarks=True; with the class "
             "default of MaskedImage.warp_to_shape / warp_to_mask (False, pinned by dispatch_ok) the result has no landmarks "
             "(warpLms = []), which is outside the property's 'returned landmark' clause",
             "outputs with an extent of a single pixel (scale*len <= 1) are outside the modelled domain: the index-space "
             "factor of Image.rescale is 0 or negative there and no registration is possible on one pixel",
             "integer dtypes: proved for registration at grid landmarks (int_registration_grid: within half a level for any "
             "store that rounds to a nearest integer, exact for order 0 on integer content); that scipy's cast of the output "
             "array is such a store is a contract (compared to within half a level on every integer case; it is FALSE when a "
             "spline order >= 2 overshoots the dtype range - the value wraps - which the generators avoid by keeping integer "
             "content inside the range); the bilinear "
             "registration of affine content is not restated for the rounded result",
             "3-D: every interpolation order is covered for the translated n-D operations (funnel identity per channel, "
             "landmarks / returned transform / mask, registration at grid landmarks, affine content under trilinear "
             "interpolation: GenProps/C01Src3Props.lean); the non-affine bound (piecewise affine / spline warps), the sequence "
             "theorems and the sampling registration of sub-pixel landmarks of a crop are stated in 2-D only"],
    assumptions=["scipy.ndimage.map_coordinates orders 0/1 follow the documented constant/nearest rules; orders 2-5 interpolate",
                 "cv2 is absent (menpo.image.base.cv2_perspective_interpolation is None): only the scipy path is modelled",
                 "Boolean output: |cval| < 256 (the 8-bit cast of larger values is not modelled)",
                 "the translated obligations are value-level: object identity, copy= flags and in-place updates of image "
                 "objects are decided by the oracle's before/after comparisons, not by the obligations",
                 "numpy trigonometric functions and square roots are accurate to 1e-12",
                 "ThinPlateSplines.pseudoinverse is repaired (notes/fixes/C04-tps-pseudoinverse-kernel.diff); on a tree "
                 "without that fix the TPS landmark clause is reported as a violation"],
    design_ref="DESIGN.md section 6, C01")
IMPORTS = ["MenpoModel.Props.C01", "MenpoModel.GenProps.C01", "MenpoModel.GenProps.C01SrcProps",
           "MenpoModel.GenProps.C01SrcConstrain", "MenpoModel.GenProps.C01Src3Props"]
THEOREMS = [
    "MenpoModel.C01.bilin_reproduces_affine", "MenpoModel.C01.trilin_reproduces_affine",
    "MenpoModel.C01.funnel_pixel", "MenpoModel.C01.warpF_registration_affine2",
    "MenpoModel.C01.warp_registration_affine2", "MenpoModel.C01.warpF_registration_grid2",
    "MenpoModel.C01.warp_registration_grid2", "MenpoModel.C01.warp_registration_affine3",
    "MenpoModel.C01.warp_registration_grid3", "MenpoModel.C01.returned_transform_consistent2",
    "MenpoModel.C01.returned_transform_consistent3", "MenpoModel.C01.plan_registration_affine2",
    "MenpoModel.C01.mask_same_mapping", "MenpoModel.C01.mask_carried", "MenpoModel.C01.mask_registration_grid",
    "MenpoModel.C01.warp_to_mask_pixels", "MenpoModel.C01.rescale_plan_invertible",
    "MenpoModel.C01.rescale_plan_defined", "MenpoModel.C01.rescale_index_space",
    "MenpoModel.C01.zoom_plan_invertible", "MenpoModel.C01.zoom_fixes_centre",
    "MenpoModel.C01.crop_plan_translation", "MenpoModel.C01.translation_warp_exact",
    "MenpoModel.C01.crop_registration", "MenpoModel.C01.translation_warp_sampling",
    "MenpoModel.C01.crop_region_inside", "MenpoModel.C01.crop_exact_registration",
    "MenpoModel.C01.about_plan_invertible",
    "MenpoModel.C01.rotate_plan_defined", "MenpoModel.C01.about_corners_in_frame",
    "MenpoModel.C01.mirror_plan_invertible", "MenpoModel.C01.mirror_involution", "MenpoModel.C01.mirror_pixels",
    "MenpoModel.C01.warp_plan_invertible", "MenpoModel.C01.pyramid_step_is_rescale",
    "MenpoModel.C01.pyramid_step_registered",
    "MenpoModel.C01.plan2_T_invertible", "MenpoModel.C01.plan3_T_invertible",
    # part 2 (Props/C01.lean): every interpolation order
    "MenpoModel.C01.funnelS_pixel", "MenpoModel.C01.samplerOf_interpolating", "MenpoModel.C01.warpS_registration_grid2",
    "MenpoModel.C01.exec_order_independent", "MenpoModel.C01.exec_parts", "MenpoModel.C01.exec_pixel_any_order",
    "MenpoModel.C01.exec_agrees_with_run", "MenpoModel.C01.exec_registration_grid_any_order",
    # smooth non-affine warps
    "MenpoModel.C01.axis1_linear_two_point", "MenpoModel.C01.core2_linear_four_point",
    "MenpoModel.C01.core2_linear_comb_local", "MenpoModel.C01.core2_linear_close_local", "MenpoModel.C01.interpT_affine",
    "MenpoModel.C01.warpF_registration_exact2", "MenpoModel.C01.warpF_registration_bound2",
    "MenpoModel.C01.interpT_close_to_affine", "MenpoModel.C01.warpF_registration_lipschitz2",
    "MenpoModel.C01.warpF_registration_affine2_from_bound",
    # remaining entry points
    "MenpoModel.C01.rescale_plan_fields", "MenpoModel.C01.rescale_to_diagonal_plan",
    "MenpoModel.C01.rescale_to_diagonal_defined", "MenpoModel.C01.centredSS_scaled",
    "MenpoModel.C01.rescale_to_pointcloud_scale", "MenpoModel.C01.rescale_to_pointcloud_plan_invertible",
    "MenpoModel.C01.rescale_landmarks_to_diagonal_range_plan", "MenpoModel.C01.crop_family_is_crop",
    "MenpoModel.C01.crop_family_exact_registration", "MenpoModel.C01.constrain_landmark_spec",
    "MenpoModel.C01.plan2_T_invertible_ext",
    "MenpoModel.C01.axis1_linear_flip", "MenpoModel.C01.mirror_exact_registration_linear",
    "MenpoModel.C01.rescale_plan_shape", "MenpoModel.C01.rescale_landmark",
    "MenpoModel.C01.rescale_landmarks_stay_inside", "MenpoModel.C01.rescale_registration",
    # integer dtypes
    "MenpoModel.C01.roundHalfEven_store", "MenpoModel.C01.int_registration_grid",
    "MenpoModel.C01.int_registration_grid_order0",
    # gaussian pyramid
    "MenpoModel.C01.blurAxis_affine_interior", "MenpoModel.C01.blur2_affine_interior",
    "MenpoModel.C01.warpF_registration_affine2_local", "MenpoModel.C01.gauss_step_registration",
    # sequences of operations
    "MenpoModel.C01.Aff2.inv_comp_apply", "MenpoModel.C01.chain_registered", "MenpoModel.C01.chain_registered_from_start",
    "MenpoModel.C01.pyramid_levels_registered", "MenpoModel.C01.gauss_pyramid_levels_registered",
    # pseudoinverse of every family class; the single funnel
    "MenpoModel.C01.pinv_sound", "MenpoModel.C01.family_pinv_registers", "MenpoModel.C01.plan_funnel_args",
    "MenpoModel.C01.expectedFunnel_eq",
    # obligations over the tables regenerated from the live code
    "MenpoModel.C01.GenProps.dispatch_ok", "MenpoModel.C01.GenProps.family_ok", "MenpoModel.C01.GenProps.family_sound",
    "MenpoModel.C01.GenProps.funnel_masked_ok", "MenpoModel.C01.GenProps.funnel_image_ok",
    "MenpoModel.C01.GenProps.funnel_boolean_ok",
    # the translator tie (GenProps/C01Src.lean): every definition translated from the source text = the model
    "MenpoModel.C01.GenProps.genScipyInterpolation_eq",
    "MenpoModel.C01.GenProps.genImageSample_eq",
    "MenpoModel.C01.GenProps.genBooleanSample_eq",
    "MenpoModel.C01.GenProps.genMaskedSample_eq",
    "MenpoModel.C01.GenProps.sample_dispatch",
    "MenpoModel.C01.GenProps.genBuildWarpToShape_eq",
    "MenpoModel.C01.GenProps.genImageWarpToShape_eq",
    "MenpoModel.C01.GenProps.genBooleanWarpToShape_eq",
    "MenpoModel.C01.GenProps.genMaskedWarpToShape_eq",
    "MenpoModel.C01.GenProps.warp_dispatch",
    "MenpoModel.C01.GenProps.genImageBuildWarpToMask_eq",
    "MenpoModel.C01.GenProps.genImageWarpToMask_eq",
    "MenpoModel.C01.GenProps.genMaskedWarpToMask_eq",
    "MenpoModel.C01.GenProps.genBooleanWarpToMask_eq",
    "MenpoModel.C01.GenProps.genRoundImageShape_eq",
    "MenpoModel.C01.GenProps.genRoundImageShape_bad",
    "MenpoModel.C01.GenProps.genCentre_eq",
    "MenpoModel.C01.GenProps.genConstrainPointsToBounds_eq",
    "MenpoModel.C01.GenProps.genTransformAboutCentreT_fam",
    "MenpoModel.C01.GenProps.genScaleAboutCentre_eq",
    "MenpoModel.C01.GenProps.genZoom_eq",
    "MenpoModel.C01.GenProps.genMirror_neg",
    "MenpoModel.C01.GenProps.genMirror_eq",
    "MenpoModel.C01.GenProps.genRescale_seq_eq",
    "MenpoModel.C01.GenProps.genRescale_scalar_eq",
    "MenpoModel.C01.GenProps.genRescale_short",
    "MenpoModel.C01.GenProps.genDiagonal_eq",
    "MenpoModel.C01.GenProps.genRescaleToDiagonal_eq",
    "MenpoModel.C01.GenProps.genRescaleToPointcloud_eq",
    "MenpoModel.C01.GenProps.genRescaleLandmarksToDiagonalRange_eq",
    "MenpoModel.C01.GenProps.genResize_eq",
    "MenpoModel.C01.GenProps.genCrop_eq",
    "MenpoModel.C01.GenProps.genCropToPointcloud_eq",
    "MenpoModel.C01.GenProps.genCropToLandmarks_eq",
    "MenpoModel.C01.GenProps.genCropToPointcloudProportion_eq",
    "MenpoModel.C01.GenProps.genCropToLandmarksProportion_eq",
    "MenpoModel.C01.GenProps.genBoundsTrue_eq",
    "MenpoModel.C01.GenProps.genCropToTrueMask_eq",
    "MenpoModel.C01.GenProps.genTransformAboutCentre_eq",
    "MenpoModel.C01.GenProps.genRotateCcwAboutCentre_eq",
    "MenpoModel.C01.GenProps.genPyramid_eq",
    "MenpoModel.C01.GenProps.genGaussianPyramid_eq",
    "MenpoModel.C01.GenProps.stepObj_refines",
    "MenpoModel.C01.GenProps.stepGaussObj_refines",
    "MenpoModel.C01.GenProps.genPyramid_levels",
    "MenpoModel.C01.GenProps.genGaussianPyramid_levels",
    "MenpoModel.C01.GenProps.genPyramid_zero",
    # the property for the translated entry points (GenProps/C01SrcProps.lean)
    "MenpoModel.C01.GenProps.execObj_channel",
    "MenpoModel.C01.GenProps.execObj_frame",
    "MenpoModel.C01.GenProps.execObj_lms",
    "MenpoModel.C01.GenProps.execObj_mask",
    "MenpoModel.C01.GenProps.pinv_translation",
    "MenpoModel.C01.GenProps.pinv_nonUniformScale",
    "MenpoModel.C01.GenProps.result_transform",
    "MenpoModel.C01.GenProps.result_landmarks",
    "MenpoModel.C01.GenProps.result_pixel",
    "MenpoModel.C01.GenProps.result_pixel_boolean",
    "MenpoModel.C01.GenProps.result_mask",
    "MenpoModel.C01.GenProps.result_registration_grid",
    "MenpoModel.C01.GenProps.result_registration_affine",
    "MenpoModel.C01.GenProps.result_registered",
    "MenpoModel.C01.GenProps.registered_of_eq",
    "MenpoModel.C01.GenProps.rescale_plan_pinv",
    "MenpoModel.C01.GenProps.genRescale_registered",
    "MenpoModel.C01.GenProps.genResize_registered",
    "MenpoModel.C01.GenProps.genRescaleToDiagonal_registered",
    "MenpoModel.C01.GenProps.genZoom_registered",
    "MenpoModel.C01.GenProps.genMirror_registered",
    "MenpoModel.C01.GenProps.genTransformAboutCentre_registered",
    "MenpoModel.C01.GenProps.genRotateCcwAboutCentre_registered",
    "MenpoModel.C01.GenProps.cropResult_exact",
    "MenpoModel.C01.GenProps.genCrop_exact",
    "MenpoModel.C01.GenProps.genCropToLandmarks_exact",
    "MenpoModel.C01.GenProps.genCropToLandmarksProportion_exact",
    "MenpoModel.C01.GenProps.genCropToTrueMask_exact",
    "MenpoModel.C01.GenProps.warpObj_funnel",
    "MenpoModel.C01.GenProps.levelsFrom_steps",
    "MenpoModel.C01.GenProps.genPyramid_steps",
    "MenpoModel.C01.GenProps.pyramidStepObj_registered",
    # the in-place operations (GenProps/C01SrcConstrain.lean)
    "MenpoModel.C01.GenProps.genConstrainLandmarksToBounds_eq", "MenpoModel.C01.GenProps.constrain_sets_agree",
    "MenpoModel.C01.GenProps.genConstrainToPointcloud_eq", "MenpoModel.C01.GenProps.genConstrainToLandmarks_eq",
    "MenpoModel.C01.GenProps.genConstrainMaskToLandmarks_eq", "MenpoModel.C01.GenProps.constrainMask_registered",
    "MenpoModel.C01.GenProps.constrainLandmarks_spec",
    # the same source text translated over the 3-D vocabulary (GenProps/C01Src3.lean, C01Src3Props.lean)
    "MenpoModel.C01.GenProps3.genScipyInterpolation_eq",
    "MenpoModel.C01.GenProps3.genImageSample_eq",
    "MenpoModel.C01.GenProps3.genBooleanSample_eq",
    "MenpoModel.C01.GenProps3.genMaskedSample_eq",
    "MenpoModel.C01.GenProps3.genBuildWarpToShape_eq",
    "MenpoModel.C01.GenProps3.genImageWarpToShape_eq",
    "MenpoModel.C01.GenProps3.genBooleanWarpToShape_eq",
    "MenpoModel.C01.GenProps3.genMaskedWarpToShape_eq",
    "MenpoModel.C01.GenProps3.genRoundImageShape_eq",
    "MenpoModel.C01.GenProps3.genCentre_eq",
    "MenpoModel.C01.GenProps3.genConstrainPointsToBounds_eq",
    "MenpoModel.C01.GenProps3.genTransformAboutCentreT_fam",
    "MenpoModel.C01.GenProps3.genScaleAboutCentre_eq",
    "MenpoModel.C01.GenProps3.genZoom_eq",
    "MenpoModel.C01.GenProps3.genMirror_neg",
    "MenpoModel.C01.GenProps3.genMirror_eq",
    "MenpoModel.C01.GenProps3.genRescale_seq_eq",
    "MenpoModel.C01.GenProps3.genRescale_scalar_eq",
    "MenpoModel.C01.GenProps3.genRescale_short",
    "MenpoModel.C01.GenProps3.genResize_eq",
    "MenpoModel.C01.GenProps3.genCrop_eq",
    "MenpoModel.C01.GenProps3.genCropToPointcloud_eq",
    "MenpoModel.C01.GenProps3.genCropToLandmarks_eq",
    "MenpoModel.C01.GenProps3.genCropToPointcloudProportion_eq",
    "MenpoModel.C01.GenProps3.genCropToLandmarksProportion_eq",
    "MenpoModel.C01.GenProps3.genPyramid_eq",
    "MenpoModel.C01.GenProps3.execObj3_pixel",
    "MenpoModel.C01.GenProps3.execObj3_run",
    "MenpoModel.C01.GenProps3.execObj3_frame",
    "MenpoModel.C01.GenProps3.execObj3_lms",
    "MenpoModel.C01.GenProps3.execObj3_mask",
    "MenpoModel.C01.GenProps3.pinv3_translation",
    "MenpoModel.C01.GenProps3.pinv3_nonUniformScale",
    "MenpoModel.C01.GenProps3.result3_registered",
    "MenpoModel.C01.GenProps3.registered3_of_eq",
    "MenpoModel.C01.GenProps3.registered3_grid",
    "MenpoModel.C01.GenProps3.result3_registration_affine",
    "MenpoModel.C01.GenProps3.rescale3_plan_pinv",
    "MenpoModel.C01.GenProps3.genRescale3_registered",
    "MenpoModel.C01.GenProps3.genResize3_registered",
    "MenpoModel.C01.GenProps3.genZoom3_registered",
    "MenpoModel.C01.GenProps3.genMirror3_registered",
    "MenpoModel.C01.GenProps3.genCrop3_exact",
    "MenpoModel.C01.GenProps3.cropResult3_exact",
]
TOL = 1e-9
TIE = 1e-6
WMASK = ("warp_to_mask", "pwa_mask", "tps_mask")
INT_DTYPES = ("uint8", "uint16", "int16", "int32")
WARPS = ("warp_to_shape", "warp_to_mask", "warp_class", "pwa_shape", "pwa_mask", "tps_shape", "tps_mask")


# ------------------------------------------------------------------------------------ contents

def content_array(spec, shape):
    """exact float64 array of one channel from its analytic description"""
    import numpy as np
    idx = np.indices(shape).astype(np.int64)
    k = spec[0]
    if k == "aff":
        out = np.full(shape, float(spec[1]))
        for ax in range(len(shape)):
            out = out + float(spec[2 + ax]) * idx[ax]
        return out
    if k == "hash":
        if len(shape) == 2:
            a, b, c, m, den = spec[1:]
            v = a * idx[0] + b * idx[1] + c * idx[0] * idx[1]
        else:
            a, b, c, e, m, den = spec[1:]
            v = a * idx[0] + b * idx[1] + c * idx[2] + e * idx[0] * idx[1] * idx[2]
        return (v % m) / float(den)
    if k == "half":
        v = spec[-1] + sum(spec[1 + ax] * idx[ax] for ax in range(len(shape)))
        return (v >= 0).astype(float)
    if k == "tab":
        return np.array(spec[1], dtype=float).reshape(shape)
    if k == "const":
        return np.full(shape, float(spec[1]))
    raise ValueError(k)


def content_tokens(spec):
    k = spec[0]
    if k == "tab":
        return "tab %d %s" % (len(spec[1]), " ".join(fq(v) for v in spec[1]))
    if k in ("aff", "const"):
        return k + " " + " ".join(fq(v) for v in spec[1:])
    return k + " " + " ".join(str(int(v)) for v in spec[1:])


def aff_eval(spec, pts):
    """value of an affine channel at (n, d) points"""
    import numpy as np
    pts = np.asarray(pts, dtype=float)
    return float(spec[1]) + pts.dot(np.array([float(x) for x in spec[2:]]))


def gen_content(rng, shape, dtype, force_aff=False):
    d = len(shape)
    integer = dtype in INT_DTYPES
    kind = "aff" if force_aff else rng.choice(["aff", "hash", "hash", "tab" if max(shape) <= 6 and d == 2 else "hash"])
    if kind == "aff":
        if integer:
            # stays inside 0..255 on shapes up to 40 per side
            if dtype in ("int16", "int32") and rng.random() < 0.6:
                # signed dtypes: negative pixel values and negative slopes (|value| < 32768 on shapes up to 72 per
                # side) - seeded C01-4 clipped resampled integer pixels at 0
                return ["aff", rng.randint(-400, -200)] + [c * rng.choice([1, -1]) for c in
                                                            rng.sample([1, 2, 3][:d] if d == 3 else [1, 2, 3], d)]
            return ["aff", rng.randint(0, 15)] + rng.sample([1, 2, 3][:d] if d == 3 else [1, 2, 3], d)
        coef = [rng.choice([-3, -2, -1.5, -1, -0.5, 0.5, 1, 1.5, 2, 3]) for _ in range(d)]
        if len(set(abs(c) for c in coef)) < d:          # distinct slopes: a swapped axis is visible
            coef = [1.0, -2.0, 0.5][:d]
            rng.shuffle(coef)
        return ["aff", rng.randint(-8, 8) / 2.0] + coef
    if kind == "hash":
        m = rng.choice([7, 11, 17, 31])
        den = 1 if integer else rng.choice([1, 2, 4])
        coefs = [rng.randint(1, 9) for _ in range(d)] + [rng.randint(0, 3)]
        return ["hash"] + coefs + [m, den]
    lo = -40 if dtype in ("int16", "int32") else 0
    vals = [rng.randint(lo, 40) if integer else rng.randint(-64, 64) / 4.0 for _ in range(shape[0] * shape[1])]
    return ["tab", vals]


def gen_mask(rng, shape):
    d = len(shape)
    if d == 2 and max(shape) <= 6 and rng.random() < 0.3:
        return ["tab", [float(rng.random() < 0.6) for _ in range(shape[0] * shape[1])]]
    if rng.random() < 0.15:
        return ["const", 1.0]
    while True:
        co = [rng.randint(-3, 3) for _ in range(d)]
        if any(co):
            break
    ctr = [s // 2 for s in shape]
    off = -sum(c * x for c, x in zip(co, ctr)) + rng.randint(-2, 2)
    return ["half"] + co + [off]


def build_image(case):
    import numpy as np
    from menpo.image import Image, MaskedImage, BooleanImage
    from menpo.shape import PointCloud
    shape = tuple(case["shape"])
    chans = np.stack([content_array(s, shape) for s in case["chans"]])
    if case["cls"] == "bool":
        im = BooleanImage(chans[0] != 0)
    elif case["cls"] == "masked":
        im = MaskedImage(chans.astype(case["dtype"]), mask=content_array(case["mask"], shape) != 0)
    else:
        im = Image(chans.astype(case["dtype"]))
    lay = case.get("layout", "C")
    if lay == "F":
        # a pixel buffer that is not C-contiguous (assigned after construction, as user code does)
        im.pixels = np.asfortranarray(im.pixels)
    elif lay == "view":
        big = np.zeros((im.pixels.shape[0],) + tuple(s + 3 for s in shape), dtype=im.pixels.dtype)
        sl = (slice(None),) + tuple(slice(1, 1 + s) for s in shape)
        big[sl] = im.pixels
        im.pixels = big[sl]
    life = case.get("life", "fresh")
    if life == "relandmarked":
        # a landmark manager with a history: groups that were set, overwritten and deleted before
        for g in case["groups"]:
            im.landmarks[g] = PointCloud(np.zeros((2, len(shape))))
        im.landmarks["gone"] = PointCloud(np.ones((3, len(shape))))
        del im.landmarks["gone"]
    for g, pts in case["groups"].items():
        im.landmarks[g] = make_shape(case.get("lmtype", {}).get(g, "PointCloud"), np.array(pts, dtype=float))
    # previous lives of the image object itself
    if life == "copy":
        im = im.copy()
    elif life == "from_vector" and case["cls"] == "img" and lay == "C":
        im = im.from_vector(im.as_vector())
    elif life == "as_masked" and case["cls"] == "masked" and lay == "C":
        plain = Image(im.pixels)
        plain.landmarks = im.landmarks
        im = plain.as_masked(mask=BooleanImage(im.mask.pixels[0]))
    return im


def make_shape(kind, pts):
    """landmark groups are stored as different shape classes (all of them must be carried along)"""
    import numpy as np
    from menpo.shape import PointCloud, TriMesh, PointUndirectedGraph
    n = len(pts)
    if kind == "TriMesh" and n >= 3 and pts.shape[1] == 2:
        return TriMesh(pts, trilist=np.array([[0, 1, 2]]))
    if kind == "PointUndirectedGraph" and n >= 2:
        return PointUndirectedGraph.init_from_edges(pts, np.array([[i, i + 1] for i in range(n - 1)]))
    return PointCloud(pts)


# ------------------------------------------------------------------------------------ generators

def dy(rng, lo, hi, m=2):
    """dyadic in [lo, hi] with denominator 2^m"""
    return rng.randint(int(lo * 2 ** m), int(hi * 2 ** m)) / float(2 ** m)


def gen_landmarks(rng, shape, n, lo_frac=0.0, hi_frac=1.0):
    pts = []
    for _ in range(n):
        p = []
        for s in shape:
            lo, hi = lo_frac * (s - 1), hi_frac * (s - 1)
            r = rng.random()
            if r < 0.35:
                p.append(float(rng.randint(int(math.ceil(lo)), int(math.floor(hi)))))
            elif r < 0.45:
                p.append(float(rng.choice([math.ceil(lo), math.floor(hi)])))
            else:
                p.append(min(max(dy(rng, lo, hi, rng.choice([1, 2, 3])), 0.0), float(s - 1)))
        pts.append(p)
    return pts


def base_case(rng, dim, shape=None, cls=None, lm_lo=0.0, lm_hi=1.0):
    if shape is None:
        shape = [rng.randint(3, 40) for _ in range(2)] if dim == 2 else [rng.randint(3, 9) for _ in range(3)]
        if dim == 2 and rng.random() < 0.08:
            shape[rng.randrange(2)] = 2          # the smallest extent on which every operation is defined
    if cls is None:
        cls = rng.choice(["img"] * 9 + ["masked"] * 7 + ["bool"] * 4)
    dtype = "bool" if cls == "bool" else rng.choice(["float64"] * 5 + ["float32"] * 2 + ["uint8"] * 2 + ["uint16", "int16", "int32"])
    nch = 1 if cls == "bool" else rng.randint(1, 4)
    if cls == "bool":
        chans = [gen_mask(rng, shape)]
        if chans[0][0] == "const":
            chans = [["half"] + [1] + [0] * (dim - 1) + [-(shape[0] // 2)]]
    else:
        chans = [gen_content(rng, shape, dtype, force_aff=(k == 0)) for k in range(nch)]
    groups = {"g0": gen_landmarks(rng, shape, rng.randint(1, 5), lm_lo, lm_hi)}
    if rng.random() < 0.35:
        groups["g1"] = gen_landmarks(rng, shape, rng.randint(1, 3), lm_lo, lm_hi)
    return {"dim": dim, "cls": cls, "dtype": dtype, "shape": list(shape), "chans": chans,
            "mask": gen_mask(rng, shape) if cls == "masked" else None,
            "order": rng.choice([1, 1, 1, 1, 1, 0, 0, 0, 3, 2, 4, 5]), "groups": groups,
            "layout": rng.choice(["C"] * 6 + ["F", "view"]),
            "life": rng.choice(["fresh"] * 5 + ["copy", "from_vector", "as_masked", "relandmarked"]),
            "lmtype": {g: rng.choice(["PointCloud", "PointCloud", "TriMesh", "PointUndirectedGraph"]) for g in groups}}


def _trans_offset(rng, room):
    """offset of a translated window with `room` whole pixels of slack: whole, quarter, three-quarter, and a hair
    (2^-40) below / above a whole pixel - never near a rounding tie"""
    base = rng.randint(0, max(0, room)) if rng.random() < 0.85 else rng.randint(-2, max(0, room) + 2)
    return base + rng.choice([0.0, 0.25, 0.75, -2.0 ** -40, 2.0 ** -40, 0.375, 0.625])


def gen_mode(rng):
    if rng.random() < 0.35:
        return ["near"]
    return ["const", rng.choice([0.0, 0.0, 0.0, 0.5, 1.0, -1.0, 2.5])]


ROUNDS = ["ceil", "floor", "round"]


def gen_scale(rng, n):
    """dyadic positive scale with scale*n >= 2 (the result keeps at least two pixels on the axis)"""
    while True:
        s = rng.choice([0.25, 0.375, 0.5, 0.625, 0.75, 0.875, 1.0, 1.125, 1.25, 1.5, 1.75, 2.0, 2.5, 3.0])
        if s * n >= 2 and s * n <= 90:
            return s


def well_conditioned_2x2(rng):
    while True:
        m = [[dy(rng, -2, 2), dy(rng, -2, 2)], [dy(rng, -2, 2), dy(rng, -2, 2)]]
        det = m[0][0] * m[1][1] - m[0][1] * m[1][0]
        if 0.25 <= abs(det) <= 4:
            return m


def well_conditioned_3x3(rng):
    import numpy as np
    while True:
        m = np.array([[dy(rng, -1, 1) for _ in range(3)] for _ in range(3)]) + np.diag([rng.choice([-1.5, 1, 1.5, 2])] * 3)
        det = np.linalg.det(m)
        if 0.5 <= abs(det) <= 8:
            return m.tolist()


def gen_op2(rng, name, case):
    """parameters of one 2-D operation for the image described by `case` (may adjust landmarks)"""
    h, w = case["shape"]
    lm = case["groups"]["g0"]
    if name == "rescale":
        form = rng.choice(["scalar", "tuple", "list", "ndarray"])
        if form == "scalar":
            s = gen_scale(rng, min(h, w))
            if s * max(h, w) > 90:
                s = 1.0 if min(h, w) >= 2 else s
            sc = [s, s]
        else:
            sc = [gen_scale(rng, h), gen_scale(rng, w)]
        return {"name": name, "scale": sc, "form": form, "round": rng.choice(ROUNDS)}
    if name == "rescale_to_diagonal":
        diag = dy(rng, 0.5 * math.hypot(h, w) + 3, 2.0 * math.hypot(h, w) + 3, 1)
        return {"name": name, "diagonal": diag, "round": rng.choice(ROUNDS)}
    if name in ("rescale_to_pointcloud", "rescale_landmarks_to_diagonal_range"):
        # needs a landmark group with spread
        while True:
            pts = gen_landmarks(rng, [h, w], rng.randint(3, 5))
            xs, ys = [p[0] for p in pts], [p[1] for p in pts]
            if max(xs) - min(xs) >= 1 and max(ys) - min(ys) >= 1:
                break
        case["groups"]["g0"] = pts
        k = rng.choice([0.5, 0.75, 1.25, 1.5, 2.0])
        if name == "rescale_to_pointcloud":
            tgt = [[k * p[0] + 2.0, k * p[1] - 1.0] for p in pts]
            return {"name": name, "target": tgt, "group": "g0", "round": rng.choice(ROUNDS)}
        rg = math.hypot(max(xs) - min(xs), max(ys) - min(ys))
        return {"name": name, "diagonal_range": dy(rng, 0.6 * rg + 1, 1.8 * rg + 1, 1), "group": "g0",
                "round": rng.choice(ROUNDS)}
    if name == "resize":
        return {"name": name, "shape": [rng.randint(2, 50), rng.randint(2, 50)]}
    if name == "zoom":
        return {"name": name, "scale": rng.choice([0.5, 0.75, 1.25, 1.5, 2.0, 3.0])}
    if name == "rotate":
        c, s = common.rat_circle(rng)
        base = math.atan2(float(s), float(c)) + 2 * math.pi * rng.choice([0, 0, 0, 1, -1])
        deg = rng.random() < 0.6
        return {"name": name, "cos": str(c), "sin": str(s), "theta": math.degrees(base) if deg else base,
                "degrees": deg, "retain": rng.random() < 0.4, "mode": gen_mode(rng), "round": rng.choice(ROUNDS)}
    if name == "about":
        kind = rng.choice(["rotation", "shear", "nonuniform", "uniform", "affine", "similarity"])
        op = {"name": name, "kind": kind, "retain": rng.random() < 0.4, "mode": gen_mode(rng), "round": rng.choice(ROUNDS)}
        if kind == "rotation":
            c, s = common.rat_circle(rng)
            op["matrix"] = [[float(c), -float(s)], [float(s), float(c)]]
        elif kind == "shear":
            op["phi"], op["psi"] = float(rng.randint(-40, 40)), float(rng.randint(-40, 40))
        elif kind == "nonuniform":
            op["scale"] = [rng.choice([0.5, 0.75, 1.25, 1.5, 2.0]), rng.choice([0.5, 0.75, 1.25, 1.5, 2.0])]
        elif kind == "uniform":
            op["scale"] = rng.choice([0.5, 0.75, 1.5, 2.0])
        elif kind == "affine":
            op["matrix"] = well_conditioned_2x2(rng)
            op["translation"] = [dy(rng, -3, 3), dy(rng, -3, 3)]
        else:
            c, s = common.rat_circle(rng)
            k = rng.choice([0.5, 1.5, 2.0])
            op["matrix"] = [[k * float(c), -k * float(s)], [k * float(s), k * float(c)]]
            op["translation"] = [dy(rng, -3, 3), dy(rng, -3, 3)]
        return op
    if name == "mirror":
        return {"name": name, "axis": rng.randint(0, 1)}
    if name == "crop":
        constrain = rng.random() < 0.5
        frac = rng.random() < 0.5
        while True:
            lo = -4 if constrain else 0
            mn = [dy(rng, lo, h - 2, 2 if frac else 0), dy(rng, lo, w - 2, 2 if frac else 0)]
            mx = [dy(rng, mn[0] + 1, h + (4 if constrain else 0), 2 if frac else 0),
                  dy(rng, mn[1] + 1, w + (4 if constrain else 0), 2 if frac else 0)]
            ok = all(min(math.ceil(b), n) - max(math.floor(a), 0) >= 1 for a, b, n in zip(mn, mx, (h, w)))
            if ok:
                break
        return {"name": name, "min": mn, "max": mx, "constrain": constrain, "arg": rng.choice(["ndarray", "list"])}
    if name in ("crop_to_pointcloud", "crop_to_landmarks", "crop_to_pointcloud_proportion",
                "crop_to_landmarks_proportion"):
        while True:
            pts = gen_landmarks(rng, [h, w], rng.randint(2, 5))
            xs, ys = [p[0] for p in pts], [p[1] for p in pts]
            if max(xs) - min(xs) >= 1 and max(ys) - min(ys) >= 1:
                break
        op = {"name": name, "constrain": True if rng.random() < 0.8 else None}
        if "landmarks" in name:
            case["groups"]["g0"] = pts
            op["group"] = "g0"
        else:
            op["points"] = pts
        if "proportion" in name:
            op["proportion"] = rng.choice([0.0, 0.125, 0.25, 0.5, 1.0])
            op["minimum"] = rng.random() < 0.5
        else:
            op["boundary"] = rng.choice([0, 0, 1, 2, 3, 1.5, 0.25])
        return op
    if name == "crop_to_true_mask":
        # rectangular true region (so that the true indices have a non-degenerate bounding box)
        r0, c0 = rng.randint(0, h - 2), rng.randint(0, w - 2)
        r1, c1 = rng.randint(r0 + 1, h - 1), rng.randint(c0 + 1, w - 1)
        case["cls"] = "masked"
        if case["dtype"] == "bool":
            case["dtype"] = "float64"
        tab = [1.0 if (r0 <= i <= r1 and c0 <= j <= c1 and (i + j) % 5 != 4) or (i, j) in ((r0, c0), (r1, c1)) else 0.0
               for i in range(h) for j in range(w)]
        case["mask"] = ["tab", tab]
        case["mask_bbox"] = [[r0, c0], [r1, c1]]
        return {"name": name, "boundary": rng.choice([0, 0, 1, 2]), "constrain": True}
    if name in ("warp_to_shape", "warp_to_mask"):
        th, tw = rng.randint(3, 30), rng.randint(3, 30)
        m = well_conditioned_2x2(rng)
        # map the template centre near the source centre
        tc = [(th - 1) / 2.0, (tw - 1) / 2.0]
        sc = [(h - 1) / 2.0 + dy(rng, -2, 2), (w - 1) / 2.0 + dy(rng, -2, 2)]
        t = [math.floor(4 * (sc[0] - m[0][0] * tc[0] - m[0][1] * tc[1])) / 4.0,
             math.floor(4 * (sc[1] - m[1][0] * tc[0] - m[1][1] * tc[1])) / 4.0]
        kind = rng.choice(["Affine", "Affine", "Homogeneous", "Translation"])
        if kind == "Translation":
            # a pure Translation *object* (what the crop family hands to warp_to_shape) with fractional, whole and
            # just-off-whole offsets; the window mostly inside the source, sometimes leaving it
            th, tw = rng.randint(2, max(2, h - 1)), rng.randint(2, max(2, w - 1))
            m = [[1.0, 0.0], [0.0, 1.0]]
            t = [_trans_offset(rng, h - th), _trans_offset(rng, w - tw)]
        op = {"name": name, "shape": [th, tw], "matrix": m, "translation": t, "tclass": kind, "mode": gen_mode(rng)}
        if name == "warp_to_mask":
            op["tmask"] = gen_mask(rng, [th, tw])
            if op["tmask"][0] == "tab":
                op["tmask"] = ["const", 1.0]
        return op
    if name in ("pyramid", "gaussian_pyramid"):
        return {"name": name, "n_levels": rng.randint(2, 3), "downscale": rng.choice([2, 2, 1.5, 3] if name == "pyramid" else [2, 2, 1.5])}
    raise ValueError(name)


CHAIN_LAST = ["rescale", "resize", "zoom", "rotate", "about", "mirror", "crop", "warp_to_shape"]


def gen_chain(rng, case):
    """a sequence of operations, each applied to the result of the previous one: one or two exact re-framings
    (crop, mirror) and then any operation.  The image the last operation sees has had a previous life: its pixel
    buffer comes out of a warp, its landmark manager was copied and moved in place.  The landmarks are drawn in the
    frame of the last source and carried back exactly to the first image."""
    shape = list(case["shape"])
    pre, back = [], []
    for _ in range(rng.randint(1, 2)):
        if rng.random() < 0.6 and min(shape) >= 8:
            m = rng.choice([0, 2])
            mn = [dy(rng, 0, s - 7, m) for s in shape]
            mx = [dy(rng, a + 6, s, m) for a, s in zip(mn, shape)]
            pre.append({"name": "crop", "min": mn, "max": mx, "constrain": False, "arg": rng.choice(["ndarray", "list"])})
            off = [math.floor(a) for a in mn]
            back.append(("shift", off))
            shape = [int(math.ceil(b) - math.floor(a)) for a, b in zip(mn, mx)]
        else:
            ax = rng.randint(0, 1)
            pre.append({"name": "mirror", "axis": ax})
            back.append(("flip", ax, shape[ax]))
    tmp = dict(case, shape=shape, groups={"g0": [[1.0, 1.0]]})
    last = gen_op2(rng, rng.choice(CHAIN_LAST), tmp)
    groups = {}
    for g in case["groups"]:
        pts = gen_landmarks(rng, shape, len(case["groups"][g]))
        for b in reversed(back):
            if b[0] == "shift":
                pts = [[x + o for x, o in zip(q, b[1])] for q in pts]
            else:
                pts = [[(b[2] - 1 - x) if a == b[1] else x for a, x in enumerate(q)] for q in pts]
        groups[g] = pts
    case["groups"] = groups
    return {"name": "chain", "pre": pre, "last": last}


def gen_constrain(rng, case):
    """landmarks partly outside the image for Image.constrain_landmarks_to_bounds()"""
    h, w = case["shape"]
    for g in case["groups"]:
        case["groups"][g] = [[dy(rng, -3, h + 2, 2), dy(rng, -3, w + 2, 2)] for _ in case["groups"][g]]
    return {"name": "constrain_landmarks"}


def gen_constrain_mask(rng, case):
    """MaskedImage.constrain_mask_to_landmarks / BooleanImage.constrain_to_landmarks: a group of 3-7 landmarks in general
    position inside the image (the property's quantifier: landmark groups lying in the image)"""
    h, w = case["shape"]
    while True:
        n = rng.randint(3, 7)
        pts = [[dy(rng, 0, h - 1, 2), dy(rng, 0, w - 1, 2)] for _ in range(n)]
        # not (nearly) collinear: the triangulation needs an area
        area = max(abs((b[0] - a[0]) * (c[1] - a[1]) - (b[1] - a[1]) * (c[0] - a[0]))
                   for a in pts for b in pts for c in pts)
        if area >= 2.0 and len({tuple(p) for p in pts}) == n:
            break
    case["groups"] = {"g0": pts}
    if rng.random() < 0.4:
        case["groups"]["g1"] = gen_landmarks(rng, case["shape"], rng.randint(1, 3))
    case["lmtype"] = {g: "PointCloud" for g in case["groups"]}
    return {"name": "constrain_mask", "test": "pwa", "batch": rng.choice([None, None, 7, 100])}


def convex_hull(pts):
    """counter-clockwise convex hull of dyadic points, in exact integer arithmetic (coordinates scaled by 2^8)"""
    P = sorted({(int(round(p[0] * 256)), int(round(p[1] * 256))) for p in pts})

    def cross(o, a, b):
        return (a[0] - o[0]) * (b[1] - o[1]) - (a[1] - o[1]) * (b[0] - o[0])
    lower, upper = [], []
    for p in P:
        while len(lower) >= 2 and cross(lower[-2], lower[-1], p) <= 0:
            lower.pop()
        lower.append(p)
    for p in reversed(P):
        while len(upper) >= 2 and cross(upper[-2], upper[-1], p) <= 0:
            upper.pop()
        upper.append(p)
    return lower[:-1] + upper[:-1]


def hull_side(hull, q):
    """exact position of the integer pixel q relative to the hull (of `convex_hull`): +1 inside, 0 on the boundary,
    -1 outside"""
    qx, qy = int(q[0]) * 256, int(q[1]) * 256
    side = 1
    for a, b in zip(hull, hull[1:] + hull[:1]):
        c = (b[0] - a[0]) * (qy - a[1]) - (b[1] - a[1]) * (qx - a[0])
        if c < 0:
            return -1
        if c == 0:
            side = 0
    return side


FAMILY = ["Rotation", "Similarity", "UniformScale", "NonUniformScale", "Translation", "Affine", "Homogeneous",
          "AlignmentAffine", "AlignmentSimilarity", "AlignmentRotation", "AlignmentTranslation", "AlignmentUniformScale"]


def gen_class_warp(rng, case):
    """a direct warp_to_shape call whose transform argument is an object of one class of the homogeneous family
    (every class moves the landmarks with its own `pseudoinverse`).  The landmarks are images of template points
    that fall inside the source, so that registration can be checked at them."""
    h, w = case["shape"]
    cls = rng.choice(FAMILY)
    th, tw = rng.randint(4, 12), rng.randint(4, 12)
    t_small = rng.choice([F(1, 8), F(-1, 8), F(1, 4), F(-1, 4), F(1, 3), F(1, 2), F(-1, 2), F(1, 16)])
    c, s_ = (1 - t_small ** 2) / (1 + t_small ** 2), 2 * t_small / (1 + t_small ** 2)
    k = rng.choice([0.5, 0.75, 1.25, 1.5, 2.0, 2.5])
    k2 = rng.choice([0.5, 0.75, 1.25, 1.5, 2.0, 3.0])
    base = cls.replace("Alignment", "")
    if base == "Rotation":
        m = [[float(c), -float(s_)], [float(s_), float(c)]]
        t = [0.0, 0.0]
    elif base == "UniformScale":
        m, t = [[k, 0.0], [0.0, k]], [0.0, 0.0]
    elif base == "NonUniformScale":
        m, t = [[k, 0.0], [0.0, k2]], [0.0, 0.0]
    elif base == "Translation":
        m, t = [[1.0, 0.0], [0.0, 1.0]], [_trans_offset(rng, h - th), _trans_offset(rng, w - tw)]
    elif base == "Similarity":
        m = [[k * float(c), -k * float(s_)], [k * float(s_), k * float(c)]]
        t = [dy(rng, 0, max(1, h // 3)), dy(rng, 0, max(1, w // 3))]
    else:
        m = well_conditioned_2x2(rng)
        tc = [(th - 1) / 2.0, (tw - 1) / 2.0]
        sc = [(h - 1) / 2.0, (w - 1) / 2.0]
        t = [math.floor(4 * (sc[0] - m[0][0] * tc[0] - m[0][1] * tc[1])) / 4.0,
             math.floor(4 * (sc[1] - m[1][0] * tc[0] - m[1][1] * tc[1])) / 4.0]
    op = {"name": "warp_class", "shape": [th, tw], "matrix": m, "translation": t, "tclass": cls, "mode": gen_mode(rng)}
    if cls.startswith("Alignment"):
        # source cloud in general position; the target is its image under the wanted map
        while True:
            src = [[dy(rng, -4, 4), dy(rng, -4, 4)] for _ in range(rng.randint(4, 6))]
            xs, ys = [q[0] for q in src], [q[1] for q in src]
            mx, my = sum(xs) / len(xs), sum(ys) / len(ys)
            sxx = sum((x - mx) ** 2 for x in xs)
            syy = sum((y - my) ** 2 for y in ys)
            sxy = sum((x - mx) * (y - my) for x, y in zip(xs, ys))
            if sxx * syy - sxy ** 2 > 4.0:
                break
        op["align_src"] = src
        op["align_tgt"] = [[m[0][0] * x + m[0][1] * y + t[0], m[1][0] * x + m[1][1] * y + t[1]] for x, y in src]
    return op


def class_transform(op):
    """the transform object of a warp_class case"""
    import numpy as np
    import menpo.transform as mt
    from menpo.shape import PointCloud
    cls = op["tclass"]
    m, t = np.array(op["matrix"], dtype=float), np.array(op["translation"], dtype=float)
    hm = np.eye(3)
    hm[:2, :2] = m
    hm[:2, 2] = t
    if cls.startswith("Alignment"):
        a, b = PointCloud(np.array(op["align_src"], dtype=float)), PointCloud(np.array(op["align_tgt"], dtype=float))
        if cls == "AlignmentSimilarity":
            return mt.AlignmentSimilarity(a, b, rotation=True, allow_mirror=False)
        if cls == "AlignmentRotation":
            return mt.AlignmentRotation(a, b, allow_mirror=False)
        return getattr(mt, cls)(a, b)
    if cls == "Rotation":
        return mt.Rotation(m, skip_checks=True)
    if cls == "UniformScale":
        return mt.UniformScale(float(m[0, 0]), 2)
    if cls == "NonUniformScale":
        return mt.NonUniformScale(np.array([m[0, 0], m[1, 1]]))
    if cls == "Translation":
        return mt.Translation(t)
    if cls == "Similarity":
        return mt.Similarity(hm)
    if cls == "Homogeneous":
        return mt.Homogeneous(hm)
    return mt.Affine(hm)


def class_landmarks(rng, op, shape, n):
    """landmarks = images of template points that land inside the source (one pixel of margin), as exact floats"""
    import numpy as np
    t = class_transform(op)
    th, tw = op["shape"]
    out = []
    for _ in range(40):
        q = np.array([[dy(rng, 0, th - 1, rng.choice([0, 1, 2])), dy(rng, 0, tw - 1, rng.choice([0, 1, 2]))]])
        l = t.apply(q)[0]
        if all(1.0 <= l[a] <= shape[a] - 2.0 for a in range(2)):
            out.append([float(l[0]), float(l[1])])
        if len(out) >= n:
            break
    return out


_GK = {}


def gaussian_half_weights(sigma):
    """the kernel scipy.ndimage.gaussian_filter applies along one axis, measured as its impulse response; returned as
    half weights w0 (centre) .. w_r if it is symmetric, supported on radius int(4 sigma + 0.5), of total weight 1
    (the contract the Lean theorem takes) - else None"""
    if sigma in _GK:
        return _GK[sigma]
    import numpy as np
    from scipy.ndimage import gaussian_filter
    r = int(4.0 * sigma + 0.5)
    n = 2 * r + 9
    d = np.zeros(n)
    d[n // 2] = 1.0
    k = gaussian_filter(d, sigma)
    c = n // 2
    ok = all(k[c - i] == k[c + i] for i in range(c + 1)) and all(k[c + i] == 0 for i in range(r + 1, c + 1)) \
        and abs(float(k.sum()) - 1.0) <= 1e-12
    _GK[sigma] = [float(k[c + i]) for i in range(r + 1)] if ok else None
    return _GK[sigma]


def grid_mesh(np, gh, gw, r0, r1, c0, c1):
    """regular (gh x gw) control grid over [r0,r1]x[c0,c1] with a fixed triangulation"""
    pts = [[r0 + (r1 - r0) * i / float(gh - 1), c0 + (c1 - c0) * j / float(gw - 1)] for i in range(gh) for j in range(gw)]
    tl = []
    for i in range(gh - 1):
        for j in range(gw - 1):
            a, b, c, d = gw * i + j, gw * i + j + 1, gw * (i + 1) + j, gw * (i + 1) + j + 1
            tl += [[a, b, c], [b, d, c]]
    return np.array(pts), np.array(tl)


def gen_nonaffine(rng, name, case):
    """piecewise-affine / thin-plate-spline warp: template control grid on integer positions (cell 4 px), extended
    one cell beyond the template frame so every template pixel is strictly inside the triangulation; source control
    points = affine image of the grid + jitter, inside the source image"""
    kind, how = name.split("_", 1)            # pwa|tps , shape|mask
    gh, gw = rng.randint(3, 4), rng.randint(3, 4)
    cell = 4
    th, tw = cell * (gh - 1) - 3, cell * (gw - 1) - 3       # frame strictly inside the grid hull
    k = rng.choice([1.0, 1.25, 1.5])
    src = []
    for i in range(gh):
        for j in range(gw):
            src.append([k * (cell * i - 2) + 6 + rng.randint(-3, 3) / 4.0, k * (cell * j - 2) + 6 + rng.randint(-3, 3) / 4.0])
    h = int(math.ceil(max(p[0] for p in src))) + 4
    w = int(math.ceil(max(p[1] for p in src))) + 4
    case["shape"] = [h, w]
    if case["cls"] == "bool":
        case["chans"] = [["half", 1, -1, rng.randint(-3, 3)]]
    else:
        case["chans"] = [gen_content(rng, [h, w], case["dtype"], force_aff=(c == 0)) for c in range(len(case["chans"]))]
    if case["cls"] == "masked":
        case["mask"] = gen_mask(rng, [h, w])
    op = {"name": name, "kind": kind, "how": how, "grid": [gh, gw], "cell": cell, "shape": [th, tw], "src": src,
          "mode": gen_mode(rng)}
    if how == "mask":
        op["tmask"] = gen_mask(rng, [th, tw])
        if op["tmask"][0] == "tab":
            op["tmask"] = ["const", 1.0]
    # landmarks: for TPS the control points whose template position is inside the frame (registration is only
    # promised there); for PWA control points + points inside the source hull (convex combinations of one cell)
    inner = [(i, j) for i in range(gh) for j in range(gw) if 0 <= cell * i - 2 <= th - 1 and 0 <= cell * j - 2 <= tw - 1]
    lms = [src[i * gw + j] for (i, j) in rng.sample(inner, min(len(inner), 3))]
    if kind == "pwa":
        for _ in range(3):
            i, j = rng.randint(0, gh - 2), rng.randint(0, gw - 2)
            a, b, c = src[i * gw + j], src[i * gw + j + 1], src[(i + 1) * gw + j]
            u, v = rng.choice([0.25, 0.5, 0.125]), rng.choice([0.25, 0.375, 0.125])
            lms.append([a[0] + u * (b[0] - a[0]) + v * (c[0] - a[0]), a[1] + u * (b[1] - a[1]) + v * (c[1] - a[1])])
    case["groups"] = {"g0": lms}
    return op


def gen_op3(rng, name, case):
    n = case["shape"]
    if name == "rescale":
        return {"name": name, "scale": [gen_scale(rng, s) for s in n], "form": "list", "round": rng.choice(ROUNDS)}
    if name == "resize":
        return {"name": name, "shape": [rng.randint(2, 12) for _ in n]}
    if name == "zoom":
        return {"name": name, "scale": rng.choice([0.5, 1.5, 2.0])}
    if name == "mirror":
        return {"name": name, "axis": rng.randint(0, 2)}
    if name == "crop":
        constrain = rng.random() < 0.5
        frac = rng.random() < 0.5
        while True:
            lo = -2 if constrain else 0
            mn = [dy(rng, lo, s - 2, 1 if frac else 0) for s in n]
            mx = [dy(rng, a + 1, s + (2 if constrain else 0), 1 if frac else 0) for a, s in zip(mn, n)]
            if all(min(math.ceil(b), s) - max(math.floor(a), 0) >= 1 for a, b, s in zip(mn, mx, n)):
                break
        return {"name": name, "min": mn, "max": mx, "constrain": constrain, "arg": "ndarray"}
    if name == "warp_to_shape":
        ts = [rng.randint(3, 7) for _ in n]
        m = well_conditioned_3x3(rng)
        tc = [(s - 1) / 2.0 for s in ts]
        sc = [(s - 1) / 2.0 for s in n]
        t = [math.floor(4 * (sc[r] - sum(m[r][c] * tc[c] for c in range(3)))) / 4.0 for r in range(3)]
        kind = "Affine"
        if rng.random() < 0.3:
            kind = "Translation"
            ts = [rng.randint(2, max(2, s - 1)) for s in n]
            m = [[1.0 if r == c else 0.0 for c in range(3)] for r in range(3)]
            t = [_trans_offset(rng, s - k) for s, k in zip(n, ts)]
        return {"name": name, "shape": ts, "matrix": m, "translation": t, "tclass": kind, "mode": gen_mode(rng)}
    raise ValueError(name)


# ------------------------------------------------------------------------------------ implementation runner

def make_transform(op, d):
    import numpy as np
    import menpo.transform as mt
    hm = np.eye(d + 1)
    hm[:d, :d] = np.array(op["matrix"], dtype=float)
    if "translation" in op:
        hm[:d, d] = op["translation"]
    cls = op.get("tclass", "Affine")
    if cls == "Homogeneous":
        return mt.Homogeneous(hm)
    if cls == "Translation":
        return mt.Translation(np.array(op["translation"], dtype=float))
    return mt.Affine(hm)


def about_transform(op):
    import numpy as np
    import menpo.transform as mt
    k = op["kind"]
    if k == "rotation":
        return mt.Rotation(np.array(op["matrix"]), skip_checks=True)
    if k == "shear":
        return mt.Affine.init_from_2d_shear(op["phi"], op["psi"], degrees=True)
    if k == "nonuniform":
        return mt.NonUniformScale(np.array(op["scale"]))
    if k == "uniform":
        return mt.UniformScale(op["scale"], 2)
    hm = np.eye(3)
    hm[:2, :2] = np.array(op["matrix"])
    hm[:2, 2] = op["translation"]
    return mt.Similarity(hm) if k == "similarity" else mt.Affine(hm)


def mode_kwargs(mode):
    return {"mode": "nearest"} if mode[0] == "near" else {"mode": "constant", "cval": mode[1]}


def nonaffine_transform(op):
    import numpy as np
    import menpo.transform as mt
    from menpo.shape import PointCloud, TriMesh
    gh, gw = op["grid"]
    cell = op["cell"]
    pts, tl = grid_mesh(np, gh, gw, -2.0, cell * (gh - 1) - 2.0, -2.0, cell * (gw - 1) - 2.0)
    src = np.array(op["src"], dtype=float)
    if op["kind"] == "pwa":
        return mt.PiecewiseAffine(TriMesh(pts, trilist=tl), PointCloud(src))
    return mt.ThinPlateSplines(PointCloud(pts), PointCloud(src))


def reused_transform(t, d):
    """the same map as `t`, held by an object with a previous life: built on other parameters, used for a
    landmark-carrying warp of a small image (which asks it for apply() and pseudoinverse()), then brought to
    t's parameters through the public update of its class (set_target for the alignments, from_vector_inplace /
    set_h_matrix for the matrix family).  Classes without such an update are returned as they are."""
    import numpy as np
    from menpo.image import Image
    from menpo.shape import PointCloud
    from menpo.base import Targetable, Vectorizable
    try:
        if isinstance(t, Targetable):
            want = t.target.points.copy()
            o = t.copy()
            shift = np.linspace(0.25, 1.0, want.size).reshape(want.shape)
            o.set_target(PointCloud(want + shift))
            update = lambda: o.set_target(PointCloud(want))
        elif type(t).__name__ in ("Homogeneous", "Affine"):
            hm = t.h_matrix.copy()
            o = t.copy()
            other = hm.copy()
            other[:d, d] += 0.75
            o.set_h_matrix(other, skip_checks=True)
            update = lambda: o.set_h_matrix(hm, skip_checks=True)
        elif isinstance(t, Vectorizable) and t.n_parameters:
            v = t.as_vector().copy()
            # only when the parameter vector reproduces the matrix bit for bit (a fresh object decides), so that
            # exact sampling ties of the recipe stay exact
            if not np.array_equal(t.from_vector(v).h_matrix, t.h_matrix):
                return t
            o = t.from_vector(v + np.linspace(0.125, 0.5, v.size))
            update = lambda: o._from_vector_inplace(v)
        else:
            return t
    except Exception:
        return t
    small = Image(np.arange(float(4 ** d)).reshape((1,) + (4,) * d))
    small.landmarks["p"] = PointCloud(np.full((2, d), 1.5) + np.arange(2)[:, None] * 0.5)
    try:
        small.warp_to_shape((3,) * d, o, warp_landmarks=True, order=1)
    except Exception:
        pass
    try:
        o.pseudoinverse()
    except Exception:
        pass
    update()
    return o


def call_op(im, case, return_transform=True):
    """the real public API; returns (result, transform) — or a list of pyramid levels for the pyramids"""
    import numpy as np
    from menpo.image import BooleanImage
    from menpo.shape import PointCloud
    op = case["op"]
    n = op["name"]
    o = case["order"]
    d = case["dim"]
    kw = {"return_transform": True} if return_transform else {}
    if n == "rescale":
        s = op["scale"]
        arg = s[0] if op["form"] == "scalar" else tuple(s) if op["form"] == "tuple" else np.array(s) if op["form"] == "ndarray" else list(s)
        return im.rescale(arg, round=op["round"], order=o, **kw)
    if n == "rescale_to_diagonal":
        return im.rescale_to_diagonal(op["diagonal"], round=op["round"], **kw)
    if n == "rescale_to_pointcloud":
        return im.rescale_to_pointcloud(PointCloud(np.array(op["target"])), group=op["group"], round=op["round"], order=o, **kw)
    if n == "rescale_landmarks_to_diagonal_range":
        return im.rescale_landmarks_to_diagonal_range(op["diagonal_range"], group=op["group"], round=op["round"], order=o, **kw)
    if n == "resize":
        return im.resize(tuple(op["shape"]), order=o, **kw)
    if n == "zoom":
        return im.zoom(op["scale"], order=o, **kw)
    if n == "rotate":
        return im.rotate_ccw_about_centre(op["theta"], degrees=op["degrees"], retain_shape=op["retain"], round=op["round"],
                                          order=o, **dict(mode_kwargs(op["mode"]), **kw))
    if n == "about":
        return im.transform_about_centre(about_transform(op), retain_shape=op["retain"], round=op["round"], order=o,
                                         **dict(mode_kwargs(op["mode"]), **kw))
    if n == "mirror":
        return im.mirror(axis=op["axis"], order=o, **kw)
    if n == "crop":
        mn, mx = op["min"], op["max"]
        if op["arg"] == "ndarray":
            mn, mx = np.array(mn, dtype=float), np.array(mx, dtype=float)
        return im.crop(mn, mx, constrain_to_boundary=op["constrain"], **kw)
    ckw = dict(kw)
    if n.startswith("crop_to") and op.get("constrain") is not None:
        ckw["constrain_to_boundary"] = op["constrain"]
    if n == "crop_to_pointcloud":
        return im.crop_to_pointcloud(PointCloud(np.array(op["points"])), boundary=op["boundary"], **ckw)
    if n == "crop_to_landmarks":
        return im.crop_to_landmarks(group=op["group"], boundary=op["boundary"], **ckw)
    if n == "crop_to_pointcloud_proportion":
        return im.crop_to_pointcloud_proportion(PointCloud(np.array(op["points"])), op["proportion"], minimum=op["minimum"], **ckw)
    if n == "crop_to_landmarks_proportion":
        return im.crop_to_landmarks_proportion(op["proportion"], group=op["group"], minimum=op["minimum"], **ckw)
    if n == "crop_to_true_mask":
        return im.crop_to_true_mask(boundary=op["boundary"], **ckw)
    if n in WARPS:
        t = class_transform(op) if n == "warp_class" else make_transform(op, d) if "matrix" in op else nonaffine_transform(op)
        if op.get("life") == "reused":
            t = reused_transform(t, d)
        mk = mode_kwargs(op["mode"])
        if case["cls"] == "bool":
            mk = {k: (bool(v) if k == "cval" else v) for k, v in mk.items()}
        else:
            mk["order"] = o
        if op.get("batch"):
            mk["batch_size"] = op["batch"]
        if n in WMASK:
            tm = BooleanImage(content_array(op["tmask"], tuple(op["shape"])) != 0)
            return im.warp_to_mask(tm, t, warp_landmarks=True, **dict(mk, **kw))
        return im.warp_to_shape(tuple(op["shape"]), t, warp_landmarks=True, **dict(mk, **kw))
    if n == "pyramid":
        return list(im.pyramid(n_levels=op["n_levels"], downscale=op["downscale"]))
    if n == "gaussian_pyramid":
        return list(im.gaussian_pyramid(n_levels=op["n_levels"], downscale=op["downscale"]))
    raise ValueError(n)


def python_snippet(case):
    if case["op"]["name"] in ("chain", "constrain_landmarks", "constrain_mask"):
        return ("import sys; sys.path[:0] = ['/verif', '/repo']\nfrom harness import c01, common\ncase = %s\n"
                "# re-run through the harness: ./check C01 --replay <this file>" % json.dumps(case))
    return ("import sys; sys.path[:0] = ['/verif', '/repo']\nfrom harness import c01\ncase = %s\nim = c01.build_image(case)\n"
            "print(c01.call_op(im, case))" % json.dumps(case))


# ------------------------------------------------------------------------------------ model request

def mode_tokens(mode):
    return "near" if mode[0] == "near" else "const " + fq(mode[1])


def op_model_tokens(case, extra):
    """tokens of the operation for the driver; `extra` carries quantities the harness had to compute with the same
    float operations as the code (scale factors derived from norms / diagonals)"""
    import numpy as np
    op = case["op"]
    n = op["name"]
    d = case["dim"]
    if n == "rescale":
        return "rescale %s %s" % (" ".join(fq(s) for s in op["scale"]), op["round"])
    if n == "rescale_to_diagonal":
        return "rescalediag %s %s %s" % (fq(op["diagonal"]), fq(extra["dg"]), op["round"])
    if n == "rescale_to_pointcloud":
        return "rescalepc %s %s %s" % (fq(extra["ns"]), fq(extra["nt"]), op["round"])
    if n == "rescale_landmarks_to_diagonal_range":
        return "rescalerange %s %s %s" % (fq(op["diagonal_range"]), fq(extra["rg"]), op["round"])
    if n == "resize":
        return "resize " + " ".join(str(x) for x in op["shape"])
    if n == "zoom":
        return "zoom " + fq(op["scale"])
    if n == "rotate":
        return "rotate %s %s %d %s %s" % (fq(F(op["cos"])), fq(F(op["sin"])), int(op["retain"]), mode_tokens(op["mode"]), op["round"])
    if n == "about":
        hm = extra["h_matrix"]
        return "about %s %d %s %s" % (" ".join(fq(x) for x in [hm[0][0], hm[0][1], hm[0][2], hm[1][0], hm[1][1], hm[1][2]]),
                                      int(op["retain"]), mode_tokens(op["mode"]), op["round"])
    if n == "mirror":
        return "mirror %d" % op["axis"]
    if n == "crop":
        return "crop %s %s %d" % (" ".join(fq(x) for x in op["min"]), " ".join(fq(x) for x in op["max"]), int(op["constrain"]))
    if n in ("crop_to_pointcloud", "crop_to_landmarks"):
        pts = op["points"] if "points" in op else case["groups"][op["group"]]
        return "croppts %d %s %s %d" % (len(pts), " ".join(fq(x) for p in pts for x in p), fq(op["boundary"]),
                                        1 if op["constrain"] in (True, None) else 0)
    if n in ("crop_to_pointcloud_proportion", "crop_to_landmarks_proportion"):
        pts = op["points"] if "points" in op else case["groups"][op["group"]]
        return "cropprop %d %s %s %d %d" % (len(pts), " ".join(fq(x) for p in pts for x in p), fq(op["proportion"]),
                                            int(op["minimum"]), 1 if op["constrain"] in (True, None) else 0)
    if n == "crop_to_true_mask":
        # the model computes the True indices from the mask content of the request
        return "cropmask %s 1" % fq(op["boundary"])
    if n in ("warp_to_shape", "warp_to_mask"):
        m, t = op["matrix"], op["translation"]
        if d == 2:
            T = "%s %s %s %s %s %s" % (fq(m[0][0]), fq(m[0][1]), fq(t[0]), fq(m[1][0]), fq(m[1][1]), fq(t[1]))
        else:
            T = " ".join(" ".join(fq(x) for x in m[r]) + " " + fq(t[r]) for r in range(3))
        if n == "warp_to_mask":
            return "warpmask %d %d %s %s %s" % (op["shape"][0], op["shape"][1], content_tokens(op["tmask"]), T, mode_tokens(op["mode"]))
        return "warp %s %s %s" % (" ".join(str(x) for x in op["shape"]), T, mode_tokens(op["mode"]))
    if n == "warp_class":
        hm = extra["h_matrix"]
        T = " ".join(fq(x) for x in [hm[0][0], hm[0][1], hm[0][2], hm[1][0], hm[1][1], hm[1][2]])
        return "warpc %s %d %d %s %s" % (extra["provider"], op["shape"][0], op["shape"][1], T, mode_tokens(op["mode"]))
    if n == "pyramid":
        return None
    raise ValueError(n)


def request_line(case, optok, lms, pix):
    d = case["dim"]
    parts = ["c%d" % d, case["cls"], " ".join(str(s) for s in case["shape"]), str(len(case["chans"]))]
    parts += [content_tokens(c) for c in case["chans"]]
    if case["cls"] == "masked":
        parts.append(content_tokens(case["mask"]))
    # pyramid: rescale's default order; spline orders are not modelled (their pixels are not compared)
    parts.append("o%d" % (1 if case["op"]["name"] == "pyramid" or case["order"] > 1 else case["order"]))
    parts.append(optok)
    parts.append("LM %d %s" % (len(lms), " ".join(fq(x) for p in lms for x in p)))
    parts.append("PIX %d %s" % (len(pix), " ".join(str(int(x)) for p in pix for x in p)))
    return " ".join(parts)


# ------------------------------------------------------------------------------------ the run

def dtype_tol(dtype, scale, resamplings=1):
    if dtype in INT_DTYPES:
        return 0.5 * resamplings + 1e-6
    if dtype == "float32":
        return 1e-4 * (1.0 + scale)
    return TOL * (1.0 + scale)


def all_points(case):
    out = []
    for g in sorted(case["groups"]):
        out += case["groups"][g]
    return out


def eff_order(case):
    n = case["op"]["name"]
    if case["cls"] == "bool" or n.startswith("crop") or n == "constrain_mask":
        return 0
    if n in ("rescale_to_diagonal", "gaussian_pyramid", "pyramid"):
        return 1
    return case["order"]


def op_mode(case):
    """boundary mode the operation samples the source with"""
    op = case["op"]
    n = op["name"]
    if n.startswith("crop"):
        return ["const", 0.0]
    if "mode" in op:
        return op["mode"]
    return ["near"]


def inside_src(q, shape, mode, exact=False):
    """per point: is the sampling point inside the source so that the boundary rule plays no role?
    constant mode: strictly inside by TIE (a point on the edge may fall outside by rounding) unless the operation's
    arithmetic is exact (integer translations, flips); nearest mode: up to 1e-9 (clamping is continuous)"""
    import numpy as np
    q = np.atleast_2d(q)
    top = np.array(shape, dtype=float) - 1.0
    if mode[0] == "near":
        return np.all((q >= -1e-9) & (q <= top + 1e-9), axis=1)
    if exact:
        return np.all((q >= 0) & (q <= top), axis=1)
    return np.all((q >= TIE) & (q <= top - TIE), axis=1)


def is_exact(case):
    n = case["op"]["name"]
    return n.startswith("crop") or n in ("mirror", "constrain_mask")


def near_tie(q):
    """order 0: is some coordinate within TIE of a rounding tie k + 1/2"""
    import numpy as np
    fr = np.abs((np.asarray(q, dtype=float) + 0.5) - np.round(np.asarray(q, dtype=float) + 0.5))
    return np.any(fr < TIE, axis=-1)


def pick_pixels(rng, shape, k):
    import itertools
    d = len(shape)
    corners = [list(c) for c in itertools.product(*[(0, s - 1) for s in shape])]
    pts = corners[:]
    for _ in range(k):
        pts.append([rng.randint(0, s - 1) for s in shape])
    # a few border pixels
    for _ in range(min(4, k)):
        p = [rng.randint(0, s - 1) for s in shape]
        ax = rng.randrange(d)
        p[ax] = rng.choice([0, shape[ax] - 1])
        pts.append(p)
    seen, out = set(), []
    for p in pts:
        if tuple(p) not in seen:
            seen.add(tuple(p))
            out.append(p)
    return out


class Run:
    def __init__(self, ctx, model=True):
        self.ctx = ctx
        self.model = model
        self.lines = []
        self.pending = {}

    # ---- oracle ------------------------------------------------------------------------------------
    def fail(self, case, clause, pattern, text):
        n = case["op"]["name"]
        self.ctx.fail("C01/%s.%s" % (n, clause), pattern, "%s on %s %s %s: %s" % (
            n, case["cls"], case["dtype"], "x".join(str(s) for s in case["shape"]), text),
            {"case": case.get("origin", case), "python": python_snippet(case.get("origin", case))})

    def oracle(self, case, src_pixels, src_mask, res, tr, lms_src, level=None, src_im=None):
        """the property on the real objects.  src_pixels / src_mask: copies taken before the call; src_im: the source
        image object (used as the sampler of the requested order for orders above 1: spline interpolation is
        library code, the property is that the result holds the source *sampled with that order* at the returned
        transform of each pixel, and at the original landmark under each returned landmark)."""
        import numpy as np
        from menpo.image import Image, MaskedImage, BooleanImage
        from menpo.shape import PointCloud
        ctx = self.ctx
        op = case["op"]
        n = op["name"]
        d = case["dim"]
        self.pix_checked = 0
        want_cls = {"img": Image, "masked": MaskedImage, "bool": BooleanImage}[case["cls"]]
        if (n in WMASK) and case["cls"] == "img":
            want_cls = MaskedImage
        if type(res) is not want_cls:
            self.fail(case, "class", "wrong-class", "result is a %s, expected %s" % (type(res).__name__, want_cls.__name__))
        # O5 landmark groups are kept
        for g in case["groups"]:
            if not res.has_landmarks or g not in res.landmarks:
                self.fail(case, "landmarks", "group-dropped", "landmark group %r is missing from the result" % g)
                return 0
            want_t = type(make_shape(case.get("lmtype", {}).get(g, "PointCloud"), np.array(case["groups"][g], dtype=float)))
            if type(res.landmarks[g]) is not want_t:
                self.fail(case, "landmarks", "group-type", "landmark group %r came back as %s, it was a %s" % (
                    g, type(res.landmarks[g]).__name__, want_t.__name__))
                return 0
            if res.landmarks[g].points.shape != (len(case["groups"][g]), d):
                self.fail(case, "landmarks", "group-size", "landmark group %r has shape %r" % (g, res.landmarks[g].points.shape))
                return 0
        L = np.array(lms_src, dtype=float)
        L2 = np.vstack([res.landmarks[g].points for g in sorted(case["groups"])])
        shape = tuple(case["shape"])
        rshape = tuple(res.shape)
        mode = op_mode(case)
        eo = eff_order(case)
        scale = float(max(np.abs(L).max(), max(shape), max(rshape)))
        checked = 0
        nonaff = n[:3] in ("pwa", "tps")
        # O1 the returned transform maps the returned landmarks onto the originals
        if tr is not None:
            try:
                back = tr.apply(L2)
            except Exception as e:
                self.fail(case, "transform", "apply-raises", "returned transform cannot map the returned landmarks: %s" % type(e).__name__)
                return 0
            tol1 = (1e-6 if n[:3] == "tps" else TOL) * (1 + scale)
            err = float(np.abs(back - L).max())
            if not err <= tol1:
                k = int(np.argmax(np.abs(back - L).max(axis=1)))
                self.fail(case, "landmarks", "transform(landmarks')!=landmarks",
                          "landmark %r was moved to %r but the returned transform maps that to %r (error %.3g)" % (
                              L[k].tolist(), L2[k].tolist(), back[k].tolist(), err))
                return 0
        aff = [c for c, s in enumerate(case["chans"]) if s[0] == "aff"] if case["cls"] != "bool" else []
        rpix = res.pixels.astype(float)
        # warp_to_mask samples only the True pixels of the template (the others stay blank, as documented)
        tmask = content_array(op["tmask"], tuple(op["shape"])) != 0 if n in WMASK else None
        # O2 registration at the landmarks
        spl_at_L = None
        for k in range(len(L)):
            lp, l = L2[k], L[k]
            if np.any(lp < -1e-9) or np.any(lp > np.array(rshape) - 1 + 1e-9):
                continue
            if tr is None:
                # pyramid levels come without a transform: keep clear of the clamped far border (and, for the
                # gaussian pyramid, of the blur's border zone on both sides)
                lo_m, hi_m = (5.0, 6.0) if n == "gaussian_pyramid" else (0.0, 4.0)
                # F2 (audit): the mask of a pyramid level is carried with the landmarks - judged at every landmark that is
                # clearly on one side of a straight mask edge (margin: the rounding of both nearest-neighbour reads)
                if case["cls"] == "masked" and case["mask"][0] in ("half", "const") and src_mask is not None \
                        and np.all(l >= 0) and np.all(l <= np.array(shape) - 1.0):
                    clear = True
                    if case["mask"][0] == "half":
                        co = np.array(case["mask"][1:1 + d], dtype=float)
                        dist = abs(float(co.dot(l)) + float(case["mask"][-1])) / float(np.sqrt(co.dot(co)))
                        clear = dist > 1.5 + 1.5 * float(op["downscale"]) ** (level or 1)
                    if clear:
                        pm = tuple(np.clip(np.floor(lp + 0.5).astype(int), 0, np.array(rshape) - 1))
                        sm = tuple(np.clip(np.floor(l + 0.5).astype(int), 0, np.array(shape) - 1))
                        gm, wm = bool(res.mask.pixels[(0,) + pm]), bool(src_mask[sm])
                        ctx.count("pyramid-mask-at-landmark-checked")
                        if gm != wm:
                            self.fail(case, "mask", "mask(landmark')!=mask(landmark)",
                                      "level %s: mask at the returned landmark %r is %r, at the original landmark %r (%.1f px "
                                      "from the mask edge) it is %r" % (level, lp.tolist(), gm, l.tolist(),
                                                                        dist if case["mask"][0] == "half" else -1.0, wm))
                            return checked
                if np.any(lp < lo_m) or np.any(lp > np.array(rshape) - hi_m):
                    ctx.count("landmarks-skipped-border")
                    continue
            lp = np.clip(lp, 0, np.array(rshape) - 1.0)
            on_grid = bool(np.all(np.abs(lp - np.round(lp)) < 1e-9))
            if (n.startswith("crop") or n == "mirror") and src_im is not None and case["cls"] != "bool" \
                    and np.all(l >= 0) and np.all(l <= np.array(shape) - 1.0):
                # exact re-framings: arbitrary content, sub-pixel landmarks (crop_family_exact_registration,
                # mirror_exact_registration_linear): the result read bilinearly at the returned landmark is the source
                # read bilinearly at the original landmark, on every channel
                gotx = res.sample(PointCloud(lp[None, :]), order=1, mode="nearest")[:, 0].astype(float)
                wantx = self.sample_src(src_im, l[None, :], 1, ["near"])[:, 0].astype(float)
                if not np.all(np.abs(gotx - wantx) <= dtype_tol(case["dtype"], float(np.abs(wantx).max()), 2)):
                    self.fail(case, "pixels", "sample(landmark')!=original.sample(landmark)",
                              "the result sampled at the returned landmark %r gives %r, the source sampled at the original "
                              "landmark %r gives %r" % (lp.tolist(), gotx.tolist(), l.tolist(), wantx.tolist()))
                    return checked
                if not ((eo == 1 and aff) or on_grid):
                    checked += 1          # (otherwise counted by the clause below, which also looks at the mask)
            if eo == 1 and aff:
                if tr is not None:
                    i0 = np.floor(lp + 1e-12).astype(int)
                    fr = lp - i0
                    axes = [[i0[a]] if fr[a] < 1e-12 else [i0[a], i0[a] + 1] for a in range(d)]
                    import itertools
                    corners = np.array(list(itertools.product(*axes)), dtype=float)
                    if np.any(corners > np.array(rshape) - 1):
                        continue
                    if tmask is not None and not all(tmask[tuple(int(x) for x in c)] for c in corners):
                        continue
                    csrc = tr.apply(corners)
                    if not np.all(inside_src(csrc, shape, mode, is_exact(case))):
                        # a corner of the landmark's cell is sampled outside the source (e.g. the last row / column of a
                        # rescale whose scale * length is not an integer): outside what is proved, not judged - counted
                        ctx.count("landmarks-skipped-border")
                        continue
                    # multilinear interpolation of the transform over the cell: how non-affine it is there
                    wts = np.ones(len(corners))
                    for a in range(d):
                        wts = wts * np.where(corners[:, a] == i0[a], 1 - fr[a], fr[a])
                    # the transform interpolated bilinearly over the cell (interpT of the model): the result read at
                    # the returned landmark is *exactly* the content there (warpF_registration_exact2), and it differs
                    # from the content at the original landmark by at most sum_k |slope_k| |interp_k - l_k|
                    # (warpF_registration_bound2) - for an affine transform that is zero
                    interp = wts.dot(csrc)
                    dev = np.abs(interp - l)
                    nonlin = float(dev.max())
                    if nonaff and nonlin > 0.25:
                        continue
                    if not nonaff and nonlin > 1e-9 * (1 + scale):
                        # an affine transform is its own interpolation: this is O1 again, seen from the pixels
                        self.fail(case, "landmarks", "transform(landmarks')!=landmarks",
                                  "the returned transform, interpolated over the cell of the returned landmark %r, gives %r "
                                  "instead of the original landmark %r" % (lp.tolist(), interp.tolist(), l.tolist()))
                        return checked
                else:
                    interp, dev = None, np.zeros(d)
                got = res.sample(PointCloud(lp[None, :]), order=1, mode="nearest")[:, 0].astype(float)
                for c in aff:
                    spec = case["chans"][c]
                    want = float(aff_eval(spec, l[None, :])[0])
                    slopes = np.array([abs(float(x)) for x in spec[2:]])
                    tol = dtype_tol(case["dtype"], abs(want), 2 * (level or 1)) + float(slopes.dot(dev))
                    if n == "gaussian_pyramid":
                        tol += 1e-7
                    if interp is not None:
                        exact = float(aff_eval(spec, interp[None, :])[0])
                        if not abs(got[c] - exact) <= dtype_tol(case["dtype"], abs(exact), 2 * (level or 1)):
                            self.fail(case, "pixels", "sample(landmark')!=original(interpolated-transform(landmark'))",
                                      "channel %d (= %s) sampled at the returned landmark %r gives %.9g; the returned transform "
                                      "interpolated over that cell is %r where the original holds %.9g" % (
                                          c, spec, lp.tolist(), got[c], interp.tolist(), exact))
                            return checked
                    if not abs(got[c] - want) <= tol:
                        self.fail(case, "pixels", "sample(landmark')!=original(landmark)",
                                  "%schannel %d (= %s) sampled at the returned landmark %r gives %.9g, the original image has %.9g "
                                  "at the original landmark %r" % ("level %d: " % level if level else "", c, spec, lp.tolist(),
                                                                   got[c], want, l.tolist()))
                        return checked
                checked += 1
            elif eo >= 2 and on_grid and tr is not None and src_im is not None:
                # any order: the pixel under a returned landmark on the grid is the source sampled with that order
                # at the original landmark (exec_registration_grid_any_order)
                p = np.round(lp).astype(int)
                if tmask is not None and not tmask[tuple(p)]:
                    continue
                if not inside_src(l, shape, mode, is_exact(case))[0]:
                    continue
                if spl_at_L is None:
                    spl_at_L = self.sample_src(src_im, L, eo, mode).astype(float)     # one prefilter for all landmarks
                want = spl_at_L[:, k]
                got = rpix[(slice(None),) + tuple(p)]
                if not np.all(np.abs(got - want) <= dtype_tol(case["dtype"], float(np.abs(want).max()), 2)):
                    self.fail(case, "pixels", "pixel(landmark')!=original.sample(landmark,order)",
                              "order %d: result pixel %r under the returned landmark holds %r, the source sampled with the same "
                              "order at the original landmark %r gives %r" % (eo, p.tolist(), got.tolist(), l.tolist(), want.tolist()))
                    return checked
                checked += 1
            elif eo == 0 and on_grid and tr is not None:
                p = np.round(lp).astype(int)
                if tmask is not None and not tmask[tuple(p)]:
                    continue
                q = tr.apply(p[None, :].astype(float))[0]
                if not inside_src(q, shape, mode, is_exact(case))[0] or near_tie(q):
                    continue
                idx = tuple(np.floor(q + 0.5).astype(int))
                got = rpix[(slice(None),) + tuple(p)]
                want = src_pixels[(slice(None),) + idx]
                if not np.array_equal(got, want):
                    self.fail(case, "pixels", "pixel(landmark')!=original(nearest(landmark))",
                              "result pixel %r under the returned landmark holds %r, the source pixel %r nearest to the "
                              "original landmark %r holds %r" % (p.tolist(), got.tolist(), [int(x) for x in idx], l.tolist(), want.tolist()))
                    return checked
                if case["cls"] == "masked" and not (n in WMASK):
                    gm, wm = bool(res.mask.pixels[(0,) + tuple(p)]), bool(src_mask[idx])
                    if gm != wm:
                        self.fail(case, "mask", "mask(landmark')!=mask(landmark)",
                                  "mask at the returned landmark %r is %r, at the original landmark %r it is %r" % (
                                      p.tolist(), gm, l.tolist(), wm))
                        return checked
                checked += 1
        # O3 / O4 result pixels and mask against the returned transform
        self.pix_checked = 0
        if tr is not None:
            pix = np.array(pick_pixels(ctx.rng, rshape, 12), dtype=int)
            q = tr.apply(pix.astype(float))
            ins = inside_src(q, shape, mode, is_exact(case))
            tie = near_tie(q)
            spl_at_q = None
            if (n in WMASK):
                if case["cls"] != "bool":
                    if not np.array_equal(res.mask.pixels[0], tmask):
                        # menpo attaches the TEMPLATE as the mask of a warp_to_mask result (the source mask is dropped); the
                        # property text does not say which mask such a result carries, so this is an observation about
                        # the modelled behaviour (Core imageWarpToMask), not an oracle failure
                        self.mismatch(case, "mask", "warp_to_mask result does not carry the template mask as its mask")
            for k in range(len(pix)):
                p = tuple(pix[k])
                if not ins[k] or (tmask is not None and not tmask[p]):
                    continue
                got = rpix[(slice(None),) + p]
                idx = tuple(np.floor(q[k] + 0.5).astype(int))
                if eo == 1:
                    for c in aff:
                        spec = case["chans"][c]
                        want = float(aff_eval(spec, q[k][None, :])[0])
                        if not abs(got[c] - want) <= dtype_tol(case["dtype"], abs(want)):
                            self.fail(case, "pixels", "pixel!=original(transform(index))",
                                      "channel %d (= %s) of result pixel %r is %.9g; the returned transform maps the pixel to %r "
                                      "where the original holds %.9g" % (c, spec, [int(x) for x in p], got[c], q[k].tolist(), want))
                            return checked
                elif eo >= 2:
                    if src_im is None:
                        continue
                    if spl_at_q is None:
                        spl_at_q = self.sample_src(src_im, q, eo, mode).astype(float)
                    want = spl_at_q[:, k]
                    # integer dtypes: one level (the stored value is rounded; a value on a rounding tie may fall either
                    # way when the sampling point differs in the last bit)
                    if not np.all(np.abs(got - want) <= dtype_tol(case["dtype"], float(np.abs(want).max()), 2)):
                        self.fail(case, "pixels", "pixel!=original.sample(transform(index),order)",
                                  "order %d: result pixel %r holds %r; the returned transform maps it to %r where the source "
                                  "sampled with the same order gives %r" % (eo, [int(x) for x in p], got.tolist(), q[k].tolist(), want.tolist()))
                        return checked
                elif eo == 0 and not tie[k]:
                    want = src_pixels[(slice(None),) + idx]
                    if not np.array_equal(got, want):
                        self.fail(case, "pixels", "pixel!=original(nearest(transform(index)))",
                                  "result pixel %r holds %r; the returned transform maps it to %r whose nearest source pixel %r "
                                  "holds %r" % ([int(x) for x in p], got.tolist(), q[k].tolist(), [int(x) for x in idx], want.tolist()))
                        return checked
                self.pix_checked += 1
                if case["cls"] == "masked" and tmask is None and not tie[k]:
                    gm, wm = bool(res.mask.pixels[(0,) + p]), bool(src_mask[idx])
                    if gm != wm:
                        self.fail(case, "mask", "mask!=mask(nearest(transform(index)))",
                                  "mask pixel %r of the result is %r; the returned transform maps it to %r where the original "
                                  "mask (pixel %r) is %r" % ([int(x) for x in p], gm, q[k].tolist(), [int(x) for x in idx], wm))
                        return checked
        return checked

    @staticmethod
    def sample_src(src_im, pts, order, mode):
        """the source sampled with the requested order and the boundary mode of the operation (Image.sample: the
        spline orders are library code)"""
        from menpo.image import Image
        kw = {"mode": "nearest"} if mode[0] == "near" else {"mode": "constant", "cval": mode[1]}
        return Image.sample(src_im, pts, order=order, **kw)

    def interpolating(self, case, im, order):
        """contract of the spline orders (checked numerically on every case that uses them): at a grid point the
        sampler returns that pixel"""
        import numpy as np
        import itertools
        shape = im.shape
        pts = np.array([[self.ctx.rng.randint(0, s - 1) for s in shape] for _ in range(4)], dtype=float)
        got = self.sample_src(im, pts, order, ["near"]).astype(float)
        want = np.stack([im.pixels[(slice(None),) + tuple(int(x) for x in q)] for q in pts], axis=1).astype(float)
        self.ctx.count("contract-checked")
        if not np.all(np.abs(got - want) <= dtype_tol(case["dtype"], float(np.abs(want).max()))):
            self.mismatch(case, "contract", "order %d sampling at grid points %r gives %r, the pixels are %r" % (
                order, pts.tolist(), got.tolist(), want.tolist()))

    # ---- one case ----------------------------------------------------------------------------------
    def contract(self, case, query, value, what):
        """a contract parameter (a square root the code takes): its square is compared with the exact quantity the
        model computes from the same inputs"""
        cid = "q%d" % len(self.lines)
        self.lines.append(cid + " k2 " + query)
        self.pending[cid] = (case, None, {"contract": what, "value": value})

    def do_case(self, case):
        import numpy as np
        from menpo.shape import PointCloud
        ctx = self.ctx
        op = case["op"]
        n = op["name"]
        d = case["dim"]
        try:
            im = build_image(case)
        except Exception as e:          # harness error, not a verdict
            raise common.Infra("cannot build the test image: %r %r" % (e, case))
        if n == "chain":
            return self.do_chain(case, im)
        if n == "constrain_landmarks":
            return self.do_constrain(case, im)
        if n == "constrain_mask":
            return self.do_constrain_mask(case, im)
        src_pixels = im.pixels.astype(float).copy()
        src_mask = im.mask.pixels[0].copy() if case["cls"] == "masked" else None
        lms = all_points(case)
        ctx.count("op:" + n)
        ctx.count("class:%s/%s" % (case["cls"], case["dtype"]))
        ctx.count("dim:%d" % d)
        ctx.count("order:%d" % eff_order(case))
        try:
            out = call_op(im, case)
        except Exception as e:
            ctx.case(("raises", n, json.dumps(case, sort_keys=True)), nontrivial=True)
            self.fail(case, "raises", type(e).__name__, "the call raised %s: %s" % (type(e).__name__, str(e)[:200]))
            return
        if n in ("pyramid", "gaussian_pyramid"):
            return self.do_pyramid(case, im, src_pixels, src_mask, out, lms)
        if not (isinstance(out, tuple) and len(out) == 2):
            ctx.case(("noreturn", n), nontrivial=True)
            self.fail(case, "transform", "not-returned", "return_transform=True did not return (image, transform)")
            return
        res, tr = out
        nfail = len(ctx.failures) + len(ctx.known_seen)
        checked = self.oracle(case, src_pixels, src_mask, res, tr, lms, src_im=im)
        if eff_order(case) >= 2 and self.model:
            self.interpolating(case, im, eff_order(case))
            self.interpolating(case, res, eff_order(case))
        if len(ctx.failures) + len(ctx.known_seen) != nfail:
            # the oracle already decided this case on the real code; nothing to compare with the model
            ctx.case((n, json.dumps(case, sort_keys=True)), nontrivial=True)
            return
        if ctx.rng.random() < 0.08:
            # the same call without return_transform on a rebuilt image: the very same image must come back
            try:
                res2 = call_op(build_image(case), case, return_transform=False)
            except Exception as e:
                res2 = e
            same = (not isinstance(res2, (tuple, Exception)) and type(res2) is type(res)
                    and np.array_equal(res2.pixels, res.pixels, equal_nan=True)
                    and all(g in res2.landmarks and np.array_equal(res2.landmarks[g].points, res.landmarks[g].points)
                            for g in case["groups"])
                    and (case["cls"] != "masked" or np.array_equal(res2.mask.pixels, res.mask.pixels)))
            ctx.count("twin-call-without-return_transform")
            if not same:
                self.fail(case, "transform", "return_transform-changes-result",
                          "the call without return_transform does not give the image the call with return_transform=True gave"
                          " (%s)" % (type(res2).__name__,))
                ctx.case((n, json.dumps(case, sort_keys=True)), nontrivial=True)
                return
        ident = False
        try:
            probe = np.array([[1.0] * d, [2.0, 3.0, 5.0][:d]])
            ident = bool(np.allclose(tr.apply(probe), probe)) and tuple(res.shape) == tuple(case["shape"])
        except Exception:
            pass
        ctx.case((n, json.dumps(case, sort_keys=True)), nontrivial=(not ident) and (checked > 0 or self.pix_checked > 0),
                 sample={"op": op, "class": case["cls"], "dtype": case["dtype"], "shape": case["shape"],
                         "landmarks_checked": checked, "pixels_checked_against_returned_transform": self.pix_checked})
        ctx.count("pixels-checked-against-transform", self.pix_checked)
        ctx.count("landmarks-registered", checked)
        if not self.model:
            return
        # ---- model request
        extra = {}
        if n == "rescale_to_diagonal":
            # contract parameter: the square root the code takes; checked against the exact h² + w² of the model
            extra["dg"] = float(im.diagonal())
            self.contract(case, "diag %d %d" % tuple(case["shape"]), extra["dg"], "Image.diagonal()")
        elif n == "rescale_to_pointcloud":
            a, b = case["groups"][op["group"]], op["target"]
            extra["ns"] = float(PointCloud(np.array(a, dtype=float)).norm())
            extra["nt"] = float(PointCloud(np.array(b, dtype=float)).norm())
            self.contract(case, "ss %d %s" % (len(a), " ".join(fq(x) for q in a for x in q)), extra["ns"], "PointCloud.norm() of the group")
            self.contract(case, "ss %d %s" % (len(b), " ".join(fq(x) for q in b for x in q)), extra["nt"], "PointCloud.norm() of the target")
        elif n == "rescale_landmarks_to_diagonal_range":
            a = np.array(case["groups"][op["group"]], dtype=float)
            rx, ry = PointCloud(a).range()
            extra["rg"] = float(np.sqrt(rx ** 2 + ry ** 2))
            self.contract(case, "range %d %s" % (len(a), " ".join(fq(x) for q in a.tolist() for x in q)), extra["rg"], "sqrt of the squared range")
        elif n == "about":
            extra["h_matrix"] = about_transform(op).h_matrix.tolist()
        elif n == "warp_class":
            extra["h_matrix"] = np.asarray(tr.h_matrix).tolist()
            extra["provider"] = extract_c01.provider_of(tr)
            ctx.count("transform-class:" + op["tclass"])
        pix = pick_pixels(ctx.rng, tuple(res.shape), 10 if d == 2 else 6)
        if n[:3] in ("pwa", "tps"):
            return self.ask_nonaffine(case, res, tr, pix)
        line = request_line(case, op_model_tokens(case, extra), lms, pix)
        cid = "q%d" % len(self.lines)
        self.lines.append(cid + " " + line)
        obs = {"shape": list(res.shape), "T": None, "lms": np.vstack([res.landmarks[g].points for g in sorted(case["groups"])]).tolist(),
               "pix": [res.pixels[(slice(None),) + tuple(p)].astype(float).tolist() for p in pix],
               "mpix": [bool(res.mask.pixels[(0,) + tuple(p)]) for p in pix] if case["cls"] == "masked" else None}
        if hasattr(tr, "h_matrix"):
            obs["T"] = np.asarray(tr.h_matrix)[:d, :].tolist()
        self.pending[cid] = (case, pix, obs)

    def do_constrain(self, case, im):
        """Image.constrain_landmarks_to_bounds(): landmarks inside keep their place (pixels and mask are not touched,
        so their registration is unchanged), landmarks outside are brought to the border"""
        import numpy as np
        import warnings
        ctx = self.ctx
        n = "constrain_landmarks"
        ctx.count("op:" + n)
        before_px = im.pixels.copy()
        before_mask = im.mask.pixels.copy() if case["cls"] == "masked" else None
        L = np.array(all_points(case), dtype=float)
        try:
            with warnings.catch_warnings():
                warnings.simplefilter("ignore")
                im.constrain_landmarks_to_bounds()
        except Exception as e:
            ctx.case(("raises", n, json.dumps(case, sort_keys=True)), nontrivial=True)
            self.fail(case, "raises", type(e).__name__, "the call raised %s: %s" % (type(e).__name__, str(e)[:200]))
            return
        L2 = np.vstack([im.landmarks[g].points for g in sorted(case["groups"])])
        top = np.array(case["shape"], dtype=float) - 1
        inside = np.all((L >= 0) & (L <= top), axis=1)
        ok = True
        if not np.array_equal(L2[inside], L[inside]):
            ok = False
            self.fail(case, "landmarks", "inside-landmark-moved", "a landmark inside the image was moved: %r -> %r" % (
                L[inside].tolist(), L2[inside].tolist()))
        elif np.any(L2 < 0) or np.any(L2 > top):
            ok = False
            self.fail(case, "landmarks", "still-outside", "landmarks %r are outside the image after the call" % L2.tolist())
        elif not np.array_equal(im.pixels, before_px) or (before_mask is not None and not np.array_equal(im.mask.pixels, before_mask)):
            ok = False
            self.fail(case, "pixels", "pixels-changed", "constrain_landmarks_to_bounds changed pixels or mask")
        ctx.case((n, json.dumps(case, sort_keys=True)), nontrivial=bool(np.any(~inside)),
                 sample={"op": case["op"], "shape": case["shape"], "landmarks_outside": int(np.sum(~inside))})
        if not ok or not self.model:
            return
        line = request_line(case, "constrainlm", all_points(case), [])
        cid = "q%d" % len(self.lines)
        self.lines.append(cid + " " + line)
        self.pending[cid] = (case, [], {"shape": list(case["shape"]), "T": None, "lms": L2.tolist(), "pix": [], "mpix": None})

    def do_constrain_mask(self, case, im):
        """MaskedImage.constrain_mask_to_landmarks(group) / BooleanImage.constrain_to_landmarks(group): nothing is resampled
        or re-framed - pixels, shape, class and every landmark group stay (the result is registered through the identity);
        the new mask is False outside the integer bounding box of the group and inside it says whether the pixel lies in
        the triangulation of the group (= its convex hull; pixels within TIE of the hull boundary are not judged)"""
        import numpy as np
        ctx = self.ctx
        n = "constrain_mask"
        op = case["op"]
        ctx.count("op:" + n)
        ctx.count("class:%s/%s" % (case["cls"], case["dtype"]))
        shape = tuple(case["shape"])
        before_px = im.pixels.copy()
        before_mask = im.mask.pixels.copy() if case["cls"] == "masked" else None
        before_lms = {g: np.array(case["groups"][g], dtype=float) for g in case["groups"]}
        kw = {} if op["batch"] is None else {"batch_size": op["batch"]}
        try:
            if case["cls"] == "masked":
                res = im.constrain_mask_to_landmarks(group="g0", point_in_pointcloud=op["test"], **kw)
                new_mask = res.mask.pixels[0]
            else:
                res = im.constrain_to_landmarks(group="g0", **kw)
                new_mask = res.pixels[0]
        except Exception as e:
            ctx.case(("raises", n, json.dumps(case, sort_keys=True)), nontrivial=True)
            self.fail(case, "raises", type(e).__name__, "the call raised %s: %s" % (type(e).__name__, str(e)[:200]))
            return
        ok = True

        def bad(clause, pattern, text):
            nonlocal ok
            if ok:
                ok = False
                self.fail(case, clause, pattern, text)
        # O5: class, shape, groups
        if type(res).__name__ != type(im).__name__ or tuple(res.shape) != shape:
            bad("class", "class-or-shape-changed", "result %s %r from %s %r" % (type(res).__name__, res.shape, type(im).__name__, shape))
        if sorted(res.landmarks.group_labels) != sorted(case["groups"]):
            bad("landmarks", "groups-lost", "groups %r -> %r" % (sorted(case["groups"]), sorted(res.landmarks.group_labels)))
        # registered through the identity: landmarks and pixels untouched (in the result and in the source)
        for g in case["groups"]:
            if ok and not np.array_equal(res.landmarks[g].points, before_lms[g]):
                bad("landmarks", "landmarks-moved", "group %s moved: %r -> %r" % (g, before_lms[g].tolist(), res.landmarks[g].points.tolist()))
            if ok and not np.array_equal(im.landmarks[g].points, before_lms[g]):
                bad("landmarks", "source-landmarks-moved", "the source's group %s was changed" % g)
        if case["cls"] == "masked":
            if ok and not np.array_equal(res.pixels, before_px):
                bad("pixels", "pixels-changed", "constrain_mask_to_landmarks changed the pixels")
            if ok and (not np.array_equal(im.pixels, before_px) or not np.array_equal(im.mask.pixels, before_mask)):
                bad("pixels", "source-changed", "constrain_mask_to_landmarks changed its source")
        elif ok and not np.array_equal(im.pixels, before_px):
            bad("pixels", "source-changed", "constrain_to_landmarks changed its source")
        # the new mask against the convex hull of the group (exact arithmetic)
        pts = case["groups"]["g0"]
        lo = [int(min(p[k] for p in pts)) for k in range(2)]
        hi = [int(max(p[k] for p in pts)) for k in range(2)]
        judged = 0
        bits = {}
        hull = convex_hull(pts)
        for i in range(shape[0]):
            for j in range(shape[1]):
                inbox = lo[0] <= i <= hi[0] and lo[1] <= j <= hi[1]
                side = hull_side(hull, (i, j))
                if side == 0:
                    continue                                      # on the boundary: either answer is accepted
                want = inbox and side > 0
                bits[(i, j)] = side > 0
                judged += 1
                if ok and bool(new_mask[i, j]) != want:
                    bad("mask", "mask-not-containment", "pixel %r: new mask %r, in the bounding box %r, inside the hull of the "
                        "group %r" % ([i, j], bool(new_mask[i, j]), inbox, side > 0))
        ctx.case((n, json.dumps(case, sort_keys=True)), nontrivial=judged > 0 and bool(new_mask.any()),
                 sample={"op": op, "cls": case["cls"], "shape": list(shape), "n_landmarks": len(pts), "judged_pixels": judged})
        if not ok or not self.model:
            return
        cand = [p for p in pick_pixels(ctx.rng, shape, 10) if tuple(p) in bits]
        inner = [list(p) for p in bits if bits[p] and lo[0] <= p[0] <= hi[0] and lo[1] <= p[1] <= hi[1]]
        ctx.rng.shuffle(inner)
        pix, seen = [], set()
        for p in cand + inner[:6]:
            if tuple(p) not in seen:
                seen.add(tuple(p))
                pix.append(p)
        optok = "constrainmask %d %s" % (len(pix), " ".join("1" if bits[tuple(p)] else "0" for p in pix))
        lms = all_points(case)
        line = request_line(case, optok, lms, pix)
        cid = "q%d" % len(self.lines)
        self.lines.append(cid + " " + line)
        if case["cls"] == "masked":
            obs_pix = [[float(res.pixels[c][tuple(p)]) for c in range(res.n_channels)] for p in pix]
            mpix = [bool(new_mask[tuple(p)]) for p in pix]
        else:
            obs_pix = [[float(new_mask[tuple(p)])] for p in pix]
            mpix = None
        L2 = np.vstack([res.landmarks[g].points for g in sorted(case["groups"])])
        self.pending[cid] = (case, pix, {"shape": list(shape), "T": None, "lms": L2.tolist(), "pix": obs_pix, "mpix": mpix})

    def do_chain(self, case, im):
        """a sequence of operations: every step is decided by the oracle against the image it was applied to (whose
        content is known: an exact re-framing of the first image), the composition of the returned transforms must
        map the final landmarks onto the first ones, and the model runs the whole sequence on the first image"""
        import numpy as np
        ctx = self.ctx
        op = case["op"]
        steps = list(op["pre"]) + [op["last"]]
        ctx.count("op:chain")
        ctx.count("class:%s/%s" % (case["cls"], case["dtype"]))
        ctx.count("dim:2")
        specs = [list(c) if c[0] == "aff" else ["raw"] for c in case["chans"]]
        cur, trs, toks = im, [], []
        L0 = np.array(all_points(case), dtype=float)
        checked_total = 0
        nfail = len(ctx.failures) + len(ctx.known_seen)
        sub = None
        for k, st in enumerate(steps):
            last = k == len(steps) - 1
            sub = dict(case, op=st, shape=list(cur.shape), chans=[list(c) for c in specs], origin=case,
                       groups={g: cur.landmarks[g].points.tolist() for g in sorted(case["groups"])})
            ctx.count("chain-step:" + st["name"])
            src_pixels = cur.pixels.astype(float).copy()
            src_mask = cur.mask.pixels[0].copy() if case["cls"] == "masked" else None
            try:
                out = call_op(cur, sub)
            except Exception as e:
                ctx.case(("raises", "chain", json.dumps(case, sort_keys=True)), nontrivial=True)
                self.fail(sub, "raises", type(e).__name__, "step %d of a sequence raised %s: %s" % (k, type(e).__name__, str(e)[:200]))
                return
            res, tr = out
            checked_total += self.oracle(sub, src_pixels, src_mask, res, tr, all_points(sub), src_im=cur)
            if len(ctx.failures) + len(ctx.known_seen) != nfail:
                ctx.case(("chain", json.dumps(case, sort_keys=True)), nontrivial=True)
                return
            extra = {"h_matrix": about_transform(st).h_matrix.tolist()} if st["name"] == "about" else {}
            toks.append(op_model_tokens(sub, extra))
            trs.append(tr)
            if not last:
                # the content of the result, exactly: crop shifts, mirror flips
                if st["name"] == "crop":
                    off = np.asarray(tr.h_matrix)[:2, 2]
                    for c in specs:
                        if c[0] == "aff":
                            c[1] = float(c[1]) + float(c[2]) * float(off[0]) + float(c[3]) * float(off[1])
                else:
                    ax = st["axis"]
                    for c in specs:
                        if c[0] == "aff":
                            c[1] = float(c[1]) + float(c[2 + ax]) * (cur.shape[ax] - 1)
                            c[2 + ax] = -float(c[2 + ax])
                prev, cur = cur, res
        # the composition of the returned transforms maps the final landmarks onto the first ones
        Lf = np.vstack([res.landmarks[g].points for g in sorted(case["groups"])])
        back = Lf
        for t in reversed(trs):
            back = t.apply(back)
        sc = float(max(np.abs(L0).max(), max(case["shape"]), 1.0))
        if not np.abs(back - L0).max() <= TOL * (1 + sc) * len(trs):
            self.fail(sub, "landmarks", "composed-transforms(landmarks')!=landmarks",
                      "after %s the landmarks %r are mapped by the composition of the returned transforms to %r, they were %r" % (
                          "+".join(s_["name"] for s_ in steps), Lf.tolist(), back.tolist(), L0.tolist()))
            ctx.case(("chain", json.dumps(case, sort_keys=True)), nontrivial=True)
            return
        ctx.case(("chain", json.dumps(case, sort_keys=True)), nontrivial=checked_total > 0 or self.pix_checked > 0,
                 sample={"op": op, "class": case["cls"], "dtype": case["dtype"], "shape": case["shape"],
                         "landmarks_checked": checked_total})
        ctx.count("landmarks-registered", checked_total)
        if not self.model:
            return
        pix = pick_pixels(ctx.rng, tuple(res.shape), 8)
        line = request_line(case, "chain %d %s" % (len(toks), " ".join(toks)), all_points(case), pix)
        cid = "q%d" % len(self.lines)
        self.lines.append(cid + " " + line)
        H = np.eye(3)
        for t in trs:
            H = H.dot(np.asarray(t.h_matrix))
        obs = {"shape": list(res.shape), "T": H[:2, :].tolist(), "lms": Lf.tolist(),
               "pix": [res.pixels[(slice(None),) + tuple(q)].astype(float).tolist() for q in pix],
               "mpix": [bool(res.mask.pixels[(0,) + tuple(q)]) for q in pix] if case["cls"] == "masked" else None}
        self.pending[cid] = (sub, pix, obs)

    def ask_nonaffine(self, case, res, tr, pix):
        """non-affine warps: the model is asked what the funnel stores at the points the transform object produced"""
        import numpy as np
        op = case["op"]
        pts = tr.apply(np.array(pix, dtype=float))
        o = 0 if case["cls"] == "bool" else case["order"]
        if o > 1:
            return
        mode = op["mode"]
        if case["cls"] == "bool" and mode[0] == "const":
            mode = ["const", 1.0 if bool(mode[1]) else 0.0]
        parts = ["s2", "%d %d" % tuple(case["shape"]), str(len(case["chans"]))] + [content_tokens(c) for c in case["chans"]]
        parts += ["o%d" % o, mode_tokens(mode), "PTS %d %s" % (len(pix), " ".join(fq(x) for p in pts for x in p))]
        cid = "q%d" % len(self.lines)
        self.lines.append(cid + " " + " ".join(parts))
        tmask = content_array(op["tmask"], tuple(op["shape"])) != 0 if op["how"] == "mask" else None
        obs = {"pix": [res.pixels[(slice(None),) + tuple(p)].astype(float).tolist() for p in pix], "pts": pts.tolist(),
               "keep": [bool(tmask[tuple(p)]) if tmask is not None else True for p in pix]}
        self.pending[cid] = (case, pix, obs)
        if o != 1:
            return
        # registration at the returned landmarks under the non-affine transform: the model warps the content with the
        # transform tabulated on the cell of the landmark and reads the result back at the landmark (warpF2 + sample),
        # and answers the interpolated transform (interpT)
        import itertools
        from menpo.shape import PointCloud
        rshape = tuple(res.shape)
        L2 = np.vstack([res.landmarks[g].points for g in sorted(case["groups"])])
        asked = 0
        for lp in L2:
            if asked >= 3 or np.any(lp < 0) or np.any(lp > np.array(rshape) - 1):
                continue
            i0 = np.floor(lp + 1e-12).astype(int)
            fr = lp - i0
            if np.any((fr > 1e-12) & (fr < 1e-6)) or np.any(fr > 1 - 1e-6):
                continue                        # within rounding of a grid line: the cell is not determined
            axes = [[i0[a]] if fr[a] <= 1e-12 else [i0[a], i0[a] + 1] for a in range(2)]
            corners = np.array(list(itertools.product(*axes)), dtype=float)
            if np.any(corners > np.array(rshape) - 1):
                continue
            if tmask is not None and not all(tmask[tuple(int(x) for x in c)] for c in corners):
                continue
            csrc = tr.apply(corners)
            if not np.all(inside_src(csrc, case["shape"], mode, False)):
                continue
            lpq = np.where(fr <= 1e-12, i0.astype(float), lp)
            cell = " ".join("%d %d %s %s" % (int(c[0]), int(c[1]), fq(float(v[0])), fq(float(v[1]))) for c, v in zip(corners, csrc))
            parts = ["w2", "%d %d" % tuple(case["shape"]), str(len(case["chans"]))] + [content_tokens(c) for c in case["chans"]]
            parts += [mode_tokens(mode), "%d %d" % rshape, fq(float(lpq[0])), fq(float(lpq[1])), "CELL %d %s" % (len(corners), cell)]
            cid = "q%d" % len(self.lines)
            self.lines.append(cid + " " + " ".join(parts))
            got = res.sample(PointCloud(lpq[None, :]), order=1, mode="nearest")[:, 0].astype(float).tolist()
            wts = np.ones(len(corners))
            for a in range(2):
                wts = wts * np.where(corners[:, a] == i0[a], 1 - (lpq[a] - i0[a]), lpq[a] - i0[a])
            self.pending[cid] = (case, None, {"w2": got, "interp": wts.dot(csrc).tolist(), "at": lpq.tolist()})
            asked += 1

    def do_pyramid(self, case, im, src_pixels, src_mask, levels, lms):
        import numpy as np
        ctx = self.ctx
        op = case["op"]
        n = op["name"]
        if len(levels) != op["n_levels"]:
            self.fail(case, "class", "level-count", "%d levels returned for n_levels=%d" % (len(levels), op["n_levels"]))
            return
        checked = 0
        nfail = len(ctx.failures) + len(ctx.known_seen)
        for lv, res in enumerate(levels):
            if lv == 0:
                continue
            checked += self.oracle(case, src_pixels, src_mask, res, None, lms, level=lv)
            if len(ctx.failures) + len(ctx.known_seen) != nfail:
                ctx.case((n, json.dumps(case, sort_keys=True)), nontrivial=True)
                return
        ctx.case((n, json.dumps(case, sort_keys=True)), nontrivial=checked > 0,
                 sample={"op": op, "class": case["cls"], "shape": case["shape"], "landmarks_checked": checked})
        ctx.count("landmarks-registered", checked)
        if not self.model:
            return
        wtok = None
        if n == "gaussian_pyramid":
            half = gaussian_half_weights(op["downscale"] / 3.0)
            ctx.count("contract-checked")
            if half is None:
                self.mismatch(case, "contract", "scipy's gaussian kernel for sigma=%r is not a symmetric kernel of total weight 1 "
                              "and radius int(4 sigma + 0.5)" % (op["downscale"] / 3.0))
                return
            wtok = "%d %s" % (len(half), " ".join(fq(x) for x in half))
        for lv, res in enumerate(levels):
            if lv == 0:
                continue
            if n == "pyramid":
                pix = pick_pixels(ctx.rng, tuple(res.shape), 4)
                optok = "pyr %d %s" % (lv, fq(op["downscale"]))
            else:
                # every pixel of a level reads (2r+1)^2 source pixels per level below it: a few pixels, incl. a corner
                # (the reflect rule of the blur) and the interior
                pix = pick_pixels(ctx.rng, tuple(res.shape), 2)[2:5] if lv == 1 else pick_pixels(ctx.rng, tuple(res.shape), 1)[4:5]
                self.gp_asked = getattr(self, "gp_asked", 0) + 1
                if self.gp_asked > 36:
                    pix = []                  # landmarks and shape of every case; pixels of the first 36 level queries
                if lv > 1 and len(case["chans"]) > 1:
                    # a level-2 pixel reads (4 (2r+1)^2)^2 source pixels: first channel only
                    case = dict(case, chans=case["chans"][:1])
                optok = "gpyr %d %s %s" % (lv, fq(op["downscale"]), wtok)
            line = request_line(case, optok, lms, pix)
            cid = "q%d" % len(self.lines)
            self.lines.append(cid + " " + line)
            obs = {"shape": list(res.shape), "T": None,
                   "lms": np.vstack([res.landmarks[g].points for g in sorted(case["groups"])]).tolist(),
                   "pix": [res.pixels[(slice(None),) + tuple(p)].astype(float).tolist()[:len(case["chans"])] for p in pix],
                   "mpix": [bool(res.mask.pixels[(0,) + tuple(p)]) for p in pix] if case["cls"] == "masked" else None,
                   "level": lv}
            self.pending[cid] = (case, pix, obs)

    # ---- model comparison --------------------------------------------------------------------------
    def settle(self):
        if not self.lines:
            return
        replies = common.run_driver(PROP, self.lines)
        for cid, (case, pix, obs) in self.pending.items():
            self.compare(case, pix, obs, replies[cid])

    def mismatch(self, case, what, text):
        self.ctx.mismatch(case["op"]["name"], "%s: %s" % (what, text),
                          {"case": case.get("origin", case), "python": python_snippet(case.get("origin", case))})

    def compare(self, case, pix, obs, reply):
        import numpy as np
        op = case["op"]
        n = op["name"]
        d = case["dim"]
        toks = reply.split()
        if "w2" in obs:
            self.ctx.count("nonaffine-landmarks-compared")
            if not toks or toks[0] != "ok":
                self.mismatch(case, "verdict", "model says %r for the registration query at %r" % (reply, obs["at"]))
                return
            vals = [float(F(t)) for t in toks[1:]]
            nch = len(case["chans"])
            if not self.pix_close(case, 1, obs["w2"], vals[:nch], 2):
                self.mismatch(case, "registration", "result sampled at the returned landmark %r: implementation %r, model %r" % (
                    obs["at"], obs["w2"], vals[:nch]))
            elif not all(close(a, b, max(case["shape"]), TOL) for a, b in zip(obs["interp"], vals[nch:])):
                self.mismatch(case, "registration", "transform interpolated at %r: harness %r, model %r" % (obs["at"], obs["interp"], vals[nch:]))
            return
        if "contract" in obs:
            self.ctx.count("contract-checked")
            exact = float(F(toks[1])) if len(toks) == 2 and toks[0] == "ok" else None
            if exact is None or not abs(obs["value"] ** 2 - exact) <= 1e-12 * (1 + exact):
                self.mismatch(case, "contract", "%s = %r, its square should be %r" % (obs["contract"], obs["value"], exact))
            return
        if not toks or toks[0] != "ok":
            # the implementation produced a result where the model refuses: outside the modelled domain or a tie
            self.mismatch(case, "verdict", "model says %r, implementation returned an image of shape %r" % (reply, obs.get("shape")))
            return
        vals = [F(t) for t in toks[1:]]
        nch = len(case["chans"])
        if n[:3] in ("pwa", "tps"):
            o = 0 if case["cls"] == "bool" else case["order"]
            pts = np.array(obs["pts"])
            mode = op["mode"]
            for k, p in enumerate(pix):
                if not obs["keep"][k]:
                    continue
                if (o == 0 and near_tie(pts[k])) or (mode[0] == "const" and self.near_edge(pts[k], case["shape"])):
                    continue
                mv = [float(v) for v in vals[k * nch:(k + 1) * nch]]
                if not self.pix_close(case, o, obs["pix"][k], mv):
                    self.mismatch(case, "pixels", "pixel %r sampled at %r: implementation %r, model %r" % (p, pts[k].tolist(), obs["pix"][k], mv))
                    return
            return
        pos = 0
        mshape = [int(v) for v in vals[pos:pos + d]]
        pos += d
        nT = d * (d + 1)
        mT = [float(v) for v in vals[pos:pos + nT]]
        pos += nT
        pre = vals[pos:pos + d]
        pos += d
        # near-ties of the shape rounding (inexact float pipelines only)
        rnd = {"resize": "round"}.get(n, op.get("round"))
        inexact = n in ("rotate", "about", "rescale_to_diagonal", "rescale_to_pointcloud", "rescale_landmarks_to_diagonal_range")
        if n == "about" and all(F(x).denominator <= 64 for row in about_transform(op).h_matrix[:2] for x in row):
            inexact = False          # dyadic matrix about a dyadic centre: the float pipeline is exact
        shape_tie = False
        if rnd and inexact and not (n in ("rotate", "about") and op["retain"]):
            for v in pre:
                fr = float(v - math.floor(v))
                if (rnd == "round" and abs(fr - 0.5) < TIE) or (rnd != "round" and min(fr, 1 - fr) < TIE):
                    shape_tie = True
        if shape_tie:
            self.ctx.count("skipped:shape-rounding-tie")
        elif mshape != obs["shape"]:
            self.mismatch(case, "shape", "implementation %r, model %r (pre-rounding extents %r)" % (obs["shape"], mshape, [float(v) for v in pre]))
            return
        if obs["T"] is not None:
            it = [x for row in obs["T"] for x in row]
            sc = max(abs(x) for x in mT + it)
            if not all(close(a, b, sc, TOL) for a, b in zip(it, mT)):
                self.mismatch(case, "transform", "returned transform %r, model %r" % (it, mT))
                return
        nl = len(all_points(case))
        mL = [float(v) for v in vals[pos:pos + d * nl]]
        pos += d * nl
        iL = [x for p in obs["lms"] for x in p]
        sc = max([abs(x) for x in mL + iL] + [1.0])
        if not all(close(a, b, sc, TOL) for a, b in zip(iL, mL)):
            self.mismatch(case, "landmarks", "implementation %r, model %r" % (obs["lms"], mL))
            return
        if shape_tie:
            return
        per = nch + (1 if case["cls"] == "masked" else 0) + d
        eo = eff_order(case)
        mode = op_mode(case)
        lvl = obs.get("level", 1)
        exact = is_exact(case)
        for k, p in enumerate(pix):
            rec = vals[pos + k * per: pos + (k + 1) * per]
            mv = [float(v) for v in rec[:nch]]
            sp = np.array([float(v) for v in rec[per - d:]])
            tie = bool(near_tie(sp)) and not exact
            edge = mode[0] == "const" and self.near_edge(sp, case["shape"] if lvl == 1 else None) and not exact
            if n == "pyramid" and lvl > 1:
                tie = tie or eo == 0          # nested nearest sampling: ties of earlier levels are not visible here
            if not ((eo == 0 and tie) or edge or eo > 1):
                if not self.pix_close(case, eo, obs["pix"][k], mv, lvl):
                    self.mismatch(case, "pixels", "pixel %r (sampled at %r): implementation %r, model %r" % (p, sp.tolist(), obs["pix"][k], mv))
                    return
            if case["cls"] == "masked" and not tie and not edge:
                mm = float(rec[nch]) != 0
                if mm != obs["mpix"][k]:
                    self.mismatch(case, "mask", "mask pixel %r (sampled at %r): implementation %r, model %r" % (p, sp.tolist(), obs["mpix"][k], mm))
                    return

    @staticmethod
    def near_edge(sp, shape):
        if shape is None:
            return False
        return any(abs(x) < TIE or abs(x - (s - 1)) < TIE for x, s in zip(sp, shape))

    @staticmethod
    def pix_close(case, eo, iv, mv, resamplings=1):
        if case["cls"] == "bool":
            return [bool(x) for x in iv] == [x != 0 for x in mv]
        if case["dtype"] in INT_DTYPES:
            tol = 0.0 if eo == 0 else 0.5 * resamplings + 1e-6
            return all(abs(a - b) <= tol for a, b in zip(iv, mv))
        sc = max([abs(x) for x in mv] + [1.0])
        tol = 1e-4 if case["dtype"] == "float32" else TOL
        return all(close(a, b, sc, tol) for a, b in zip(iv, mv))


OPS2 = [("rescale", 40), ("rescale_to_diagonal", 10), ("rescale_to_pointcloud", 10), ("rescale_landmarks_to_diagonal_range", 10),
        ("resize", 20), ("zoom", 20), ("rotate", 40), ("about", 40), ("mirror", 16), ("crop", 30), ("crop_to_pointcloud", 12),
        ("crop_to_landmarks", 12), ("crop_to_pointcloud_proportion", 8), ("crop_to_landmarks_proportion", 8),
        ("crop_to_true_mask", 10), ("warp_to_shape", 40), ("warp_to_mask", 16), ("pyramid", 10), ("gaussian_pyramid", 3),
        ("warp_class", 36), ("chain", 30), ("constrain_landmarks", 4), ("constrain_mask", 6)]
NONAFF = [("pwa_shape", 8), ("pwa_mask", 8), ("tps_shape", 6), ("tps_mask", 6)]
OPS3 = [("rescale", 8), ("resize", 4), ("crop", 8), ("mirror", 4), ("zoom", 4), ("warp_to_shape", 8)]


def make_case(rng, dim, name):
    if dim == 3:
        case = base_case(rng, 3)
        case["op"] = gen_op3(rng, name, case)
        return finish_case(rng, case)
    if name[:3] in ("pwa", "tps"):
        case = base_case(rng, 2, shape=[8, 8])
        case["op"] = gen_nonaffine(rng, name, case)
        return finish_case(rng, case)
    if name == "warp_class":
        case = base_case(rng, 2, shape=[rng.randint(14, 40), rng.randint(14, 40)])
        case["op"] = gen_class_warp(rng, case)
        lm = class_landmarks(rng, case["op"], case["shape"], rng.randint(2, 4))
        if lm:
            case["groups"] = {"g0": lm}
        return finish_case(rng, case)
    if name == "chain":
        case = base_case(rng, 2, shape=[rng.randint(12, 40), rng.randint(12, 40)])
        case["op"] = gen_chain(rng, case)
        fix_cval(dict(case, op=case["op"]["last"]))
        return case
    if name == "constrain_landmarks":
        case = base_case(rng, 2)
        case["op"] = gen_constrain(rng, case)
        return case
    if name == "constrain_mask":
        case = base_case(rng, 2, shape=[rng.randint(5, 24), rng.randint(5, 24)], cls=rng.choice(["masked", "masked", "bool"]))
        case["op"] = gen_constrain_mask(rng, case)
        return case
    if name == "pyramid":
        case = base_case(rng, 2, shape=[rng.randint(24, 40), rng.randint(24, 40)], lm_hi=0.5)
    elif name == "gaussian_pyramid":
        case = base_case(rng, 2, shape=[rng.randint(64, 72), rng.randint(64, 72)], cls=rng.choice(["img", "masked"]), lm_lo=0.3, lm_hi=0.6)
        if case["dtype"] in INT_DTYPES:
            case["dtype"] = "float64"
            case["chans"] = [gen_content(rng, case["shape"], "float64", force_aff=True) for _ in case["chans"]]
    elif name == "crop_to_true_mask":
        case = base_case(rng, 2, cls="masked")
    else:
        case = base_case(rng, 2)
    if name in ("rescale_to_diagonal", "rescale_to_pointcloud", "rescale_landmarks_to_diagonal_range") and min(case["shape"]) < 3:
        # a derived scale of 1/2 would collapse an extent of two pixels onto one (outside the documented domain)
        case = base_case(rng, 2, shape=[max(3, x) for x in case["shape"]], cls=case["cls"])
    case["op"] = gen_op2(rng, name, case)
    if name == "rescale_to_diagonal":
        case["order"] = 1
    return finish_case(rng, case)


def finish_case(rng, case):
    """options every direct warp accepts: batch_size (the points are transformed in batches; the result must not
    depend on it)"""
    if case["op"]["name"] in WARPS:
        case["op"]["batch"] = rng.choice([None, None, None, 5, 16, 1000])
        # previous life of the transform object (seeded C01-3: a memo inside the transform that a later public
        # update does not refresh only shows when ONE object is used for a warp, re-aimed, and used again)
        case["op"]["life"] = rng.choice(["fresh", "fresh", "reused"])
    return fix_cval(case)


def fix_cval(case):
    """cval handed to the operation: integer dtypes take small non-negative integers; a direct warp of a
    BooleanImage is given a bool"""
    m = case["op"].get("mode")
    if m and m[0] == "const":
        if case["dtype"] in INT_DTYPES:
            m[1] = {0.5: 1.0, -1.0: 7.0, 2.5: 3.0}.get(m[1], m[1])
        if case["cls"] == "bool" and case["op"]["name"] in WARPS:
            m[1] = 1.0 if m[1] else 0.0
    return case


def explore(run, k, only=None):
    rng = run.ctx.rng
    plan = [(2, n, c) for n, c in OPS2] + [(2, n, c) for n, c in NONAFF] + [(3, n, c) for n, c in OPS3]
    for dim, name, count in plan:
        if only is not None and name not in only:
            continue
        reps = max(1, int(round(count * k)))
        for _ in range(reps):
            run.do_case(make_case(rng, dim, name))


def search(ctx):
    """directed search after a broken tie: the operations that disagreed first (many more parameter draws,
    oracle only), then everything"""
    bad = sorted({m[0] for m in ctx.mismatches})
    r = Run(ctx, model=False)
    before = ctx.evaluations
    if ctx.broken_obligations:
        # a regenerated table changed (a class overrides a funnel method, a family class moves landmarks with another
        # pseudoinverse, an operation no longer goes through warp_to_shape once): every class / operation, directly
        explore(r, 4, only={"warp_class", "warp_to_shape", "warp_to_mask", "chain"})
        if not ctx.failures:
            explore(r, 2)
    if bad and not ctx.failures:
        explore(r, 6, only=set(bad) | ({"chain"} if set(bad) & set(CHAIN_LAST) else set()))
    if not ctx.failures:
        explore(r, 2)
    ctx.searched += ctx.evaluations - before
    return bool(ctx.failures)


def generated(ctx):
    """one lake invocation for everything regenerated from /repo: the three tables recorded from the live classes
    (harness/extract_c01.py) and the Python-level plumbing of the image operations TRANSLATED from the source text of
    the working tree (harness/trans_c01.py), each with its obligations (GenProps/C01.lean, GenProps/C01Src*.lean)"""
    files, rows = extract_c01.lean_files(with_counts=True)
    ctx.notes["regenerated_rows"] = rows
    from . import trans_c01
    tfiles, why = trans_c01.generated_files()
    ctx.notes["source_translation"] = ("ok: %d definitions translated from source (2-D) + %d of them a second time over the "
                                       "3-D vocabulary" % (trans_c01.N_DEFINITIONS, trans_c01.N_DEFINITIONS3)
                                       if not why else "untranslatable: " + "; ".join(why))
    files = dict(files)
    files.update(tfiles)
    ok = common.build_generated(ctx, files, extract_c01.TARGETS + trans_c01.GEN_TARGETS,
                                extract_c01.N_OBLIGATIONS + trans_c01.N_OBLIGATIONS)
    ctx.count("regenerated-tables+source-translation:" + ("ok" if ok else "BROKEN"))


def prepare(ctx):
    """regenerate the tables and their obligations, build, audit.  When a regenerated obligation no longer checks
    (recorded in ctx.broken_obligations: a finding about /repo, not an infrastructure error) the audit covers the
    hand-written theorems only, since GenProps/C01.olean does not exist then."""
    generated(ctx)
    if ctx.broken_obligations:
        imports = [m for m in IMPORTS if "GenProps" not in m]
        theorems = [t for t in THEOREMS if ".GenProps." not in t and ".GenProps3." not in t]
    else:
        imports, theorems = IMPORTS, THEOREMS
    common.prepare_lean(ctx, PROP, imports, theorems)


def run(ctx):
    prepare(ctx)
    ctx.trusted += ["harness/extract_c01.py (extraction of the dispatch / family / funnel tables from the live classes)",
                    "scipy.ndimage.map_coordinates orders 2-5 (spline prefilter): taken as an interpolating sampler — checked at "
                    "grid points on every case that uses them; scipy.ndimage.gaussian_filter: a symmetric kernel of total weight "
                    "1 with the reflect rule — kernel measured and checked on every run, pixels compared with the model",
                    "square roots taken by rescale_to_diagonal / rescale_to_pointcloud / rescale_landmarks_to_diagonal_range "
                    "(their squares are compared with the exact quantities of the model)"]
    ctx.trusted += ["scipy.ndimage.map_coordinates (orders 0/1, constant/nearest) as modelled by axis1 — checked on every sampled pixel",
                    "Homogeneous.pseudoinverse = matrix inverse (C04); PiecewiseAffine / ThinPlateSplines apply & pseudoinverse (C04, C09)",
                    "numpy cos/sin/deg2rad of the generated angles"]
    r = Run(ctx)
    explore(r, ctx.n(6, 100))
    r.settle()
    return ctx.finish(search)


def replay(ctx, path):
    data = json.load(open(path))
    case = (data.get("replay") or {}).get("case")
    if case is None:
        cases = [c.get("case", {}).get("case") for c in data.get("broken_correspondence", [])]
        cases = [c for c in cases if c]
    else:
        cases = [case]
    print(json.dumps({k: data.get(k) for k in ("property", "kind", "site", "pattern", "what")}, indent=1))
    prepare(ctx)
    r = Run(ctx)
    for c in cases:
        r.do_case(c)
    r.settle()
    return ctx.finish(None)
