"""py2lean2s — generic extensions of harness/py2lean2.py for code that works on an IMPLICIT, MUTABLE WORLD (a heap of
Python objects) and that may FAIL (kept in a module of its own so that builders working on py2lean2.py at the same
time are not disturbed; everything here is independent of any property).

`Translator2S(Rules2S(...))` is a `Translator2` that additionally translates

  implicit state       Python mutates objects in place; the Lean model passes the world around.  When the function is
                       translated with `arg_names[STATE] = "w"` there is one hidden variable (the world) which every
                       template can read as `{STATE}` and which the flagged rules replace:
                         expr rule flag "state"      template : α × σ        (value, new world)
                         expr rule flag "bindstate"  template : M (α × σ)
                         stmt rule flag "state"      template : σ            (the receiver may be None)
                         stmt rule flag "bindstate"  template : M σ
                       The world is a loop-carried variable of every `for` loop whose body touches it; `ret` and `end`
                       templates may mention `{STATE}` and the current lean name of a python variable (`{self}`).
  failure              expr rule flag "bind" (template : M α), stmt rule flag "bind" (template : M (new receiver)).
                       M is described by `monad=dict(ok=".ok {x}", fail=".error {e}", reraise=".error {e}")`: a failing
                       operation leaves the function with `reraise` (through `return` of the enclosing context: out of
                       loops as well), a successful one binds its result:
                           (match m with
                            | .ok t_0 => <rest>
                            | .error e_0 => .error e_0)
  hoisting             an effectful expression may be an operand (`d[k] = v.copy()`, `if a.n_dims != n`, the iterable of
                       a `for`): it is evaluated in front of its statement, operands in Python's evaluation order
                       (receiver, then arguments, left to right).  `a and b` / `a or b` in an `if` test whose later
                       operands are effectful become nested `if`s (short circuit); anywhere else an effectful operand
                       of the right-hand side of `and` / `or`, of a conditional expression or of a comprehension is
                       untranslatable.
  try / except         `try: BODY except E1: H1 except E2: H2` (no `else`, no `finally`, no `as`): `catch` maps an
                       exception class name to the Lean PATTERN of the failing value (`{"AttributeError": ".error
                       .attr"}`; `None` = a class of failure that M cannot produce: named in an `except`, no arm); every failing operation of BODY gets one match arm per handler, the handler runs in
                       the variable bindings and the world of the point of failure (a failed operation has no effect),
                       then the statements after the `try`; a failure no handler names is re-raised (`exhaustive`:
                       sets of class names that cover every failure - then there is no re-raising arm).
  alias locals         `d = x.attr` (attr listed in `alias_attrs`: a data attribute holding a mutable container that is
                       never rebound) followed by `d[k] = v` / `d.items()`: the local is inlined (`inline_aliases`), so
                       the same rules apply with and without the temporary.
  x is None            `({x}).isNone` / `({x}).isSome`
  import               `import` / `from .. import` inside a function body is dropped
  any statement        (`del d[k]`, `o.attr = v`, `d[k] = v`, bare calls) can be given a stmt rule

`expr()` never returns a flag: effects are hoisted into the innermost open statement frame, so every generic form of
Translator2 (if / assert / return / assignment / augmented and tuple assignment / for with break, continue and early
exit / comprehensions) is reused unchanged.
"""
import ast
import textwrap

from .py2lean2 import Rules2, Translator2, _Ctx, Untranslatable, match, _pat  # noqa: F401

STATE = "\0state"
EFFECT_FLAGS = ("bind", "state", "bindstate")


class Rules2S(Rules2):
    def __init__(self, expr=(), stmt=(), monad=None, catch=None, state_name="w", exhaustive=(), alias_attrs=(),
                 **kw):
        stmt = [tuple(s) + ("",) * (4 - len(s)) for s in stmt]
        self.stmt_flag = [s[3] for s in stmt]
        Rules2.__init__(self, expr=expr, stmt=[(s[0], s[1] or "NONE", s[2]) for s in stmt], **kw)
        self.monad = dict(ok=".ok {x}", fail=".error {e}", reraise=".error {e}")
        self.monad.update(monad or {})
        self.catch = dict(catch or {})
        self.state_name = state_name
        # sets of exception class names that together cover every failure of M: a `try` that catches all classes of
        # one of them gets no re-raising arm (Lean rejects a redundant alternative)
        self.exhaustive = [frozenset(e) for e in exhaustive]
        # plain data attributes that hold a mutable container which is never rebound: a local bound once to `x.attr`
        # is an ALIAS of it (`d = new._groups; d[k] = v` is `new._groups[k] = v`), see `inline_aliases`
        self.alias_attrs = frozenset(alias_attrs)
        for _p, _t, fl in self.expr:
            if fl not in ("",) + EFFECT_FLAGS:
                raise ValueError("unknown expr flag %r" % fl)
        for fl in self.stmt_flag:
            if fl not in ("",) + EFFECT_FLAGS:
                raise ValueError("unknown stmt flag %r" % fl)


def _stores(node):
    """(kind, key, lineno) of every binding in the function: ("name", id) / ("attr", (root id, attr))"""
    out = []
    for n in ast.walk(node):
        if isinstance(n, ast.Name) and isinstance(n.ctx, (ast.Store, ast.Del)):
            out.append(("name", n.id, getattr(n, "lineno", 0)))
        elif (isinstance(n, ast.Attribute) and isinstance(n.ctx, (ast.Store, ast.Del))
              and isinstance(n.value, ast.Name)):
            out.append(("attr", (n.value.id, n.attr), getattr(n, "lineno", 0)))
    return out


def inline_aliases(fn_node, attrs):
    """NORMALISATION: a local that is bound exactly once, outside every loop, to `x.attr` (attr in `attrs`: a data
    attribute holding a mutable container) where `x` is not rebound afterwards and `x.attr` is never rebound, names
    the very object `x.attr` names: the binding is dropped and every later use of the local is replaced by `x.attr`
    (so that rules about `x.attr[k] = v` / `x.attr.items()` see through the temporary).  Anything else stays an
    ordinary local.  Works on the AST in place; returns the names inlined."""
    if not attrs:
        return []
    stores = _stores(fn_node)
    in_loop = set()
    for n in ast.walk(fn_node):
        if isinstance(n, (ast.For, ast.While)):
            for m in ast.walk(n):
                if isinstance(m, ast.Assign):
                    in_loop.add(id(m))
    cands = {}
    for n in ast.walk(fn_node):
        if (isinstance(n, ast.Assign) and len(n.targets) == 1 and isinstance(n.targets[0], ast.Name)
                and isinstance(n.value, ast.Attribute) and isinstance(n.value.value, ast.Name)
                and n.value.attr in attrs and id(n) not in in_loop):
            t, x, a = n.targets[0].id, n.value.value.id, n.value.attr
            if sum(1 for k, key, _l in stores if k == "name" and key == t) != 1 or t == x:
                continue
            if any(k == "name" and key == x and l >= n.lineno for k, key, l in stores):
                continue
            if any(k == "attr" and key == (x, a) for k, key, _l in stores):
                continue
            cands[t] = n

    class Sub(ast.NodeTransformer):
        def visit_Name(self, node):
            if isinstance(node.ctx, ast.Load) and node.id in cands:
                v = cands[node.id].value
                return ast.copy_location(ast.Attribute(value=ast.Name(id=v.value.id, ctx=ast.Load()), attr=v.attr,
                                                       ctx=ast.Load()), node)
            return node

        def visit_Assign(self, node):
            if any(node is c for c in cands.values()):
                return None
            return self.generic_visit(node)

    if cands:
        Sub().visit(fn_node)
        ast.fix_missing_locations(fn_node)
    return sorted(cands)


class Translator2S(Translator2):
    def __init__(self, rules):
        Translator2.__init__(self, rules)
        self._frames = []
        self._tmpn = 0
        self._nohoist = 0

    # ------------------------------------------------------------------------------------------ names
    def fresh(self, name, scope):  # noqa: D401  (Translator2.fresh is a staticmethod; always called through self)
        if name == STATE:
            name = self.r.state_name
        return Translator2.fresh(name, scope)

    def _fmt(self, tmpl, scope, **vals):
        return tmpl.format(STATE=scope.get(STATE, "?"), **vals)

    def _fmt_vars(self, tmpl, scope, **vals):
        """`ret` / `end` templates may also mention the current lean name of a python variable: `{self}`"""
        names = {k: v for k, v in scope.items() if k.isidentifier() and k not in vals and k != "STATE"}
        return tmpl.format(STATE=scope.get(STATE, "?"), **names, **vals)

    # ------------------------------------------------------------------------------------------ which rule applies
    def _expr_flag(self, node):
        for pat, _t, fl in self.r.expr:
            if match(pat, node, {}):
                return fl
        return ""

    def _stmt_flag(self, st):
        for i, (pat, _r, _t) in enumerate(self.r.stmt):
            if match(pat, st, {}):
                return self.r.stmt_flag[i]
        return None

    def _effects(self, nodes):
        """flags of every effectful rule that applies somewhere inside the given nodes"""
        out = set()

        def visit(n):
            if isinstance(n, ast.stmt):
                for i, (pat, _r, _t) in enumerate(self.r.stmt):
                    env = {}
                    if match(pat, n, env):           # only the operands of a statement a rule covers are evaluated
                        if self.r.stmt_flag[i]:
                            out.add(self.r.stmt_flag[i])
                        for v in env.values():
                            visit(v)
                        return
            elif isinstance(n, ast.expr):
                if isinstance(getattr(n, "ctx", None), (ast.Store, ast.Del)):
                    for c in ast.iter_child_nodes(n):
                        visit_target(c)
                    return
                for pat, _t, fl in self.r.expr:
                    env = {}
                    if match(pat, n, env):
                        if fl:
                            out.add(fl)
                        for v in env.values():
                            visit(v)
                        return
            for c in ast.iter_child_nodes(n):
                visit(c)

        def visit_target(c):
            # inside an assignment target only the loaded sub-expressions (receiver, index) are evaluated
            if isinstance(getattr(c, "ctx", None), (ast.Store, ast.Del)):
                for d in ast.iter_child_nodes(c):
                    visit_target(d)
            elif isinstance(c, (ast.expr, ast.stmt)):
                visit(c)

        for top in nodes:
            visit(top)
        return out

    def _may_fail(self, nodes):
        return bool(self._effects(nodes) & {"bind", "bindstate"})

    def _touches_state(self, nodes):
        return bool(self._effects(nodes) & {"state", "bindstate"})

    # ------------------------------------------------------------------------------------------ expressions
    def _hoist(self, text, flag, scope, node=None, bind_as=None):
        """evaluate the effectful term `text` in front of the current statement; returns the name of its value"""
        if self._nohoist or not self._frames:
            raise Untranslatable("effectful operand where evaluation is conditional: `%s`" %
                                 (ast.unparse(node) if node is not None else text))
        n = self._tmpn
        self._tmpn += 1
        tmp = bind_as or "t_%d" % n
        snap = dict(scope)
        new_state = None
        if flag in ("state", "bindstate"):
            if STATE not in scope:
                raise Untranslatable("rule changes the world but the function is translated without one")
            new_state = self.fresh(STATE, scope)
            scope[STATE] = new_state
        self._frames[-1].append((flag, text, tmp, new_state, snap, n))
        return tmp

    def expr(self, node, scope):
        for i, (pat, tmpl, flag) in enumerate(self.r.expr):
            env = {}
            if match(pat, node, env):
                self.used_rules.add(i)
                vals = {k: self.pure(v, scope) for k, v in env.items()}      # operands first (they may hoist)
                text = self._fmt(tmpl, scope, **vals)
                if not flag:
                    return text, ""
                return self._hoist(text, flag, scope, node), ""
        if (isinstance(node, ast.Compare) and len(node.ops) == 1 and isinstance(node.ops[0], (ast.Is, ast.IsNot))
                and isinstance(node.comparators[0], ast.Constant) and node.comparators[0].value is None):
            x = self.pure(node.left, scope)
            return "(%s).%s" % (x, "isSome" if isinstance(node.ops[0], ast.IsNot) else "isNone"), ""
        if isinstance(node, ast.BoolOp):
            op = " && " if isinstance(node.op, ast.And) else " || "
            parts = [self.pure(node.values[0], scope)]
            self._nohoist += 1
            try:
                parts += [self.pure(v, scope) for v in node.values[1:]]
            finally:
                self._nohoist -= 1
            return "(" + op.join(parts) + ")", ""
        if isinstance(node, ast.IfExp):
            c = self.pure(node.test, scope)
            self._nohoist += 1
            try:
                a, b = self.pure(node.body, scope), self.pure(node.orelse, scope)
            finally:
                self._nohoist -= 1
            return "(if %s then %s else %s)" % (c, a, b), ""
        return Translator2.expr(self, node, scope)

    def pure(self, node, scope):
        return self.expr(node, scope)[0]

    def comprehension(self, node, scope, kind):
        self._nohoist += 1
        try:
            return Translator2.comprehension(self, node, scope, kind)
        finally:
            self._nohoist -= 1

    # ------------------------------------------------------------------------------------------ statements
    def assigned_names(self, stmts):
        """as Translator2.assigned_names, plus `try` bodies and handlers, plus the hidden world"""
        out = []

        def add(n):
            if n not in out:
                out.append(n)

        def tgt(t):
            if isinstance(t, ast.Name):
                add(t.id)
            elif isinstance(t, (ast.Tuple, ast.List)):
                for e in t.elts:
                    tgt(e)

        def walk(sts):
            for st in sts:
                matched = False
                for i, (pat, recv, _t) in enumerate(self.r.stmt):
                    env = {}
                    if match(pat, st, env):
                        if self.r.stmt_flag[i] in ("", "bind") and isinstance(env.get(recv), ast.Name):
                            add(env[recv].id)
                        matched = True
                        break
                if matched:
                    continue
                if isinstance(st, ast.Assign):
                    for t in st.targets:
                        tgt(t)
                elif isinstance(st, ast.AugAssign):
                    tgt(st.target)
                elif isinstance(st, ast.If):
                    walk(st.body)
                    walk(st.orelse)
                elif isinstance(st, ast.For):
                    tgt(st.target)
                    walk(st.body)
                elif isinstance(st, ast.Try):
                    walk(st.body)
                    for h in st.handlers:
                        walk(h.body)
                elif isinstance(st, (ast.While, ast.With, ast.FunctionDef, ast.ClassDef)):
                    raise Untranslatable("statement form `%s`" % ast.unparse(st).splitlines()[0])
        walk(stmts)
        if self._touches_state(stmts):
            add(STATE)
        return out

    def _has(self, stmts, kinds, into_loops):
        """a failing operation leaves the loop like a `raise` does"""
        def inside(sts):
            for st in sts:
                if isinstance(st, kinds):
                    return True
                if isinstance(st, ast.If) and (inside(st.body) or inside(st.orelse)):
                    return True
                if isinstance(st, ast.Try) and (inside(st.body) or any(inside(h.body) for h in st.handlers)):
                    return True
                if isinstance(st, ast.For) and into_loops and inside(st.body):
                    return True
            return False
        if inside(stmts):
            return True
        return ast.Return in kinds and self._may_fail(stmts)

    def block(self, stmts, scope, ind, ctx):
        frame = []
        self._frames.append(frame)
        scope = dict(scope)
        try:
            text = self._block1(stmts, scope, ind, ctx)
        finally:
            self._frames.pop()
        return self._wrap(frame, text, ind, ctx)

    def _wrap(self, frame, text, ind, ctx):
        pad = "  " * ind
        m = self.r.monad
        for flag, term, tmp, new_state, snap, n in reversed(frame):
            if flag == "let":
                text = "%slet %s := %s\n%s" % (pad, tmp, term, text)
            elif flag == "state":
                text = "%slet p_%d := %s\n%slet %s := p_%d.1\n%slet %s := p_%d.2\n%s" % (
                    pad, n, term, pad, tmp, n, pad, new_state, n, text)
            else:
                pad1 = "  " * (ind + 1)
                inner = textwrap.indent(text, "  ")
                if flag == "bindstate":
                    x = "p_%d" % n
                    inner = "%slet %s := p_%d.1\n%slet %s := p_%d.2\n%s" % (pad1, tmp, n, pad1, new_state, n, inner)
                else:
                    x = tmp
                arms = "%s| %s =>\n%s\n" % (pad, m["ok"].format(x=x), inner)
                fail = m["fail"].format(e="e_%d" % n)
                covered = False
                for pat, handler in getattr(ctx, "handlers", []):
                    arms += "%s| %s =>\n%s\n" % (pad, pat, handler(dict(snap), ind + 1))
                    covered = covered or pat == fail
                if not covered and not getattr(ctx, "total", False):
                    arms += "%s| %s =>\n%s\n" % (pad, fail, ctx.exit(m["reraise"].format(e="e_%d" % n), snap, ind + 1))
                text = "%s(match %s with\n%s%s)" % (pad, term, arms.rstrip("\n"), "")
        return text

    def _let(self, name, value, scope):
        self._frames[-1].append(("let", value, name, None, None, -1))

    def _block1(self, stmts, scope, ind, ctx):
        if not stmts:
            return ctx.end(scope, ind)
        st, rest = stmts[0], stmts[1:]
        if isinstance(st, (ast.Import, ast.ImportFrom)):
            return self._block1(rest, scope, ind, ctx)
        if isinstance(st, ast.Continue):
            if ctx.brk is None and getattr(ctx, "cont", None) is None:
                raise Untranslatable("continue outside a loop")
            return (getattr(ctx, "cont", None) or ctx.end)(scope, ind)
        if isinstance(st, ast.Return):
            if st.value is None:
                if self.r.end is None:
                    raise Untranslatable("bare return")
                return ctx.exit(self._fmt_vars(self.r.end, scope), scope, ind)
            e = self.pure(st.value, scope)
            return ctx.exit(self._fmt_vars(self.r.ret, scope, e=e), scope, ind)
        if isinstance(st, ast.If) and isinstance(st.test, ast.BoolOp) and self._effects(st.test.values[1:]):
            first, others = st.test.values[0], st.test.values[1:]
            tail = others[0] if len(others) == 1 else ast.BoolOp(op=st.test.op, values=others)
            if isinstance(st.test.op, ast.And):     # if a and b: X else: Y   ==   if a: (if b: X else: Y) else: Y
                new = ast.If(test=first, body=[ast.If(test=tail, body=st.body, orelse=st.orelse)], orelse=st.orelse)
            else:                                   # if a or b: X else: Y    ==   if a: X else: (if b: X else: Y)
                new = ast.If(test=first, body=st.body, orelse=[ast.If(test=tail, body=st.body, orelse=st.orelse)])
            return self._block1([new] + rest, scope, ind, ctx)
        if isinstance(st, ast.Try):
            return self._try(st, rest, scope, ind, ctx)
        for i, (pat, recv, tmpl) in enumerate(self.r.stmt):
            env = {}
            if match(pat, st, env):
                self.used_rules.add(("s", i))
                flag = self.r.stmt_flag[i]
                vals = {k: self.pure(v, scope) for k, v in env.items()}
                val = self._fmt(tmpl, scope, **vals)
                if flag in ("", "bind"):
                    target = env.get(recv)
                    if not isinstance(target, ast.Name):
                        raise Untranslatable("in-place statement on a non-variable: `%s`" % ast.unparse(st))
                    new = self.fresh(target.id, scope)
                    if flag == "bind":
                        self._hoist(val, "bind", scope, st, bind_as=new)
                    else:
                        self._let(new, val, scope)
                    scope[target.id] = new
                else:
                    if STATE not in scope:
                        raise Untranslatable("rule changes the world but the function is translated without one")
                    new = self.fresh(STATE, scope)
                    if flag == "bindstate":
                        self._hoist(val, "bind", scope, st, bind_as=new)
                    else:
                        self._let(new, val, scope)
                    scope[STATE] = new
                return self.block(rest, scope, ind, ctx)
        if isinstance(st, ast.Break) and ctx.brk is None:
            raise Untranslatable("break outside a loop")
        return Translator2.block(self, stmts, scope, ind, ctx)

    def _try(self, st, rest, scope, ind, ctx):
        if st.orelse or st.finalbody:
            raise Untranslatable("try with else / finally")
        if getattr(ctx, "handlers", None):
            raise Untranslatable("nested try")
        if self._has_node(st.body, (ast.Raise, ast.For, ast.While)):
            raise Untranslatable("raise / loop inside a try body")
        handlers = []
        caught = set()
        for h in st.handlers:
            if h.name is not None or h.type is None:
                raise Untranslatable("except clause `%s`" % ast.unparse(h).splitlines()[0])
            classes = h.type.elts if isinstance(h.type, ast.Tuple) else [h.type]
            for c in classes:
                name = c.id if isinstance(c, ast.Name) else c.attr if isinstance(c, ast.Attribute) else None
                if name not in self.r.catch:
                    raise Untranslatable("except %s" % ast.unparse(c))
                caught.add(name)
                if self.r.catch[name] is None:      # a class of failure M cannot produce: no arm (declared by the rules)
                    continue
                handlers.append((self.r.catch[name],
                                 lambda snap, i, h=h: self.block(list(h.body) + rest, snap, i, ctx)))
        tctx = _Ctx(exit_=ctx.exit, end=lambda s, i: self.block(rest, s, i, ctx), brk=ctx.brk)
        tctx.cont = getattr(ctx, "cont", None) or (ctx.end if ctx.brk is not None else None)
        tctx.handlers = handlers
        tctx.total = any(e <= caught for e in self.r.exhaustive)
        return self.block(list(st.body), scope, ind, tctx)

    @staticmethod
    def _has_node(stmts, kinds):
        return any(isinstance(n, kinds) for st in stmts for n in ast.walk(st))

    def loop(self, st, rest, scope, ind, ctx):
        if getattr(ctx, "handlers", None):
            raise Untranslatable("loop inside a try body")
        return Translator2.loop(self, st, rest, scope, ind, ctx)

    def function(self, fn, arg_names, ind=2, allow_unused=()):
        """as Translator2.function, after the normalisations of this module (alias inlining)"""
        from .py2lean2 import source_ast
        node, _src = source_ast(fn)
        a = node.args
        params = [x.arg for x in a.posonlyargs + a.args + a.kwonlyargs]
        if a.vararg:
            params.append(a.vararg.arg)
        if a.kwarg:
            params.append(a.kwarg.arg)
        mentioned = {n.id for st in node.body for n in ast.walk(st) if isinstance(n, ast.Name)}
        for p in params:
            if p not in arg_names and not (p in allow_unused and p not in mentioned):
                raise Untranslatable("signature of %s changed: %s" % (node.name, ast.unparse(node.args)))
        self.inlined = inline_aliases(node, self.r.alias_attrs)
        return self.block(list(node.body), dict(arg_names), ind, self.top_ctx())

    def top_ctx(self):
        def end(scope, ind):
            if self.r.end is None:
                raise Untranslatable("control reaches the end of the function without return/raise")
            return "  " * ind + self._fmt_vars(self.r.end, scope)
        return _Ctx(exit_=lambda v, s, i: "  " * i + v, end=end)
