"""C16 — menpo's export / import plumbing TRANSLATED from the source text of the current working tree into Lean on every
run of `./check C16` (harness/py2lean2.py is the translator; this file holds (1) `Translator16`, a generic extension of
`Translator2` with the statement forms the io code needs, and (2) the C16 vocabulary: the rules that map each Python
expression of that code to the operation of the same name of the Core model).

Generic additions of `Translator16` over `Translator2` (nothing here is specific to menpo; written as a subclass so that
other builders' use of py2lean2.py is untouched):

  while <test>: <body>                 ->  PyX.whileLoop fuel init cond body  (Core/C16PyX.lean; loop-carried variables
                                           as for `for`; `none` = out of fuel = the value `Rules16.diverge`; break /
                                           return / raise inside the body as for `for`)
  truthiness                           ->  a non-Boolean operand of if / while / and / or / not / `a if c else b` is
                                           wrapped in `PyX.truthy` (type class: Bool, List, Option, Nat, Int)
  x is None / x is not None            ->  (x).isNone / (x).isSome  (folded when x is literally `none` / `(some ..)`)
  if <literal>:                        ->  only the live arm is translated (specialisation to a call shape)
  monadic operands                     ->  a rule flagged "bind" used as an operand is hoisted into a bind in front of the
                                           statement — only from strictly evaluated positions (never out of the right
                                           operand of and/or, a conditional expression, a comprehension, a loop test)
  <call for its effect>                ->  bind with an ignored result
  a, b = <monadic call>                ->  bind, then projections
  with <ctx> [as f]: <body>            ->  `withs` rules give the value bound to f (bind allowed); the body is inlined
  try: .. except E [as e]: ..          ->  `try_fn body ok err` (PyX.tryE / W.tryW); `return` inside the body allowed;
                                           handlers see the scope at the entry of the try
  raise E(..)                          ->  `raise_tmpl` of `exc[E]`; a handler for E also catches the subclasses of E that
                                           the vocabulary knows (`exc_parents`: OverwriteError is a ValueError)
  multi rules                          ->  one statement that rebinds several names (`x = l.pop(0)`)
  drop rules                           ->  statements without a meaning in the model (`warnings.warn(..)`)
  str constants without a rule         ->  `()` (they only occur in messages)
  binds inside loop bodies             ->  an exit of the loop with the error (`bind_exit`)
  helper(args) without a rule          ->  a plain function of the same package is translated too and INLINED at the call
                                           site (parameters let-bound, each `return e` continues with the caller's
                                           statement; same rules) — an extracted helper is not a new word
  x in (a, b, c)                       ->  (x == a || x == b || x == c)
"""
import ast
import os
import types

from . import py2lean2 as P
from .py2lean2 import Untranslatable, match, _pat, _proj, _tuple


class Rules16(P.Rules2):
    """Rules2 plus
    multi: [(stmt pattern, [(python metavariable naming the rebound variable, lean template), ...])]
    withs: [(expr pattern of a context manager, lean template[, flags])]
    drop:  [stmt pattern]  statements that are skipped (their operands are not translated)
    exc:   {python exception class name: lean value of the exception}
    raise_tmpl / pure_tmpl: how an exception value / a result is injected into the monad of the function
    try_fn: the try combinator;  fuel / diverge: bound of every `while` of the function and the value when it runs out;
    bind_exit: template of a bind inside a loop body ({m} {x} {k} {fail}: fail = the loop exit with the error `e_`)
    Expression-rule flags are words: "bind" (monadic), "bool" (the value is a Bool: no truthiness wrapper), "safe" (a
    monadic READ that cannot raise and changes nothing: it may be hoisted out of a lazily evaluated position)."""

    def __init__(self, multi=(), withs=(), drop=(), exc=None, raise_tmpl=".error {x}", pure_tmpl=".ok ({e})",
                 try_fn="PyX.tryE", fuel=None, diverge=None, bind_exit=None, stmt=(), exc_parents=None, **kw):
        self.stmt_flag = [(s[3] if len(s) > 3 else "") for s in stmt]
        # applied, not dotted: the monadic value may have a type Lean has not inferred yet (exit value of a loop)
        kw.setdefault("bind", "Except.bind ({m}) fun {x} =>\n{k}")
        P.Rules2.__init__(self, stmt=[s[:3] for s in stmt], **kw)
        self.multi = [(_pat(m[0], "stmt"), m[1], (m[2] if len(m) > 2 else None)) for m in multi]
        self.withs = [(_pat(p, "expr"), t, (fl[0] if fl else "")) for p, t, *fl in withs]
        self.drop = [_pat(p, "stmt") for p in drop]
        self.exc = dict(exc or {})
        # the exception hierarchy as far as the vocabulary goes: `except ValueError` also catches menpo's OverwriteError
        # (class OverwriteError(ValueError)), `except LookupError` catches IndexError and KeyError
        self.exc_parents = dict(exc_parents or {"OverwriteError": ["ValueError"], "IndexError": ["LookupError"],
                                                "KeyError": ["LookupError"]})
        self.raise_tmpl = raise_tmpl
        self.pure_tmpl = pure_tmpl
        self.try_fn = try_fn
        self.fuel = fuel
        self.diverge = diverge
        # PyX.tryE rather than a `match`: the type of {m} may still be unknown when Lean reaches this point (the exit
        # component of an inner loop), and an application unifies it where a pattern match would be stuck
        self.bind_exit = bind_exit or ("PyX.tryE ({m}) (fun {x} =>\n{k})\n{pad}  (fun e_ =>\n{fail})")


class _C:
    """what return / raise / break / continue / a monadic bind / falling off the end mean at the current nesting level"""

    def __init__(self, exit_, end, raise_, bind, brk=None):
        self.exit, self.end, self.raise_, self.bind, self.brk = exit_, end, raise_, bind, brk


def reindent(text, ind):
    """the block `text` shifted so that its least indented line starts at column 2 * ind (Lean wants the right-hand side
    of a match alternative at or right of its `|`)"""
    lines = text.split("\n")
    lead = [len(l) - len(l.lstrip(" ")) for l in lines if l.strip()]
    if not lead:
        return text
    shift = 2 * ind - min(lead)
    if shift == 0:
        return text
    out = []
    for l in lines:
        if not l.strip():
            out.append(l)
        elif shift > 0:
            out.append(" " * shift + l)
        else:
            out.append(l[min(-shift, len(l) - len(l.lstrip(" "))):])
    return "\n".join(out)


def _fold(text):
    """truth value of a translated condition that is a literal, else None"""
    t = text.strip()
    for _ in range(6):
        if t.startswith("(") and t.endswith(")") and t[1:-1].strip() in ("true", "false", "!true", "!false"):
            t = t[1:-1].strip()
        if t == "!true":
            t = "false"
        if t == "!false":
            t = "true"
    return True if t == "true" else False if t == "false" else None


BOOLISH = (ast.Compare, ast.BoolOp)


class Translator16(P.Translator2):
    def __init__(self, rules):
        P.Translator2.__init__(self, rules)
        self._frames = []      # pending hoisted binds, one list per statement being translated
        self._lazy = 0         # > 0 while translating a sub-expression Python evaluates lazily / repeatedly
        self._n = 0
        self._bind_seen = False
        self._globals = {}
        self._pkg = None
        self._inlining = []

    # ------------------------------------------------------------------------------------------ expressions
    def lazily(self, f, *a):
        self._lazy += 1
        try:
            return f(*a)
        finally:
            self._lazy -= 1

    def expr(self, node, scope):
        if (isinstance(node, ast.Compare) and len(node.ops) == 1 and isinstance(node.ops[0], ast.In)
                and isinstance(node.comparators[0], (ast.Tuple, ast.List)) and node.comparators[0].elts
                and all(isinstance(e, ast.Constant) for e in node.comparators[0].elts)):
            a = self.pure(node.left, scope)
            return "(" + " || ".join("(%s == %s)" % (a, self.pure(e, scope)) for e in node.comparators[0].elts) + ")", "bool"
        for i, (pat, tmpl, flag) in enumerate(self.r.expr):
            env = {}
            if match(pat, node, env):
                self.used_rules.add(i)
                return tmpl.format(**{k: self.pure(v, scope) for k, v in env.items()}), flag
        if isinstance(node, ast.JoinedStr):
            # an f-string is the same word as the `"…{}…".format(args)` it abbreviates
            tmpl, args = "", []
            for v in node.values:
                if isinstance(v, ast.Constant) and isinstance(v.value, str):
                    tmpl += v.value.replace("{", "{{").replace("}", "}}")
                elif isinstance(v, ast.FormattedValue) and v.conversion == -1 and v.format_spec is None:
                    tmpl += "{}"
                    args.append(v.value)
                else:
                    raise Untranslatable("f-string with a conversion / format spec: `%s`" % ast.unparse(node))
            call = ast.Call(func=ast.Attribute(value=ast.Constant(value=tmpl), attr="format", ctx=ast.Load()),
                            args=args, keywords=[])
            return self.expr(call, scope)
        fn = self.inlinable(node, scope)
        if fn is not None:
            return self.hoist_inline(node, fn, scope), ""
        if isinstance(node, ast.BoolOp):
            op = " && " if isinstance(node.op, ast.And) else " || "
            parts = [self.cond(node.values[0], scope)] + [self.lazily(self.cond, v, scope) for v in node.values[1:]]
            return "(" + op.join(parts) + ")", "bool"
        if isinstance(node, ast.UnaryOp) and isinstance(node.op, ast.Not):
            return "(!" + self.cond(node.operand, scope) + ")", "bool"
        if isinstance(node, ast.IfExp):
            return "(if %s then %s else %s)" % (self.cond(node.test, scope), self.lazily(self.pure, node.body, scope),
                                                self.lazily(self.pure, node.orelse, scope)), ""
        if (isinstance(node, ast.Compare) and len(node.ops) == 1 and isinstance(node.ops[0], (ast.Is, ast.IsNot))
                and isinstance(node.comparators[0], ast.Constant) and node.comparators[0].value is None):
            x = self.pure(node.left, scope)
            neg = isinstance(node.ops[0], ast.IsNot)
            if x == "none":
                return ("false" if neg else "true"), "bool"
            if x.startswith("(some "):
                return ("true" if neg else "false"), "bool"
            return "(%s).%s" % (x, "isSome" if neg else "isNone"), "bool"
        if isinstance(node, ast.Compare) and len(node.ops) == 1 and isinstance(node.ops[0], ast.NotIn):
            pos = ast.Compare(left=node.left, ops=[ast.In()], comparators=node.comparators)
            return "(!" + self.cond(pos, scope) + ")", "bool"
        if isinstance(node, ast.Compare):
            return P.Translator2.expr(self, node, scope)[0], "bool"
        if isinstance(node, (ast.ListComp, ast.GeneratorExp)) or (
                isinstance(node, ast.Call) and isinstance(node.func, ast.Name) and node.func.id in ("any", "all")):
            return self.lazily(P.Translator2.expr, self, node, scope)
        if isinstance(node, ast.Constant) and isinstance(node.value, bool):
            return ("true" if node.value else "false"), "bool"
        if isinstance(node, ast.Constant) and isinstance(node.value, str):
            return "()", ""
        return P.Translator2.expr(self, node, scope)

    def pure(self, node, scope):
        e, flag = self.expr(node, scope)
        if "bind" in flag:
            return self.hoist(e, node, "safe" in flag)
        return e

    def hoist(self, e, node, safe=False):
        self._bind_seen = True
        if (self._lazy and not safe) or not self._frames:
            raise Untranslatable("monadic operand in a lazily evaluated position: `%s`" % ast.unparse(node))
        tmp = "tmp%d" % self._n
        self._n += 1
        self._frames[-1].append(("bind", e, tmp))
        return tmp

    def inlinable(self, node, scope):
        """the python function a call without a rule refers to, if it is a plain function of the package under translation"""
        if not (isinstance(node, ast.Call) and isinstance(node.func, ast.Name)):
            return None
        name = node.func.id
        if name in scope or name in self.r.names:
            return None
        fn = self._globals.get(name)
        if not isinstance(fn, types.FunctionType) or (fn.__module__ or "").split(".")[0] != self._pkg:
            return None
        if any(isinstance(a, ast.Starred) for a in node.args) or any(k.arg is None for k in node.keywords):
            return None
        return fn

    def hoist_inline(self, node, fn, scope):
        if self._lazy or not self._frames:
            raise Untranslatable("call of the helper `%s` in a lazily evaluated position" % node.func.id)
        if fn.__name__ in self._inlining or len(self._inlining) > 3:
            raise Untranslatable("recursive helper `%s`" % fn.__name__)
        fnode, _src = P.source_ast(fn)
        a = fnode.args
        if a.vararg or a.kwarg or a.kwonlyargs or a.posonlyargs:
            raise Untranslatable("signature of the helper `%s`" % fn.__name__)
        params = [x.arg for x in a.args]
        given = {}
        for p, arg in zip(params, node.args):
            given[p] = self.pure(arg, scope)
        if len(node.args) > len(params):
            raise Untranslatable("too many arguments for the helper `%s`" % fn.__name__)
        for k in node.keywords:
            if k.arg not in params or k.arg in given:
                raise Untranslatable("keyword %r of the helper `%s`" % (k.arg, fn.__name__))
            given[k.arg] = self.pure(k.value, scope)
        for p, d in zip(params[len(params) - len(a.defaults):], a.defaults):
            if p not in given:
                given[p] = self.pure(d, {})
        missing = [p for p in params if p not in given]
        if missing:
            raise Untranslatable("helper `%s`: no value for %s" % (fn.__name__, missing))
        tmp = "tmp%d" % self._n
        self._n += 1
        self._frames[-1].append(("inline", (fn, fnode, params, given), tmp))
        return tmp

    def inline_call(self, what, tmp, k, scope, ind, ctx):
        """the body of the helper with its parameters let-bound; every `return e` continues with `let tmp := e` and the
        text `k` of the caller's statement and what follows it"""
        fn, fnode, params, given = what
        pad = "  " * ind
        sc = {}
        for j, v in enumerate(scope.values()):          # reserve the caller's names
            sc["\0caller%d" % j] = v
        sc["\0tmp" + tmp] = tmp
        lines = ""
        for p in params:
            new = self.fresh(p, sc)
            sc[p] = new
            lines += "%slet %s := %s\n" % (pad, new, given[p])

        def i_exit(v, s_, i):
            # the caller's scope: its loop state is made of the caller's names
            return ctx.bind(v, tmp, reindent(k, i + 1), scope, i)

        def i_pure(e, s_, i):
            return "%slet %s := %s\n%s" % ("  " * i, tmp, e, reindent(k, i))

        inner = _C(i_exit, lambda s_, i: i_pure("none", s_, i), lambda x, s_, i: ctx.raise_(x, scope, i),
                   lambda m, x, kk, s_, i: ctx.bind(m, x, kk, scope, i))
        inner.exit_pure = i_pure
        saved_globals, saved_pkg = self._globals, self._pkg
        self._globals = fn.__globals__
        self._inlining.append(fn.__name__)
        try:
            body = self.block(list(fnode.body), sc, ind, inner)
        finally:
            self._inlining.pop()
            self._globals, self._pkg = saved_globals, saved_pkg
        return lines + body

    def function(self, fn, arg_names, ind=2, allow_unused=()):
        self._globals = getattr(fn, "__globals__", {}) or {}
        self._pkg = (getattr(fn, "__module__", "") or "").split(".")[0]
        self._inlining = []
        return P.Translator2.function(self, fn, arg_names, ind, allow_unused)

    def cond(self, node, scope):
        """translation in a Boolean context (truthiness of anything that is not syntactically a Boolean)"""
        e, flag = self.expr(node, scope)
        if "bind" in flag:
            e = self.hoist(e, node, "safe" in flag)
        if "bool" in flag or e.strip() in ("true", "false"):
            return e
        return "(PyX.truthy %s)" % e

    # ------------------------------------------------------------------------------------------ statements
    def assigned_names(self, stmts, all_=False):
        """names (re)bound by the statements (loop bodies, if arms, with / try bodies included), sorted"""
        out = set()

        def tgt(t):
            if isinstance(t, ast.Name):
                out.add(t.id)
            elif isinstance(t, (ast.Tuple, ast.List)):
                for e in t.elts:
                    tgt(e)

        def walk(sts):
            for st in sts:
                hit = False
                for pat in self.r.drop:
                    if match(pat, st, {}):
                        hit = True
                for pat, binds, _mon in self.r.multi:
                    env = {}
                    if not hit and match(pat, st, env):
                        for mv, _t in binds:
                            if isinstance(env[mv], ast.Name):
                                out.add(env[mv].id)
                        hit = True
                for pat, recv, _t in self.r.stmt:
                    env = {}
                    if not hit and match(pat, st, env):
                        if isinstance(env[recv], ast.Name):
                            out.add(env[recv].id)
                        hit = True
                if hit:
                    continue
                if isinstance(st, ast.Assign):
                    for t in st.targets:
                        tgt(t)
                elif isinstance(st, ast.AugAssign):
                    tgt(st.target)
                elif isinstance(st, ast.If):
                    walk(st.body)
                    walk(st.orelse)
                elif isinstance(st, (ast.For, ast.While)):
                    if isinstance(st, ast.For):
                        tgt(st.target)
                    walk(st.body)
                elif isinstance(st, ast.With):
                    for it in st.items:
                        if it.optional_vars is not None:
                            tgt(it.optional_vars)
                    walk(st.body)
                elif isinstance(st, ast.Try):
                    walk(st.body)
                    for h in st.handlers:
                        walk(h.body)
                elif isinstance(st, (ast.FunctionDef, ast.ClassDef)):
                    raise Untranslatable("statement form `%s`" % ast.unparse(st).splitlines()[0])
        walk(stmts)
        return sorted(out)

    @staticmethod
    def _has(stmts, kinds, into_loops):
        for st in stmts:
            if isinstance(st, kinds):
                return True
            if isinstance(st, ast.If) and (Translator16._has(st.body, kinds, into_loops) or
                                           Translator16._has(st.orelse, kinds, into_loops)):
                return True
            if isinstance(st, (ast.For, ast.While)) and into_loops and Translator16._has(st.body, kinds, into_loops):
                return True
            if isinstance(st, ast.With) and Translator16._has(st.body, kinds, into_loops):
                return True
            if isinstance(st, ast.Try) and (Translator16._has(st.body, kinds, into_loops) or any(
                    Translator16._has(h.body, kinds, into_loops) for h in st.handlers)):
                return True
        return False

    def exc_value(self, st):
        exc = st.exc
        if exc is None:
            raise Untranslatable("bare raise")
        if isinstance(exc, ast.Call):
            exc = exc.func
        name = exc.id if isinstance(exc, ast.Name) else exc.attr if isinstance(exc, ast.Attribute) else None
        if name not in self.r.exc:
            raise Untranslatable("raise of %r" % name)
        return self.r.exc[name]

    def block(self, stmts, scope, ind, ctx):
        self._frames.append([])
        try:
            text = self._block1(stmts, scope, ind, ctx)
        finally:
            pend = self._frames.pop()
        for e, what, tmp in reversed(pend):
            if e == "inline":
                text = self.inline_call(what, tmp, text, scope, ind, ctx)
            else:
                text = ctx.bind(what, tmp, text, scope, ind)
        return text

    def _block1(self, stmts, scope, ind, ctx):
        pad = "  " * ind
        if not stmts:
            return ctx.end(scope, ind)
        st, rest = stmts[0], stmts[1:]
        if isinstance(st, ast.Expr) and isinstance(st.value, ast.Constant) and isinstance(st.value.value, str):
            return self._block1(rest, scope, ind, ctx)
        if isinstance(st, (ast.Pass, ast.Import, ast.ImportFrom)):
            return self._block1(rest, scope, ind, ctx)
        for pat in self.r.drop:
            if match(pat, st, {}):
                return self._block1(rest, scope, ind, ctx)
        if isinstance(st, ast.If):
            c = self.cond(st.test, scope)
            v = _fold(c)
            if v is not None:
                return self.block(list(st.body if v else st.orelse) + rest, dict(scope), ind, ctx)
            a = self.block(list(st.body) + rest, dict(scope), ind + 1, ctx)
            b = self.block(list(st.orelse) + rest, dict(scope), ind + 1, ctx)
            return "%sif %s then\n%s\n%selse\n%s" % (pad, c, a, pad, b)
        if isinstance(st, ast.Assert):
            c = self.cond(st.test, scope)
            a = self.block(rest, dict(scope), ind + 1, ctx)
            if "AssertionError" not in self.r.exc:
                raise Untranslatable("assert")
            b = ctx.raise_(self.r.exc["AssertionError"], scope, ind + 1)
            return "%sif %s then\n%s\n%selse\n%s" % (pad, c, a, pad, b)
        if isinstance(st, ast.Return):
            if st.value is None:
                if self.r.end is None:
                    raise Untranslatable("bare return")
                return ctx.exit(self.r.end, scope, ind)
            e, flag = self.expr(st.value, scope)
            if "bind" in flag:
                self._bind_seen = True
                return ctx.exit(e, scope, ind)
            if getattr(ctx, "exit_pure", None) is not None:      # a try body: the returned value itself is wanted
                return ctx.exit_pure(e, scope, ind)
            return ctx.exit(self.r.ret.format(e=e), scope, ind)
        if isinstance(st, ast.Raise):
            return ctx.raise_(self.exc_value(st), scope, ind)
        if isinstance(st, ast.Continue):
            if ctx.brk is None:
                raise Untranslatable("continue outside a loop")
            return ctx.end(scope, ind)
        if isinstance(st, ast.Break):
            if ctx.brk is None:
                raise Untranslatable("break outside a loop")
            return ctx.brk(scope, ind)
        for pat, binds, mon in self.r.multi:
            env = {}
            if match(pat, st, env):
                vals = {k: self.pure(v, scope) for k, v in env.items() if k not in [b[0] for b in binds]
                        or isinstance(v, ast.Name) and v.id in scope}
                sc = dict(scope)
                lines = []
                ind2 = ind
                if mon is not None:          # the statement's value is computed in the monad first ({_} in the templates)
                    self._bind_seen = True
                    tmp = "tmp%d" % self._n
                    self._n += 1
                    vals["_"] = tmp
                    ind2 = ind + 1
                pad2 = "  " * ind2
                for mv, tmpl in binds:
                    target = env[mv]
                    if not isinstance(target, ast.Name):
                        raise Untranslatable("statement rebinding a non-variable: `%s`" % ast.unparse(st))
                    new = self.fresh(target.id, sc)
                    lines.append("%slet %s := %s\n" % (pad2, new, tmpl.format(**vals)))
                    sc[target.id] = new
                k = "".join(lines) + self.block(rest, sc, ind2, ctx)
                if mon is not None:
                    return ctx.bind(mon.format(**vals), vals["_"], k, scope, ind)
                return k
        for i, (pat, recv, tmpl) in enumerate(self.r.stmt):
            env = {}
            if match(pat, st, env):
                self.used_rules.add(("s", i))
                target = env[recv]
                if not isinstance(target, ast.Name):
                    raise Untranslatable("in-place statement on a non-variable: `%s`" % ast.unparse(st))
                val = tmpl.format(**{k: self.pure(v, scope) for k, v in env.items()})
                new = self.fresh(target.id, scope)
                sc = dict(scope)
                sc[target.id] = new
                if "bind" in self.r.stmt_flag[i]:
                    self._bind_seen = True
                    return ctx.bind(val, new, self.block(rest, sc, ind + 1, ctx), scope, ind)
                return "%slet %s := %s\n%s" % (pad, new, val, self.block(rest, sc, ind, ctx))
        if isinstance(st, ast.AugAssign) and isinstance(st.target, ast.Name):
            st = ast.Assign(targets=[ast.Name(id=st.target.id, ctx=ast.Store())],
                            value=ast.BinOp(left=ast.Name(id=st.target.id, ctx=ast.Load()), op=st.op, right=st.value))
        if isinstance(st, ast.Assign) and len(st.targets) == 1:
            e, flag = self.expr(st.value, scope)
            tgt = st.targets[0]
            if "bind" in flag:
                self._bind_seen = True
                if isinstance(tgt, ast.Name):
                    new = self.fresh(tgt.id, scope)
                    sc = dict(scope)
                    sc[tgt.id] = new
                    return ctx.bind(e, new, self.block(rest, sc, ind + 1, ctx), scope, ind)
                tmp = "tmp%d" % self._n
                self._n += 1
                lines, sc = self.bind_target(tgt, tmp, scope)
                k = "".join("  " * (ind + 1) + l + "\n" for l in lines) + self.block(rest, sc, ind + 1, ctx)
                return ctx.bind(e, tmp, k, scope, ind)
            lines, sc = self.bind_target(tgt, e, scope)
            return "".join(pad + l + "\n" for l in lines) + self.block(rest, sc, ind, ctx)
        if isinstance(st, ast.Expr):
            e, flag = self.expr(st.value, scope)
            if "bind" in flag:
                self._bind_seen = True
                return ctx.bind(e, "_", self.block(rest, scope, ind + 1, ctx), scope, ind)
            return self._block1(rest, scope, ind, ctx)
        if isinstance(st, ast.For):
            return self.loop16(st, rest, scope, ind, ctx, False)
        if isinstance(st, ast.While):
            return self.loop16(st, rest, scope, ind, ctx, True)
        if isinstance(st, ast.With):
            return self.with_(st, rest, scope, ind, ctx)
        if isinstance(st, ast.Try):
            return self.try_(st, rest, scope, ind, ctx)
        raise Untranslatable("no rule for statement `%s`" % ast.unparse(st).splitlines()[0])

    # ---------------------------------------------------------------------------------------------- with
    def with_(self, st, rest, scope, ind, ctx):
        pad = "  " * ind
        if len(st.items) != 1:
            raise Untranslatable("with several context managers")
        item = st.items[0]
        for pat, tmpl, flag in self.r.withs:
            env = {}
            if match(pat, item.context_expr, env):
                val = tmpl.format(**{k: self.pure(v, scope) for k, v in env.items()})
                sc = dict(scope)
                new = "_"
                if item.optional_vars is not None:
                    if not isinstance(item.optional_vars, ast.Name):
                        raise Untranslatable("with .. as <pattern>")
                    new = self.fresh(item.optional_vars.id, scope)
                    sc[item.optional_vars.id] = new
                if "bind" in flag:
                    self._bind_seen = True
                    return ctx.bind(val, new, self.block(list(st.body) + rest, sc, ind + 1, ctx), scope, ind)
                return "%slet %s := %s\n%s" % (pad, new, val, self.block(list(st.body) + rest, sc, ind, ctx))
        raise Untranslatable("no rule for the context manager `%s`" % ast.unparse(item.context_expr))

    # ---------------------------------------------------------------------------------------------- try
    def try_(self, st, rest, scope, ind, ctx):
        pad = "  " * ind
        if st.finalbody or st.orelse:
            raise Untranslatable("try with else / finally")
        names = self.assigned_names(st.body)
        if any(n in scope for n in names):
            raise Untranslatable("try body rebinds %s (the handlers are translated in the scope at the entry)" %
                                 [n for n in names if n in scope])
        has_ret = self._has(st.body, (ast.Return,), True)
        R = self.r

        def state(sc):
            try:
                return _tuple([sc[n] for n in names]) if names else "()"
            except KeyError as e:
                raise Untranslatable("try body: %s is not bound on every path" % e)

        def t_end(sc, i):
            s = state(sc)
            return "  " * i + R.pure_tmpl.format(e=("PyX.TryOut.fell %s" % s) if has_ret else s)

        def t_exit(v, sc, i):
            return "  " * i + R.bind.format(m=v, x="r_", k=R.pure_tmpl.format(e="PyX.TryOut.ret r_"))

        def t_raise(x, sc, i):
            return "  " * i + R.raise_tmpl.format(x=x)

        def t_bind(m, x, k, sc, i):
            return "  " * i + R.bind.format(m=m, x=x, k=k)

        inner = _C(t_exit, t_end, t_raise, t_bind)
        inner.exit_pure = lambda e, sc, i: "  " * i + R.pure_tmpl.format(e="PyX.TryOut.ret (%s)" % e)
        body = self.block(list(st.body), dict(scope), ind + 2, inner)
        # continuation after a body that finished
        after = dict(scope)
        res = self.fresh("s", after)
        after["\0tmp" + res] = res
        lets = ""
        for j, n in enumerate(names):
            new = self.fresh(n, after)
            after[n] = new
            lets += "%slet %s := %s\n" % ("  " * (ind + 2), new, _proj(res, j, len(names)))
        k_ok = lets + self.block(rest, after, ind + 2, ctx)
        if has_ret:
            k_ok = "%smatch o_ with\n%s| .ret r_ => (\n%s)\n%s| .fell %s =>\n%s" % (
                "  " * (ind + 2), "  " * (ind + 2), ctx.exit(R.ret.format(e="r_"), scope, ind + 3), "  " * (ind + 2), res, k_ok)
            okv = "(o_ : PyX.TryOut _ Unit)" if not names else "o_"
        else:
            okv = res
        # handlers
        arms = []
        for h in st.handlers:
            if h.type is None:
                tests = None
            else:
                tys = h.type.elts if isinstance(h.type, ast.Tuple) else [h.type]
                nm = [t.id if isinstance(t, ast.Name) else t.attr if isinstance(t, ast.Attribute) else None for t in tys]
                if any(n == "Exception" or n == "BaseException" for n in nm):
                    tests = None
                else:
                    caught = []
                    for n in nm:
                        hit = [x for x in R.exc if x == n or n in R.exc_parents.get(x, [])]
                        if not hit:
                            raise Untranslatable("except %r" % n)
                        caught += [x for x in hit if x not in caught]
                    tests = " || ".join("e_ == %s" % R.exc[x] for x in caught)
            sc = dict(scope)
            sc["\0tmpe_"] = "e_"
            if h.name:
                sc[h.name] = "e_"
            arms.append((tests, self.block(list(h.body) + rest, sc, ind + 3, ctx)))
            if tests is None:
                break
        err = ""
        closed = False
        for tests, text in arms:
            if tests is None:
                err += "%s\n" % text
                closed = True
                break
            err += "%sif %s then\n%s\n%selse\n" % ("  " * (ind + 2), tests, text, "  " * (ind + 2))
        if not closed:
            err += ctx.raise_("e_", scope, ind + 3)
        return "%s%s (\n%s)\n%s(fun %s =>\n%s)\n%s(fun e_ =>\n%s)" % (
            pad, R.try_fn, body, "  " * (ind + 1), okv, k_ok, "  " * (ind + 1), err.rstrip("\n"))

    # ---------------------------------------------------------------------------------------------- loops
    def loop16(self, st, rest, scope, ind, ctx, is_while):
        saved = self._bind_seen
        self._bind_seen = False
        n0 = self._n
        text = self._loop(st, rest, scope, ind, ctx, is_while, force_exit=False)
        if text is None:          # a bind occurred in a body that was laid out without an exit component
            self._n = n0
            text = self._loop(st, rest, scope, ind, ctx, is_while, force_exit=True)
        self._bind_seen = self._bind_seen or saved
        return text

    def _loop(self, st, rest, scope, ind, ctx, is_while, force_exit):
        pad = "  " * ind
        R = self.r
        if st.orelse:
            raise Untranslatable("loop with else")
        if is_while and R.fuel is None:
            raise Untranslatable("while loop in a function without a fuel bound")
        it = None if is_while else self.pure(st.iter, scope)
        carried = [n for n in self.assigned_names(st.body) if n in scope]
        has_exit = force_exit or self._has(st.body, (ast.Return, ast.Raise, ast.Assert), True)
        has_brk = self._has(st.body, (ast.Break,), False)
        comps = (["\0ret"] if has_exit else []) + (["\0brk"] if has_brk else []) + carried
        if not comps:
            raise Untranslatable("loop without any effect on the variables in scope: `%s`" % ast.unparse(st).splitlines()[0])
        n = len(comps)
        sc0 = dict(scope)
        acc = self.fresh("acc", sc0)
        sc0["\0tmp" + acc] = acc
        item = self.fresh("it", sc0)
        sc0["\0tmp" + item] = item
        lines, sc = [], dict(sc0)
        for c in carried:
            new = self.fresh(c, sc)
            sc[c] = new
            lines.append("let %s := %s" % (new, _proj(acc, comps.index(c), n)))
        sc_head = dict(sc)
        if not is_while:
            tl, sc = self.bind_target(st.target, item, sc)
            lines_body = lines + tl
        else:
            lines_body = list(lines)

        def state(scope_, ret="none", brk="false"):
            parts = []
            if has_exit:
                parts.append(ret)
            if has_brk:
                parts.append(brk)
            parts += [scope_[c] for c in carried]
            return _tuple(parts)

        def l_exit(v, s, i):
            if not has_exit:            # laid out without an exit component: start again with one
                raise _NeedExit()
            return "  " * i + state(s, ret="some (%s)" % v)

        def l_bind(m, x, k, s, i):
            if not has_exit:
                raise _NeedExit()
            return "  " * i + R.bind_exit.format(m=m, x=x, k=reindent(k, i + 2), pad="  " * i,
                                                 fail=l_exit(R.raise_tmpl.format(x="e_"), s, i + 2))

        inner = _C(l_exit, lambda s, i: "  " * i + state(s),
                   lambda x, s, i: l_exit(R.raise_tmpl.format(x=x), s, i), l_bind,
                   brk=lambda s, i: "  " * i + state(s, brk="true"))
        try:
            body = self.block(list(st.body), sc, ind + 2, inner)
        except _NeedExit:
            return None
        p3 = "  " * (ind + 2)
        guard = []
        if has_exit:
            guard.append("(%s).isSome" % _proj(acc, 0, n))
        if has_brk:
            guard.append(_proj(acc, 1 if has_exit else 0, n))
        text = "".join(p3 + l + "\n" for l in lines_body) + body
        res = self.fresh("r", sc0)
        after = dict(scope)
        after["\0tmp" + res] = res
        if is_while:
            c = self.lazily(self.cond, st.test, sc_head)
            ctext = "".join(l + "; " for l in lines) + c
            if guard:
                ctext = "!(%s) && (%s)" % (" || ".join(guard), ctext)
            fuel = R.fuel
            out = "%smatch PyX.whileLoop %s %s (fun %s => %s) (fun %s =>\n%s) with\n%s| none =>\n%s\n%s| some %s =>\n" % (
                pad, fuel, state(scope), acc, ctext, acc, text, pad,
                ctx.exit(R.diverge, scope, ind + 2) if R.diverge is not None else self._no_diverge(), pad, res)
            ind2 = ind + 1
        else:
            if guard:
                text = "%sif %s then %s else\n%s" % (p3, " || ".join(guard), acc, text)
            out = "%slet %s := MenpoModel.Py.forLoop %s (%s) (fun %s %s =>\n%s)\n" % (pad, res, state(scope), it, acc, item, text)
            ind2 = ind
        pad2 = "  " * ind2
        for c in carried:
            new = self.fresh(c, after)
            after[c] = new
            out += "%slet %s := %s\n" % (pad2, new, _proj(res, comps.index(c), n))
        k = self.block(rest, after, ind2 + (1 if has_exit else 0), ctx)
        if has_exit:
            v = self.fresh("v", after)
            sc_v = dict(after)
            sc_v["\0tmp" + v] = v
            # the first arm is parenthesised: it may end in a `match` of its own (an inlined helper, a bind)
            return "%s%smatch %s with\n%s| some %s => (\n%s)\n%s| none =>\n%s" % (
                out, pad2, _proj(res, 0, n), pad2, v, ctx.exit(v, sc_v, ind2 + 2), pad2, k)
        return out + k

    @staticmethod
    def _no_diverge():
        raise Untranslatable("while loop in a function without a value for running out of fuel")

    @staticmethod
    def fresh(name, scope):
        base = name.replace("_", "") or "u"
        used = set(scope.values())
        k, cand = 0, base + "0"
        while cand in used:
            k += 1
            cand = "%s%d" % (base, k)
        return cand

    # ---------------------------------------------------------------------------------------------- top level
    def top_ctx(self):
        R = self.r

        def end(scope, ind):
            if R.end is None:
                raise Untranslatable("control reaches the end of the function without return/raise")
            if "{" not in R.end:
                return "  " * ind + R.end
            try:
                return "  " * ind + R.end.format(**{k: v for k, v in scope.items() if k.isidentifier()})
            except (KeyError, IndexError) as e:
                raise Untranslatable("end of the function: no variable %s" % e)

        def bind(m, x, k, scope, ind):
            return "  " * ind + R.bind.format(m=m, x=x, k=k)

        return _C(lambda v, s, i: "  " * i + v, end, lambda x, s, i: "  " * i + R.raise_tmpl.format(x=x), bind)


class _NeedExit(Exception):
    pass


# =====================================================================================================================
# The C16 vocabulary
# =====================================================================================================================

GEN_DIR = os.path.join("MenpoModel", "Generated")
EXC = {"ValueError": "Exc.valueError", "OverwriteError": "Exc.overwriteError", "AttributeError": "Exc.attributeError",
       "KeyError": "Exc.keyError", "IndexError": "Exc.indexError", "TypeError": "Exc.typeError"}
TBL = "List (String × String)"

HEADER = """/- TRANSLATED by harness/trans_c16.py (harness/py2lean2.py) from the SOURCE TEXT of %s
   of the current working tree on every run of `./check C16`; do not edit.
   %s proves every definition equal to its specification in Core/C16Src*.lean. -/
%s
set_option linter.unusedVariables false

namespace MenpoModel.Generated.C16
open MenpoModel.C16 MenpoModel.C16.PyX

"""
FOOTER = "end MenpoModel.Generated.C16\n"


def E(**kw):
    """rules of a function that computes in `Except Exc`"""
    kw.setdefault("ret", ".ok ({e})")
    kw.setdefault("exc", EXC)
    kw.setdefault("raise_tmpl", ".error {x}")
    kw.setdefault("pure_tmpl", ".ok ({e})")
    kw.setdefault("try_fn", "PyX.tryE")
    kw.setdefault("diverge", ".error Exc.fuel")
    kw.setdefault("bind", "Except.bind ({m}) fun {x} =>\n{k}")     # applied, not dotted: {m} may have a type Lean has not inferred yet
    return Rules16(**kw)


POP = [("$x = $l.pop(0)", [("x", "(({l}).headD none)"), ("l", "(({l}).tail)")])]


def pure_items():
    """[(lean signature, thunk -> body text, stub)] for the functions that only compute"""
    import menpo.io.utils as U
    import menpo.io.output.base as OB
    import menpo.io.input.base as IB

    def f(rules, fn, args, **kw):
        return lambda: Translator16(rules).function(fn, args, ind=1, **kw)

    items = []
    items.append((
        "def genNormalizeExtension (extension : OStr) : Except Exc OStr :=",
        f(E(expr=[('$x[0] != "."', "(firstCharIsNot '.' {x})", "bind bool"), ('"." + $x', "(strPrepend '.' {x})"),
                  ("$x.lower()", "(strLower {x})")]),
          U._normalize_extension, {"extension": "extension"}),
        ".error Exc.fuel"))
    items.append((
        "def genPossibleExts (filepath : Fp) : List OStr :=",
        f(Rules16(expr=[("$x.suffixes", "(Fp.suffixes {x})"), ("len($x)", "({x}).length"), ("range($n)", "(List.range {n})"),
                        ("$x[$i:]", "(({x}).drop {i})"), ('"".join($x)', "(strJoin {x})"), ("$x.lower()", "(strLower {x})")],
                  ret="{e}"),
          U._possible_extensions_from_filepath, {"filepath": "filepath"}),
        "[none]"))
    items.append((
        "def genNormPath (env : Env) (cwd : Path) (filepath : Fp) : Fp :=",
        f(Rules16(expr=[("str($x)", "(Fp.toStr {x})"), ("os.path.expanduser($x)", "(expandUser env {x})"),
                        ("os.path.expandvars($x)", "(expandVars env {x})"), ("os.path.normpath($x)", "(osNormpath {x})"),
                        ("os.path.abspath($x)", "(osAbspath cwd {x})"), ("Path($x)", "(Fp.path {x})")], ret="{e}"),
          U._norm_path, {"filepath": "filepath"}),
        "Fp.str []"))
    items.append((
        "def genParseAndValidate (filepath : Fp) (extension : OStr) (extensionsmap : %s) : Except Exc OStr :=" % TBL,
        f(E(expr=[("_possible_extensions_from_filepath($x)", "(genPossibleExts {x})"),
                  ("$x in $m", "(mapHas {m} {x})", "bool"),
                  ("_normalize_extension($x)", "(genNormalizeExtension {x})", "bind")],
            multi=POP, fuel="((Fp.suffixes filepath).length + 1)"),
          OB._parse_and_validate_extension, {"filepath": "filepath", "extension": "extension", "extensions_map": "extensionsmap"}),
        ".error Exc.fuel"))
    items.append((
        "def genImporterFor (filepath : Fp) (extensionsmap : %s) : Except Exc (Option String) :=" % TBL,
        f(E(expr=[("_possible_extensions_from_filepath($x)", "(genPossibleExts {x})"), ("$m.get($x)", "(mapGet {m} {x})")],
            multi=[("$c = $m.get($l.pop(0))", [("c", "(mapGet {m} (({l}).headD none))"), ("l", "(({l}).tail)")])] + POP,
            fuel="((Fp.suffixes filepath).length + 1)"),
          IB.importer_for_filepath, {"filepath": "filepath", "extensions_map": "extensionsmap"}),
        ".error Exc.fuel"))
    items.append((
        "def genEnforcePaths (filepath : Fp) : Except Exc Fp :=",
        f(E(expr=[('hasattr($x, "name")', "(Fp.hasName {x})", "bool"), ("isinstance($x, Path)", "(Fp.isPath {x})", "bool"),
                  ("isinstance($x, (str, Path))", "(Fp.isStrOrPath {x})", "bool"), ("$x.name", "(Fp.getName {x})", "bind")],
            drop=["warnings.warn($m)"]),
          OB._enforce_only_paths_supported, {"file_path": "filepath", "exporter_name": "()"}),
        ".error Exc.fuel"))
    return items


PURE_REL = os.path.join(GEN_DIR, "C16SrcPure.lean")
PURE_TARGETS = ["MenpoModel.Generated.C16SrcPure", "MenpoModel.GenProps.C16SrcPure"]


def pure_text():
    return P.translate_or_stub(
        pure_items(),
        HEADER % ("menpo.io.utils._normalize_extension / _possible_extensions_from_filepath / _norm_path,\n"
                  "   menpo.io.output.base._parse_and_validate_extension / _enforce_only_paths_supported and\n"
                  "   menpo.io.input.base.importer_for_filepath",
                  "GenProps/C16SrcPure.lean", "import MenpoModel.Core.C16Src"), FOOTER)



# ---------------------------------------------------------------------------------------------------------------------
# the functions that touch the file system (monad `IOx` = PyX.W FSb Exc)

def Wr(**kw):
    kw.setdefault("ret", "W.pure ({e})")
    kw.setdefault("end", "W.pure ()")
    kw.setdefault("exc", EXC)
    kw.setdefault("raise_tmpl", "W.throw {x}")
    kw.setdefault("pure_tmpl", "W.pure ({e})")
    kw.setdefault("try_fn", "W.tryW")
    kw.setdefault("diverge", "W.throw Exc.fuel")
    kw.setdefault("bind", "W.bind ({m}) fun {x} =>\n{k}")
    return Rules16(**kw)


ISINST = [("isinstance($x, str)", "(Fp.isStr {x})", "bool"), ("isinstance($x, Path)", "(Fp.isPath {x})", "bool"),
          ("isinstance($x, (str, Path))", "(Fp.isStrOrPath {x})", "bool"), ("Path($x)", "(Fp.toPath {x})")]
CALLS = [
    ("_norm_path($x)", "(genNormPath env cwd {x})"),
    ("_validate_filepath($f, $o)", "(genValidateFilepath env cwd {f} {o})", "bind"),
    ("_parse_and_validate_extension($f, $e, $m)", "(W.lift (genParseAndValidate {f} {e} {m}))", "bind"),
    ("_extension_to_export_function($e, $m)", "(W.lift (genExtToFunc {e} {m}))", "bind"),
    ("_normalize_extension($x)", "(W.lift (genNormalizeExtension {x}))", "bind"),
    ("_validate_and_get_export_func($f, $m, $e, $o, return_extension=True)", "(genValidateAndGetT env cwd {f} {m} {e} {o})", "bind"),
    ("_validate_and_get_export_func($f, $m, $e, $o)", "(genValidateAndGetF env cwd {f} {m} {e} {o})", "bind"),
    ("_export($o, $f, $m, $e, $w, exporter_kwargs=$k)", "(genExport env cwd {o} {f} {m} {e} {w} (some {k}))", "bind"),
    ("_export($o, $f, $m, $e, $w)", "(genExport env cwd {o} {f} {m} {e} {w} none)", "bind"),
    ("_export_paths_only($o, $f, $m, $e, $w, exporter_kwargs=$k)", "(genExportPathsOnly env cwd {o} {f} {m} {e} {w} (some {k}))", "bind"),
    ("_enforce_only_paths_supported($f, $n)", "(W.lift (genEnforcePaths {f}))", "bind"),
]
TABLES = {"landmark_types": "landmarkTypes", "image_types": "imageTypes", "pickle_types": "pickleTypes",
          "video_types": "videoTypes", "gzip_open": "Opener.gzip", "open": "Opener.plain"}
ENVCWD = "(env : Env) (cwd : Path)"


def io_items():
    import menpo.io.output.base as OB

    def f(rules, fn, args, **kw):
        return lambda: Translator16(rules).function(fn, args, ind=1, **kw)

    STUB = "W.throw Exc.fuel"
    items = []
    items.append((
        "def genValidateFilepath %s (fp : Fp) (overwrite : Bool) : IOx Fp :=" % ENVCWD,
        f(Wr(expr=CALLS + [("$p.exists()", "(fpExists cwd {p})", "bind bool safe")]), OB._validate_filepath,
          {"fp": "fp", "overwrite": "overwrite"}), STUB))
    items.append((
        "def genExtToFunc (extension : OStr) (extensionsmap : %s) : Except Exc (Option String) :=" % TBL,
        f(E(expr=[("$m[$x]", "(mapIndex {m} {x})", "bind")], end=".ok none"), OB._extension_to_export_function,
          {"extension": "extension", "extensions_map": "extensionsmap"}), ".error Exc.fuel"))
    for tag, lit, ty in (("T", "true", "(Option String × OStr)"), ("F", "false", "(Option String)")):
        items.append((
            "def genValidateAndGet%s %s (filepath : Fp) (extensionsmap : %s) (extension : OStr) (overwrite : Bool) : IOx %s :=" % (
                tag, ENVCWD, TBL, ty),
            f(Wr(expr=ISINST + CALLS), OB._validate_and_get_export_func,
              {"file_path": "filepath", "extensions_map": "extensionsmap", "extension": "extension",
               "overwrite": "overwrite", "return_extension": lit}), STUB))
    export_rules = dict(
        expr=ISINST + CALLS + [
            ("$x.name", "(W.lift (Fp.getName {x}))", "bind"),
            ("$f($o, $h, extension=$e, **$k)", "(callExporter {f} {o} {h} {e} (({k}).getD []))", "bind"),
            ("$f($o, $t, **$k)", "(callExporterAt cwd {f} {o} {t} (({k}).getD []))", "bind"),
            ("{}", "(some [])")],
        withs=[('$p.open("wb")', "(fpOpenWb cwd {p})", "bind")])
    sig = "%s (obj : ExObj) (fp : Fp) (extensionsmap : %s) (extension : OStr) (overwrite : Bool) (exporterkwargs : Option Kw) : IOx Unit :=" % (ENVCWD, TBL)
    items.append(("def genExport " + sig,
                  f(Wr(**export_rules), OB._export,
                    {"obj": "obj", "fp": "fp", "extensions_map": "extensionsmap", "extension": "extension",
                     "overwrite": "overwrite", "exporter_kwargs": "exporterkwargs"}), STUB))
    items.append(("def genExportPathsOnly " + sig,
                  f(Wr(**export_rules), OB._export_paths_only,
                    {"obj": "obj", "file_path": "fp", "extensions_map": "extensionsmap", "extension": "extension",
                     "overwrite": "overwrite", "exporter_kwargs": "exporterkwargs"}), STUB))
    items.append((
        "def genExportPickle %s (pickleTypes : %s) (obj : ExObj) (fp : Fp) (overwrite : Bool) (protocol : Nat) : IOx Unit :=" % (ENVCWD, TBL),
        f(Wr(expr=ISINST + CALLS + [("$x[-3:]", "(strLast3 {x})"), ('".gz"', '(ostr ".gz")'), ("$x.endswith($s)", "(strEndsWith {x} {s})", "bool"), ('{"protocol": $p}', '[("protocol", {p})]'),
                                   ('".pkl"', '(ostr ".pkl")')],
             withs=[('$o(str($p), "wb")', "(openWith cwd {o} {p})", "bind")], names=TABLES),
          OB.export_pickle, {"obj": "obj", "fp": "fp", "overwrite": "overwrite", "protocol": "protocol"}), STUB))
    items.append((
        "def genExportLandmarkFile %s (landmarkTypes : %s) (landmarksobject : ExObj) (fp : Fp) (extension : OStr) (overwrite : Bool) : IOx Unit :=" % (ENVCWD, TBL),
        f(Wr(expr=[("Path($x).suffix", "(Fp.suffix (Fp.toPath {x}))")] + ISINST + CALLS + [
            ("$x.n_points", "(W.lift (ExObj.nPoints {x}))", "bind"), ('".ljson"', '(ostr ".ljson")')], names=TABLES),
          OB.export_landmark_file, {"landmarks_object": "landmarksobject", "fp": "fp", "extension": "extension",
                                    "overwrite": "overwrite"}), STUB))
    items.append((
        "def genExportImage %s (imageTypes : %s) (image : ExObj) (fp : Fp) (extension : OStr) (overwrite : Bool) : IOx Unit :=" % (ENVCWD, TBL),
        f(Wr(expr=ISINST + CALLS, names=TABLES), OB.export_image,
          {"image": "image", "fp": "fp", "extension": "extension", "overwrite": "overwrite"}), STUB))
    items.append((
        "def genExportVideo %s (videoTypes : %s) (images : ExObj) (filepath : Fp) (overwrite : Bool) (fps : Nat) (kwargs : Kw) : IOx Unit :=" % (ENVCWD, TBL),
        f(Wr(expr=ISINST + CALLS + [('{"fps": $p}', '[("fps", {p})]')], stmt=[("$d.update($k)", "d", "({d} ++ {k})")],
             names=TABLES),
          OB.export_video, {"images": "images", "file_path": "filepath", "overwrite": "overwrite", "fps": "fps",
                            "kwargs": "kwargs"}), STUB))
    return items


IO_REL = os.path.join(GEN_DIR, "C16SrcIO.lean")
IO_TARGETS = ["MenpoModel.Generated.C16SrcIO", "MenpoModel.GenProps.C16SrcIO"]


def io_text():
    return P.translate_or_stub(
        io_items(),
        HEADER % ("menpo.io.output.base._validate_filepath / _extension_to_export_function /\n"
                  "   _validate_and_get_export_func (once per value of return_extension) / _export / _export_paths_only /\n"
                  "   export_pickle / export_landmark_file / export_image / export_video",
                  "GenProps/C16SrcIO.lean", "import MenpoModel.Core.C16SrcIO\nimport MenpoModel.Generated.C16SrcPure"), FOOTER)



# ---------------------------------------------------------------------------------------------------------------------
# landmark writers / readers and the pixel-range conversions

def fmt_items():
    import menpo.io.output.landmark as OL
    import menpo.io.input.landmark as IL
    import menpo.image.base as IMB

    def f(rules, fn, args, **kw):
        return lambda: Translator16(rules).function(fn, args, ind=1, **kw)

    STUB = ".error Exc.fuel"
    items = []
    items.append((
        "def genLjsonExporter (landmarksobject : LObj) : Except Exc Json :=",
        f(E(expr=[("$x.n_points", "(LObj.nPoints {x})", "bind"), ('hasattr($x, "n_points")', "(LObj.hasNPoints {x})", "bool"),
                  ('{"LJSON": $x}', "(LObj.wrap {x})"), ("$f[$a::$n]", "(strideFrom {f} {a} {n})"),
                  ("range($n)", "(List.range {n})"), ("list(zip(*$p))", "(transposeRows {p})"),
                  ('{"version": $v}', "(LDoc.mk {v} [])"), ("{}", "([] : List (String × LG))"),
                  ("$d.items()", "(LObj.items {d})"), ("$p.tojson()", "(tojson {p})"),
                  ('$j["landmarks"]["points"]', "({j}).points"), ("len($p[0])", "(rowLen0 {p})", "bind"),
                  ("itertools.chain(*$p)", "(List.flatten {p})"), ("np.isnan($x)", "(({x}).isNone)", "bool"),
                  ("$f[::$n]", "(strideFrom {f} 0 {n})"),
                  ("list(zip($a, $b))", "(transposeRows [{a}, {b}])"),
                  ("list(zip($a, $b, $c))", "(transposeRows [{a}, {b}, {c}])"),
                  ("[]", "([] : List (List (Option Rat)))"),
                  ('json.dump($j, $h, indent=4, separators=(",", ": "), sort_keys=True, allow_nan=False, cls=_UTF8Encoder)',
                   "(dumpDoc {j})")],
            stmt=[('$j["landmarks"]["points"] = $v', "j", "({{ {j} with points := {v} }} : LG)"),
                  ('$d["groups"] = $g', "d", "({{ {d} with groups := {g} }} : LDoc)"),
                  ("$g[$k] = $v", "g", "(dictSet {g} {k} {v})")]),
          OL.ljson_exporter, {"landmarks_object": "landmarksobject", "file_handle": "()", "kwargs": "()"},
          allow_unused=("kwargs",)), STUB))
    items.append((
        "def genPtsExporter (pointcloud : List (List (Option Rat))) : Except Exc (List PLine) :=",
        f(E(expr=[("$p.points", "{p}"), ("$p[:, [1, 0]] + 1", "(swapAdd1 {p})", "bind"), ("$p.shape[0]", "({p}).length"),
                  (r'"version: 1\nn_points: {}\n{{".format($n)', "(ptsHeader {n})")],
            stmt=[('np.savetxt($fh, $pts, delimiter=" ", header=$h, footer="}", fmt="%.3f", comments="")', "fh",
                   "(savetxt3 {h} {pts})")],
            end=".ok ({file_handle})"),
          OL.pts_exporter, {"pointcloud": "pointcloud", "file_handle": "([] : List PLine)", "kwargs": "()"},
          allow_unused=("kwargs",)), STUB))
    items.append((
        "def genPtsImporter (filepath : List PLine) (imageorigin : Bool) : Except Exc (List (List (Option Rat))) :=",
        f(E(expr=[("$f.readlines()", "{f}"), ('$l.strip().startswith("}")', "(PLine.isClose {l})", "bool"),
                  ("$l.strip()", "{l}"), ("$l[0]", "(linesHead {l})", "bind"),
                  ('$l.startswith("{")', "(PLine.isOpen {l})", "bool"), ("$l.split()[:2]", "(PLine.first2 {l})", "bind"),
                  ("[]", "([] : List (Option Rat))"), ("np.array($x, dtype=float).reshape((-1, 1))", "{x}"),
                  ("$a - 1", "(colMinus1 {a})"), ("np.hstack($l)", "(hstackCols {l})"),
                  ('{"PTS": PointCloud($p, copy=False)}', "{p}")],
            withs=[('$p.open("r")', "{p}")],
            multi=[("$x = $l.pop(0)", [("x", "{_}.1"), ("l", "{_}.2")], "(pop0 {l})")],
            stmt=[("$l.append($x)", "l", "({l} ++ [{x}])")], fuel="(filepath.length + 1)"),
          IL.pts_importer, {"filepath": "filepath", "image_origin": "imageorigin", "kwargs": "()"},
          allow_unused=("kwargs",)), STUB))
    items.append((
        "def genLjsonImporter (table : List (Nat × String)) (filepath : Json) : Except Exc String :=",
        f(E(expr=[("json.load($f, object_pairs_hook=OrderedDict)", "{f}"), ('$d.get("version")', "(Json.get .version {d})"),
                  ("_ljson_parser_for_version.get($v)", "(parserLookup table {v})"),
                  ("$v != 3", "(!(jsonIsNat {v} 3))", "bool"), ("$p($d)", "(callParser {p} {d})")],
            withs=[('$p.open("r")', "{p}")], drop=["warnings.warn($a, $b)"]),
          IL.ljson_importer, {"filepath": "filepath", "kwargs": "()"}, allow_unused=("kwargs",)), STUB))
    items.append((
        "def genParseNull (pointslist : List (List (Option Rat))) : Except Exc (List (List (Option Rat))) :=",
        f(E(expr=[("itertools.chain(*$p)", "(List.flatten {p})"), ("np.nan", "none"),
                  ("len($p[0])", "(rowLen0 {p})", "bind"),
                  ("np.array($f, dtype=float).reshape([-1, $d])", "(reshapeN {f} {d})", "bind")]),
          IL._ljson_parse_null_values, {"points_list": "pointslist"}), STUB))
    items.append((
        "def genParseV3 (lmsdict : JDoc) : Except Exc (List (String × Imported)) :=",
        f(E(expr=[('$d["groups"].items()', "{d}"), ('$g["landmarks"]["points"]', "({g}).points"),
                  ("_ljson_parse_null_values($x)", "(genParseNull {x})", "bind"),
                  ('$g["landmarks"].get("connectivity")', "({g}).conn"),
                  ("OrderedDict()", "([] : List (String × List Bool))"), ("{}", "([] : List (String × Imported))"),
                  ('$g["labels"]', "({g}).labels"), ("len($x)", "({x}).length"), ("$p.shape[0]", "({p}).length"),
                  ("np.zeros($n, dtype=bool)", "(List.replicate {n} false)"),
                  ("$c.init_from_edges($p, $e, $l)", "(initFromEdges {c} {p} {e} {l})", "bind")],
            stmt=[('$m[$l["mask"]] = True', "m", "(maskSet {m} ({l}).mask)", "bind"),
                  ('$d[$l["label"]] = $m', "d", "(odInsert {d} ({l}).label {m})"),
                  ("$d[$k] = $v", "d", "(dictSet {d} {k} {v})")],
            names={"LabelledPointUndirectedGraph": "Cls.lpug", "PointUndirectedGraph": "Cls.pug"}),
          IL._parse_ljson_v3, {"lms_dict": "lmsdict"}), STUB))
    items.append((
        "def genParseV2 (lmsdict : JGroup) : Except Exc (List (String × Imported)) :=",
        f(E(expr=[('$g["landmarks"]["points"]', "({g}).points"),
                  ("_ljson_parse_null_values($x)", "(genParseNull {x})", "bind"),
                  ('$g["landmarks"].get("connectivity")', "({g}).conn"),
                  ("OrderedDict()", "([] : List (String × List Bool))"),
                  ('$g["labels"]', "({g}).labels"), ("len($x)", "({x}).length"), ("$p.shape[0]", "({p}).length"),
                  ("np.zeros($n, dtype=bool)", "(List.replicate {n} false)"),
                  ("PointCloud($p)", "(Imported.mk Cls.pc {p} [] [])"), ('{"LJSON": $x}', '[("LJSON", {x})]'),
                  ("LabelledPointUndirectedGraph.init_from_edges($p, $e, $l)", "(initFromEdges Cls.lpug {p} {e} {l})", "bind")],
            stmt=[('$m[$l["mask"]] = True', "m", "(maskSet {m} ({l}).mask)", "bind"),
                  ('$d[$l["label"]] = $m', "d", "(odInsert {d} ({l}).label {m})")]),
          IL._parse_ljson_v2, {"lms_dict": "lmsdict"}), STUB))
    items.append((
        "def genParseV1 (lmsdict : List JV1Group) : Except Exc (List (String × Imported)) :=",
        f(E(expr=[('$d["groups"]', "{d}"), ('$g["landmarks"]', "({g}).landmarks"), ('$g["label"]', "({g}).label"),
                  ("slice($a, $b)", "({a}, {b})"), ('$g.get("connectivity", [])', "((({g}).conn).getD [])"),
                  ("$o + np.asarray($c)", "(shiftEdges {o} {c})"), ("$a + $c.tolist()", "({a} ++ {c})"),
                  ('$p["point"]', "{p}"), ("zip($a, $b)", "(List.zip {a} {b})"), ("len($x)", "({x}).length"),
                  ("_ljson_parse_null_values($x)", "(genParseNull {x})", "bind"), ("$p.shape[0]", "({p}).length"),
                  ("OrderedDict()", "([] : List (String × List Bool))"),
                  ("np.zeros($n, dtype=bool)", "(List.replicate {n} false)"), ('{"LJSON": $x}', '[("LJSON", {x})]'),
                  ("LabelledPointUndirectedGraph.init_from_edges($p, $e, $l)",
                   "(initFromEdges Cls.lpug {p} (some {e}) {l})", "bind")],
            stmt=[("$l.append($x)", "l", "({l} ++ [{x}])"), ("$m[$s] = True", "m", "(sliceSet {m} {s})"),
                  ("$d[$k] = $m", "d", "(odInsert {d} {k} {m})")]),
          IL._parse_ljson_v1, {"lms_dict": "lmsdict"}), STUB))
    PIX = [("$p.dtype", "({p}).dtype"), ("np.uint8", "DType.uint8"), ("np.uint16", "DType.uint16"),
           ("np.issubdtype($d, np.floating)", "(DType.isFloating {d})", "bool"),
           ("$p * (1.0 / $m)", "(PixArr.scaleRecip {p} {m})"),
           ("np.round($p * $m).astype($d)", "(PixArr.roundScale {p} {m} {d})"), ("$p.astype($d)", "(PixArr.astype {p} {d})"),
           ("$p.min()", "(PixArr.min {p})"), ("$p.max()", "(PixArr.max {p})"),
           ("255.0", "(255 : Nat)"), ("65535.0", "(65535 : Nat)"), ("0.0", "(0 : Rat)"), ("1.0", "(1 : Rat)")]
    PN = {"float": "DType.float64", "bool": "DType.bool"}
    items.append((
        "def genNormalizePixels (pixels : PixArr) (erroronunknowntype : Bool) : Except Exc PixArr :=",
        f(E(expr=PIX, names=PN), IMB.normalize_pixels_range,
          {"pixels": "pixels", "error_on_unknown_type": "erroronunknowntype"}), STUB))
    items.append((
        "def genDenormalizePixels (pixels : PixArr) (outdtype : DType) : Except Exc PixArr :=",
        f(E(expr=PIX, names=PN), IMB.denormalize_pixels_range, {"pixels": "pixels", "out_dtype": "outdtype"}), STUB))
    return items


FMT_REL = os.path.join(GEN_DIR, "C16SrcFmt.lean")
FMT_TARGETS = ["MenpoModel.Generated.C16SrcFmt", "MenpoModel.GenProps.C16SrcFmt"]


def fmt_text():
    return P.translate_or_stub(
        fmt_items(),
        HEADER % ("menpo.io.output.landmark.ljson_exporter / pts_exporter, menpo.io.input.landmark.pts_importer /\n"
                  "   ljson_importer (version dispatch) and menpo.image.base.normalize_pixels_range / denormalize_pixels_range",
                  "GenProps/C16SrcFmt.lean", "import MenpoModel.Core.C16SrcFmt"), FOOTER)


def units():
    """the translated units, in build order: name, text() -> (lean text, [reasons]), file, lake targets, obligations"""
    G = "MenpoModel.GenProps.C16."
    return [
        dict(name="pure", text=pure_text, rel=PURE_REL, targets=PURE_TARGETS,
             functions=["menpo.io.utils._normalize_extension", "menpo.io.utils._possible_extensions_from_filepath",
                        "menpo.io.utils._norm_path", "menpo.io.output.base._parse_and_validate_extension",
                        "menpo.io.input.base.importer_for_filepath", "menpo.io.output.base._enforce_only_paths_supported"],
             theorems=[G + t for t in ("genNormalizeExtension_eq", "genPossibleExts_eq", "genNormPath_eq",
                                       "genParseAndValidate_eq", "genImporterFor_eq", "genEnforcePaths_eq")]),
        dict(name="io", text=io_text, rel=IO_REL, targets=IO_TARGETS,
             functions=["menpo.io.output.base._validate_filepath", "menpo.io.output.base._extension_to_export_function",
                        "menpo.io.output.base._validate_and_get_export_func", "menpo.io.output.base._export",
                        "menpo.io.output.base._export_paths_only", "menpo.io.output.base.export_pickle",
                        "menpo.io.output.base.export_landmark_file", "menpo.io.output.base.export_image",
                        "menpo.io.output.base.export_video"],
             theorems=[G + t for t in ("genValidateFilepath_eq", "genExtToFunc_eq", "genValidateAndGetT_eq",
                                       "genValidateAndGetF_eq", "genExport_eq", "genExportPathsOnly_eq",
                                       "genExportPickle_eq", "genExportLandmarkFile_eq", "genExportImage_eq",
                                       "genExportVideo_eq")]),
        dict(name="formats", text=fmt_text, rel=FMT_REL, targets=FMT_TARGETS,
             functions=["menpo.io.output.landmark.ljson_exporter", "menpo.io.output.landmark.pts_exporter",
                        "menpo.io.input.landmark.pts_importer", "menpo.io.input.landmark.ljson_importer",
                        "menpo.io.input.landmark._ljson_parse_null_values", "menpo.io.input.landmark._parse_ljson_v3",
                        "menpo.io.input.landmark._parse_ljson_v2", "menpo.io.input.landmark._parse_ljson_v1",
                        "menpo.image.base.normalize_pixels_range", "menpo.image.base.denormalize_pixels_range"],
             theorems=[G + t for t in ("genLjsonExporter_eq", "genPtsExporter_eq", "genPtsImporter_eq",
                                       "genLjsonImporter_eq", "genParseNull_eq", "genParseV3_eq", "genParseV2_eq", "genParseV1_eq",
                                       "genNormalizePixels_eq", "genDenormalizePixels_eq", "encodeDoc_eq_docJson",
                                       "groupSpec_exported", "ljson_v3_roundtrip_translated",
                                       "ljson_roundtrip_translated", "ljson_roundtrip_single_translated",
                                       "ljson_dispatch_translated", "pts_file_roundtrip_translated",
                                       "pixels_roundtrip_translated", "u8_roundtrip_translated", "normQ_255_le_one")],
             independent=True),
        # no text of its own: the guard / agreement theorems restated FOR THE TRANSLATED FUNCTIONS (and the live
        # dictionaries); breaks with the units above
        dict(name="guard", targets=["MenpoModel.GenProps.C16SrcGuard"], functions=[],
             theorems=[G + t for t in ("genNormPath_key", "export_guard_translated", "export_guard_translated_iff",
                                       "export_frame_translated", "export_guard_translated_spelling",
                                       "pickle_guard_translated", "landmark_guard_translated", "landmark_guard_translated_first",
                                       "video_guard_translated",
                                       "export_history_translated", "export_history_frame_translated",
                                       "export_import_agree_translated", "pickle_agree_translated",
                                       "pickle_written_translated")]),
    ]


if __name__ == "__main__":
    import sys
    sys.path.insert(0, os.environ.get("MENPO_REPO", "/repo"))
    for u in units():
        if "text" not in u:
            continue
        t, why = u["text"]()
        if "--write" in sys.argv:
            open(os.path.join(os.path.dirname(os.path.dirname(os.path.abspath(__file__))), "lean", u["rel"]), "w").write(t)
        else:
            print(t)
        print(u["name"], why)
