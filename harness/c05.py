"""C05 — vectorisation round-trips the whole object and never mutates it (DESIGN.md section 6, C05).

Three parties per case (one fully populated object of one of the 23 concrete Vectorizable classes,
one vector of the right or of a wrong length):
  * the real menpo object driven through as_vector / n_parameters / from_vector,
  * the property oracle: the clauses of the property text as predicates over the real objects
    (independent of the Lean model),
  * the Lean model (Core/Vectorize.lean) executed by the driver on the same exact rationals, in two
    variants: C = the code as found, F = with the proposed patches applied.
Every (object, vector) pair is also driven through the deprecated mutator from_vector_inplace on a twin object
(model: Shape.fvi / Img.fvi / Xf.fvi, incl. the receiver after a failed update), images through the options
n_channels / keep_channels / copy=False, and the dtype of every rebuilt array is compared with the model's dtype
calculus.  Two tables are regenerated per run (extract_c05): method resolution, and the measured effects table
(which arrays copy() makes fresh, _from_vector_inplace writes in place / rebinds, from_vector shares).
"""
import json

from . import common
from . import extract_c05
from . import trans_c05

PROP = "C05"
INFO = dict(
    technique="Lean 4 proof over an executable model of the Vectorizable protocol assembled per class through the "
              "method-resolution table regenerated from the live classes; the vectorisation code itself (60 functions: "
              "_as_vector / _from_vector_inplace / from_vector / n_parameters / _set_h_matrix / set_rotation_matrix of every "
              "supplier, Vectorizable.as_vector / n_parameters / from_vector / from_vector_inplace, the target re-sync of "
              "Targetable / Alignment, the image options) is TRANSLATED from the source text of the working tree into Lean "
              "on every run (harness/trans_c05.py) and proved equal to the model, and the property theorems are re-stated "
              "over the translated suppliers assembled through the regenerated tables; the same source text is read a "
              "second time with a dtype vocabulary (34 functions) from which the model's dtype calculus is derived; plus a "
              "heap model of copy() / attribute rebinding / in-place writes whose per-class effects table is measured on "
              "instrumented live objects on every run (123 regenerated obligations in all) + model/implementation correspondence "
              "(from_vector, the deprecated from_vector_inplace, the n_channels / keep_channels options, dtypes) and an "
              "independent property oracle on all 23 concrete Vectorizable classes",
    level_text="Theorems over the model of as_vector / n_parameters / from_vector / from_vector_inplace for PointCloud "
               "and the 7 graph/mesh subclasses, Image / MaskedImage / BooleanImage and the 12 homogeneous transform "
               "classes: both round trips (for orientation-preserving similarities / proper rotations: a reflection is "
               "not representable, recorded finding), vector length = n_parameters, every right-length vector accepted, "
               "the update touches only the vectorised component of the model record (that the real carried state - mask, "
               "connectivity, labels, texture, landmarks - survives rests on copy() being value-preserving, property C06, "
               "and is judged by the oracle), masked layout (channel-major raster order, zero elsewhere), alignment "
               "target re-synced WHATEVER the target was before the update (alignment_target_resynced_any, "
               "src_alignment_target_resynced_any: no wf hypothesis; freshly built alignments keep the caller's target), "
               "wrong-length vectors rejected or well-formed (the three *_wrong_length_coded_refuted witnesses, "
               "textured_landmarks_coded_refuted and uscale_ndim document the tree as it was before the fix: commits; the "
               "current tree is the `fixed` variant), the quaternion round trip under the `eigh` contract for RATIONAL "
               "unit quaternions (shown satisfiable at each of them), the "
               "error kinds in the dimensions where a class is not vectorizable, boundary images (all-false masks, "
               "any number of dimensions), the dtype of the rebuilt array (follows the vector), the image options "
               "n_channels / keep_channels, and receiver purity over histories: any program of from_vector calls "
               "leaves every existing object untouched, and the deprecated in-place mutator changes its receiver "
               "only (ownership invariant on the writable buffers, by induction over the program).  The model is "
               "tied to /repo by the regenerated method-resolution table (dispatch_ok), by the effects table "
               "measured on live objects (effects_sound + effects_pure: one-directional - what is written in place is "
               "within the model's may-write sets, what the model takes as fresh in copy() is fresh; the exact equality "
               "is an informational drift report), by the source-to-Lean translation and by running every case through the "
               "real classes and the Lean driver; a property oracle independent of the model decides the property on the "
               "real code.  TRANSLATED rather than transcribed (Generated/C05Src.lean, equalities in GenProps/C05Src.lean, "
               "each for all arguments or for all square 3x3 / 4x4 matrices = the class invariant of the affine family): "
               "Vectorizable.as_vector (incl. the cleared writeable flag: src_as_vector_read_only) / n_parameters / "
               "from_vector / from_vector_inplace; PointCloud._as_vector / _from_vector_inplace / n_dims, "
               "TexturedTriMesh.from_vector, Landmarkable.has_landmarks, copy_landmarks_and_path; Image._as_vector / "
               "from_vector / _from_vector_inplace / n_channels / shape, MaskedImage.masked_pixels / _as_vector / from_vector "
               "/ _from_vector_inplace / _set_masked_pixels (both branches, keep_channels, n_channels, both copy flags), "
               "BooleanImage.from_vector; Homogeneous / Affine / Similarity / Translation / UniformScale / NonUniformScale "
               "/ Rotation: n_dims, scale, n_parameters, _as_vector (Fortran-order deltas, the [0,1,4,5] selection, the K "
               "matrix and the [3,0,1,2] permutation + sign convention of the quaternion), _from_vector_inplace (incl. the "
               "quaternion formulas, the eps guard, the 3-D refusal of Similarity, the 2-D refusal of Rotation), "
               "Homogeneous / Affine / AlignmentAffine._set_h_matrix, Rotation / AlignmentRotation.set_rotation_matrix, the "
               "five AlignmentX parameter updates and the re-sync chain Targetable._sync_target_from_state -> "
               "Alignment._new_target_from_state -> aligned_source, Targetable._target_setter_with_verification -> "
               "_verify_target, Alignment._target_setter (which method re-syncs from what: sync_eq, xfFvi_src).  Method calls "
               "that Python resolves through the MRO are parameters of the translated definitions; GenProps/C05SrcAsm.lean "
               "ties the knot through Generated.dispatch / Generated.syncDispatch (xfFromVec_src, xfAsVec_src, "
               "xfNParams_src, shapeFromVec_src, imgFromVec_src, imgFromVecN_src, imgAsVec_src, imgFvi_src) and proves "
               "src_xf_from_as / src_xf_as_from / src_alignment_target_resynced / src_xf_rejected_or_wellformed / "
               "src_shape_* / src_img_* / src_masked_vector_layout about the assembled translated code.  "
               "Generated/C05SrcDt.lean + GenProps/C05SrcDt.lean: the dtype reading of the same functions and the derived "
               "dtype calculus (e.g. MaskedImage_from_vector_dt: both branches build an array of the vector's dtype; "
               "Similarity__from_vector_inplace_dt: a fresh float64 matrix whatever the receiver stored).",
    level_note="Trusted: Lean kernel; axioms propext/Classical.choice/Quot.sound; harness/extract_c05.py (table "
               "extraction and the array instrumentation), the translator harness/py2lean2.py + py2lean2w.py and the C05 "
               "vocabulary (harness/trans_c05.py rules -> Core/C05Src.lean operations: a rule that mistranslated a numpy "
               "expression would make the obligation speak about something else; the correspondence runs on the same "
               "functions; before translating, trans_c05 normalises the source: `if x is None: x = e` -> conditional expression, "
               "a local that is a bare alias of an attribute of self -> the attribute, a single-assignment read-only local "
               "with a pure total right-hand side -> inlined; all three behaviour preserving under their syntactic side "
               "conditions), the Python harness and oracle, the driver's parser.  numpy "
               "`reshape` / boolean-mask indexing / `fill_diagonal` / broadcasting / dtype-of-construction semantics "
               "are modelled (exercised by the correspondence, not verified).  `np.linalg.eigh` is a contract "
               "parameter (symmetric input -> unit eigenvector of the largest eigenvalue), checked numerically on "
               "every rotation case.  Float rounding is outside the model (exact rationals; dyadic inputs make all "
               "but the rotation cases exact, comparison 1e-9).",
    rule="a case = (fully populated object with a previous life, vector); objects over all 23 concrete Vectorizable "
         "classes x dims where vectorizable x landmark groups 0..2 x masks all-true/sparse/single/empty x pixel "
         "dtypes x image dimensions 2..4 (incl. single rows, implicit channel) x integer-typed coordinates / matrices "
         "x boundary point counts 0..2 x lives (constructor, copy, from_vector result, from_vector of the ancestor's "
         "read-only view, updated in place twice, as_vector view alive); vectors: the object's own vector, "
         "right-length dyadic vectors in float64 / float32 / int64 (canonical unit quaternions for rotations), wrong "
         "lengths n+-1, n/2, 2n, 0, 1 and the other branch lengths 4/6/7/12; every (object, vector) also goes through "
         "from_vector_inplace on a twin object; images also through from_vector(v, n_channels=k), "
         "as_vector(keep_channels=True), from_vector(v, copy=False); distinct = distinct (class, object recipe, "
         "vector); non-trivial = object has >= 2 points / pixels / a non-identity matrix",
    partial=["float rounding is not modelled: the theorems are over exact rationals; the implementation is compared "
             "to 1e-9 (dyadic inputs make everything but quaternion normalisation exact)",
             "Rotation._as_vector: `np.linalg.eigh` is a contract parameter (unit eigenvector of the dominant "
             "eigenvalue); both round trips are proved for any eigen-solver meeting the contract (satisfiable at every "
             "unit quaternion: eigh_contract_satisfiable), from_as for rotation matrices that are the image of a "
             "canonical unit quaternion (every rotation, up to float rounding); the contract is checked numerically "
             "on every rotation case",
             "the heap theorems abstract an object to seven array buffers (coordinates, pixels, matrix, target, "
             "source, mask, everything else) and the suppliers to may-write / may-rebind sets; that abstraction is "
             "measured on three specimens per class (effects_sound), not on every input: on the other inputs receiver "
             "purity is decided by the byte-digest oracle.  The translated obligations are VALUE level: `.copy()`, "
             "`copy=` flags, view vs copy and object identity are invisible to them (a dropped copy translates to the "
             "same term); the non-mutation / aliasing clauses are decided by the oracle's digests and the measured write "
             "tables, not by the translation.  `rebound attribute = fresh cell` of the heap model is an idealisation: "
             "PointCloud._from_vector_inplace stores a VIEW of the caller's vector (r = pc.from_vector(v); v[0] = 9 "
             "changes r.points), which the measured table does not probe (sharing is measured against a private vector)",
             "orientation: from_as for Similarity / Rotation (and their alignments) is proved and holds only for "
             "orientation-preserving matrices (Xf.wfH: [a -b; b a], image of a quaternion); reflections are reachable "
             "(AlignmentSimilarity / AlignmentRotation with allow_mirror=True, unchecked constructors), are generated, and "
             "violate the clause on the real code: recorded as known findings (pattern reflection-not-reproduced)",
             "alignments: xf_from_as / src_xf_from_as / xf_right_length_accepted assume x.wf, which contains target = "
             "apply(source) BEFORE the update; freshly constructed alignments do not satisfy it (the constructors keep the "
             "caller's target), so for them only alignment_target_resynced_any / src_alignment_target_resynced_any (no such "
             "hypothesis), the wrong-length and as_from theorems (wfH only) apply and from_as of the matrix rests on the "
             "plain-class theorem + correspondence",
             "`as_vector() leaves the object itself writable`: no theorem (the value reading cannot tell a returned view "
             "from the object's own array); decided by the oracle (object-frozen) only",
             "rotation_as_from / rotation_from_as / eigh_contract_satisfiable quantify over rational unit quaternions; "
             "a generic unit quaternion such as (3,-1,2,-5)/sqrt(39) is irrational and outside them (not a rounding "
             "matter); a quaternion of squared norm below 4 eps makes Rotation._from_vector_inplace return without "
             "touching the object (model follows): as_from and the re-sync do not hold there - outside the quantifier "
             "(unit quaternions), excluded by hypothesis in the theorems",
             "dtypes: the calculus (which construction idiom each supplier uses: reshape of the vector / fresh np.eye / "
             "assignment into the existing buffer / coercion to bool) is derived from the source text read with a dtype "
             "vocabulary (fvi_dtype_src, fromVec_dtype_src, asVec_dtype_src: on every returning path, for every valuation "
             "of the value-dependent tests, which are opaque guards there); the quaternion of Rotation._as_vector comes "
             "out of eigh and is not read from the source; the value of a lossy cast (from_vector_inplace of a float "
             "vector into a partially masked integer image) is not modelled and only its outcome, well-formedness and "
             "dtype are compared",
             "from_vector_inplace, the n_channels / keep_channels / copy options and dtypes are not named by the "
             "property text: they are proved in the model and tied by the source translation (options, in-place "
             "mutator) and the correspondence (a disagreement is a broken tie followed by the directed search), not "
             "judged by the property oracle",
             "the equalities translated = model are for all arguments except where the code only makes sense under the "
             "class invariant: the affine-family _as_vector / n_parameters suppliers for square 3x3 / 4x4 matrices, the "
             "re-sync for a target that has the shape of the source (Conforms: true of every constructed alignment), "
             "Image / BooleanImage.from_vector for receivers "
             "of exactly that class without a mask, MaskedImage.from_vector for a mask with one entry per pixel ; values "
             "of numpy expressions are the vocabulary of Core/C05Src.lean (modelled, exercised by the correspondence); "
             "coarse rules (trusted): np.allclose(x, 0/1) read as exact equality (only reached with skip_checks=False), "
             "hasattr(x, 'path') read as false, the copy= argument of Image / BooleanImage(...) dropped, "
             "`m.reshape([s.n_channels, -1])` does not check whose n_channels, len / np.size / .size all read as the "
             "length of a 1-d array, dtype reading: np.array(<literal>) and p * np.sqrt(e) read as float64",
             "the correspondence compares the exception KIND (ValueError / NotImplementedError) although the property only "
             "says `raises`: a changed kind is a broken tie (directed search, at worst no-failing-input-found), never an "
             "oracle failure"],
    assumptions=["objects are built through the public constructors from small dyadic data (general position for "
                 "alignment sources)",
                 "copy() is value-preserving (Copyable.copy / LabelledPointUndirectedGraph.copy / "
                 "HomogFamilyAlignment.copy: property C06); in the model copy() is the identity and connectivity / labels / "
                 "texture are one opaque token",
                 "receiver purity is judged on the attributes that existed before the call (byte digest); an "
                 "underscore-private attribute created by the call (a memo) is not a change of observable state"],
    design_ref="DESIGN.md section 6, C05; section 7 #2-#5")
IMPORTS = ["MenpoModel.Props.C05", "MenpoModel.GenProps.C05"] + trans_c05.IMPORTS
THEOREMS = [
    "MenpoModel.C05.shape_from_as", "MenpoModel.C05.shape_as_from", "MenpoModel.C05.shape_carried",
    "MenpoModel.C05.shape_wrong_length_fixed", "MenpoModel.C05.shape_wrong_length_coded_refuted",
    "MenpoModel.C05.textured_landmarks_coded_refuted",
    "MenpoModel.C05.img_from_as", "MenpoModel.C05.img_as_from", "MenpoModel.C05.img_carried",
    "MenpoModel.C05.img_length_eq_nparams", "MenpoModel.C05.masked_vector_layout",
    "MenpoModel.C05.masked_zero_elsewhere", "MenpoModel.C05.img_from_vector_wellformed",
    "MenpoModel.C05.xf_from_as", "MenpoModel.C05.xf_as_from", "MenpoModel.C05.xf_length_eq_nparams",
    "MenpoModel.C05.alignment_target_resynced", "MenpoModel.C05.alignment_target_resynced_any",
    "MenpoModel.C05.xf_wrong_length_fixed",
    "MenpoModel.C05.affine_wrong_length_coded_refuted", "MenpoModel.C05.uscale_wrong_length_coded_refuted",
    "MenpoModel.C05.uscale_ndim", "MenpoModel.C05.quat_matrix_orthogonal", "MenpoModel.C05.K_of_rotation",
    "MenpoModel.C05.rotation_as_from", "MenpoModel.C05.rotation_from_as", "MenpoModel.C05.shape_nparams", "MenpoModel.C05.from_vector_pure_heap", "MenpoModel.C05.expected_rows_pure",
    "MenpoModel.C05.from_vector_program_pure", "MenpoModel.C05.from_vector_inplace_local",
    "MenpoModel.C05.from_vector_inplace_effect", "MenpoModel.C05.expected_steps_ok",
    "MenpoModel.C05.shape_inplace_agrees", "MenpoModel.C05.xf_inplace_agrees", "MenpoModel.C05.image_inplace_agrees",
    "MenpoModel.C05.img_fvi_carried", "MenpoModel.C05.img_fvi_as_from", "MenpoModel.C05.masked_fvi_keeps_outside",
    "MenpoModel.C05.boolean_inplace_not_coerced", "MenpoModel.C05.failed_inplace_keeps_receiver",
    "MenpoModel.C05.alignment_affine_failed_inplace_half_updated",
    "MenpoModel.C05.similarity3d_not_vectorizable", "MenpoModel.C05.similarity3d_four_params_become_2d",
    "MenpoModel.C05.rotation2d_not_vectorizable", "MenpoModel.C05.masked_all_false",
    "MenpoModel.C05.eigh_contract_satisfiable",
    "MenpoModel.C05.shape_right_length_accepted", "MenpoModel.C05.img_right_length_accepted",
    "MenpoModel.C05.xf_right_length_accepted",
    "MenpoModel.C05.fromVecN_eq_blank", "MenpoModel.C05.fromVecN_self", "MenpoModel.C05.fromVecN_spec",
    "MenpoModel.C05.asVecKeep_flatten",
    "MenpoModel.C05.GenProps.dispatch_ok", "MenpoModel.C05.GenProps.dispatch_count",
    "MenpoModel.C05.GenProps.dispatch_pure", "MenpoModel.C05.GenProps.effects_sound",
    "MenpoModel.C05.GenProps.effects_pure",
] + trans_c05.THEOREMS

SHAPES = ["PointCloud", "PointUndirectedGraph", "PointDirectedGraph", "PointTree", "LabelledPointUndirectedGraph",
          "TriMesh", "ColouredTriMesh", "TexturedTriMesh"]
IMAGES = ["Image", "MaskedImage", "BooleanImage"]
XFS = ["Homogeneous", "Affine", "Similarity", "Translation", "UniformScale", "NonUniformScale", "Rotation",
       "AlignmentAffine", "AlignmentSimilarity", "AlignmentTranslation", "AlignmentUniformScale", "AlignmentRotation"]
ALL = SHAPES + IMAGES + XFS
ALIGN = {"AlignmentAffine", "AlignmentSimilarity", "AlignmentTranslation", "AlignmentUniformScale",
         "AlignmentRotation"}
TOL = 1e-9


def np_():
    import numpy as np
    return np


# ------------------------------------------------------------------------------------- recipes -> objects

def build(rc):
    """the real menpo object of a JSON-able recipe (public constructors only)"""
    np = np_()
    import menpo.shape as ms
    import menpo.image as mi
    import menpo.transform as mt
    from collections import OrderedDict
    c = rc["cls"]
    f = lambda k: np.array(rc[k], dtype=float)
    if c in SHAPES:
        pts = np.array(rc["points"], dtype=rc.get("pdtype", "float64")).reshape(-1, rc["d"])
        if c == "PointCloud":
            o = ms.PointCloud(pts)
        elif c == "PointUndirectedGraph":
            o = ms.PointUndirectedGraph(pts, np.array(rc["adj"], dtype=int))
        elif c == "PointDirectedGraph":
            o = ms.PointDirectedGraph(pts, np.array(rc["adj"], dtype=int))
        elif c == "PointTree":
            o = ms.PointTree(pts, np.array(rc["adj"], dtype=int), rc["root"])
        elif c == "LabelledPointUndirectedGraph":
            o = ms.LabelledPointUndirectedGraph(
                pts, np.array(rc["adj"], dtype=int),
                OrderedDict((k, np.array(v, dtype=bool)) for k, v in rc["labels"]))
        elif c == "TriMesh":
            o = ms.TriMesh(pts, trilist=np.array(rc["trilist"], dtype=int).reshape(-1, 3))
        elif c == "ColouredTriMesh":
            o = ms.ColouredTriMesh(pts, trilist=np.array(rc["trilist"], dtype=int).reshape(-1, 3),
                                   colours=f("colours"))
        elif c == "TexturedTriMesh":
            o = ms.TexturedTriMesh(pts, f("tcoords"), mi.Image(f("texture")),
                                   trilist=np.array(rc["trilist"], dtype=int).reshape(-1, 3))
    elif c in IMAGES:
        px = np.array(rc["pixels"], dtype=rc["dtype"]) if c != "BooleanImage" else None
        if rc.get("implicit_channel"):
            px = px[0]          # a 2-D array: one implicit channel
        if c == "Image":
            o = mi.Image(px)
        elif c == "MaskedImage":
            o = mi.MaskedImage(px, mask=np.array(rc["mask"], dtype=bool))
        else:
            o = mi.BooleanImage(np.array(rc["mask"], dtype=bool))
    else:
        if c in ALIGN:
            src, tgt = ms.PointCloud(f("src")), ms.PointCloud(f("tgt"))
            o = getattr(mt, c)(src, tgt, allow_mirror=True) if rc.get("mirror") else getattr(mt, c)(src, tgt)
        elif c in ("Homogeneous", "Affine", "Similarity"):
            o = getattr(mt, c)(np.array(rc["h"], dtype=int) if rc.get("hdtype") == "int" else f("h"))
        elif c == "Translation":
            o = mt.Translation(f("t"))
        elif c == "UniformScale":
            o = mt.UniformScale(rc["s"], rc["d"])
        elif c == "NonUniformScale":
            o = mt.NonUniformScale(f("s"))
        elif c == "Rotation":
            o = mt.Rotation(f("R"))
    for name, lp in rc.get("landmarks", []):
        o.landmarks[name] = ms.PointCloud(np.array(lp, dtype=float))
    return live(o, rc)


LIVES = ["fresh", "copy", "fv", "fv-view", "fvi", "av-alive"]
_KEEP = []          # ancestors and views kept alive on purpose (a bounded ring)


def live(o, rc):
    """the previous life of the object under test (recipe key `life`): a copy, the result of an earlier
    from_vector (of a private vector, or directly of the ancestor's read-only as_vector() view), an object that
    was updated in place twice (away and back), an object whose as_vector() view is still alive"""
    import warnings
    np = np_()
    life = rc.get("life", "fresh")
    if life == "fresh" or not vectorizable_dim(rc):
        return o
    if life == "copy":
        r = o.copy()
    elif life == "fv":
        r = o.from_vector(np.array(o.as_vector()))
    elif life == "fv-view":
        r = o.from_vector(o.as_vector())
    elif life == "fvi":
        own = np.array(o.as_vector())
        if own.dtype == bool:
            away = ~own
        elif rc["cls"] in ("Rotation", "AlignmentRotation"):
            away = np.array([0.5, -0.5, 0.5, 0.5])
        else:
            away = (own + 1).astype(own.dtype)
        with warnings.catch_warnings():
            warnings.simplefilter("ignore")
            o.from_vector_inplace(away)
            o.from_vector_inplace(own)
        r = o
    else:
        _KEEP.append(o.as_vector())
        r = o
    _KEEP.append(o)
    del _KEEP[:-64]
    return r


def py_of(rc, vec, call):
    return ("# run with PYTHONPATH=<menpo tree>:/verif\n"
            "import json, numpy as np; from harness.c05 import build\n"
            "obj = build(json.loads(%r))\nv = np.array(%r%s)\n%s"
            % (json.dumps(rc), [float(x) for x in vec] if vec is not None else [],
               ", dtype=%r" % rc["vdtype"] if rc.get("vdtype") else "", call))


# ------------------------------------------------------------------------------------- generators

def dy(rng, k=16, m=2, nonzero=False):
    return common.dyadic(rng, kmax=k, mexp=m, nonzero=nonzero)


def gen_landmarks(rng, d):
    out = []
    for g in range(rng.choice([0, 1, 1, 2])):
        k = rng.randint(1, 3)
        out.append(("g%d" % g if rng.random() < 0.8 else "gé%d" % g,
                    [[dy(rng) for _ in range(d)] for _ in range(k)]))
    return out


def gen_trilist(rng, n):
    return [rng.sample(range(n), 3) for _ in range(rng.randint(1, 4))]


def gen_shape(rng, c):
    d = rng.choice([2, 3])
    n = rng.randint(3, 6)
    if c == "PointCloud" and rng.random() < 0.2:
        n = rng.choice([0, 1, 1, 2])                     # boundary sizes
    rc = {"cls": c, "d": d, "points": [[dy(rng) for _ in range(d)] for _ in range(n)]}
    if rng.random() < 0.15:
        # coordinates typed as integers (pixel indices): the object stores an int64 array
        rc["points"] = [[float(round(x)) for x in p] for p in rc["points"]]
        rc["pdtype"] = "int64"
    r = rng.random()
    if r < 0.1:
        rc["vdtype"] = "float32"
    elif r < 0.2:
        rc["vdtype"] = "int64"
    if c in ("PointUndirectedGraph", "LabelledPointUndirectedGraph"):
        a = [[0] * n for _ in range(n)]
        for _ in range(rng.randint(1, n + 1)):
            i, j = rng.sample(range(n), 2)
            a[i][j] = a[j][i] = 1
        rc["adj"] = a
    if c == "PointDirectedGraph":
        a = [[0] * n for _ in range(n)]
        for _ in range(rng.randint(1, n + 1)):
            i, j = rng.sample(range(n), 2)
            a[i][j] = 1
        rc["adj"] = a
    if c == "PointTree":
        order = list(range(n))
        a = [[0] * n for _ in range(n)]
        for k in range(1, n):
            a[order[rng.randrange(k)]][order[k]] = 1
        rc["adj"], rc["root"] = a, order[0]
    if c == "LabelledPointUndirectedGraph":
        cut = rng.randint(1, n - 1)
        rc["labels"] = [("all", [True] * n), ("head", [i < cut for i in range(n)]),
                        ("tail", [i >= cut for i in range(n)])][rng.choice([0, 1]):]
    if c in ("TriMesh", "ColouredTriMesh", "TexturedTriMesh"):
        rc["trilist"] = gen_trilist(rng, n)
    if c == "ColouredTriMesh":
        rc["colours"] = [[rng.randint(0, 8) / 8.0 for _ in range(3)] for _ in range(n)]
    if c == "TexturedTriMesh":
        rc["tcoords"] = [[rng.randint(0, 8) / 8.0 for _ in range(2)] for _ in range(n)]
        rc["texture"] = [[[rng.randint(0, 8) / 8.0 for _ in range(3)] for _ in range(2)] for _ in range(rng.choice([1, 3]))]
    rc["landmarks"] = gen_landmarks(rng, d)
    return rc


def gen_image(rng, c):
    nd = rng.choice([2, 2, 2, 2, 3, 3, 4])
    shape = [rng.randint(1, 4) for _ in range(nd)]
    if nd == 3:
        shape = [rng.randint(1, 3) for _ in range(nd)]
    if nd == 4:
        shape = [rng.randint(1, 2) for _ in range(nd)]
    if nd == 2 and rng.random() < 0.15:
        shape[rng.randrange(2)] = 1                      # a single row / column
    npix = 1
    for s in shape:
        npix *= s
    nch = rng.choice([1, 1, 2, 3, 4])
    dtype = rng.choice(["float64", "float64", "float32", "uint8"])

    def nested(vals, shp):
        if len(shp) == 1:
            return [vals.pop() for _ in range(shp[0])]
        return [nested(vals, shp[1:]) for _ in range(shp[0])]

    def maskbits():
        kind = rng.choice(["all", "sparse", "sparse", "single", "none"])
        if kind == "all":
            b = [True] * npix
        elif kind == "none":
            b = [False] * npix
        elif kind == "single":
            b = [False] * npix
            b[rng.randrange(npix)] = True
        else:
            b = [rng.random() < 0.5 for _ in range(npix)]
        return kind, b

    rc = {"cls": c, "shape": shape}
    if c == "BooleanImage":
        kind, b = maskbits()
        rc["mask"], rc["maskkind"], rc["dtype"], rc["vdtype"] = nested(b[::-1], shape), kind, "bool", "bool"
    else:
        vals = [float(rng.randint(0, 255)) if dtype == "uint8" else dy(rng, 32, 3) for _ in range(nch * npix)]
        rc["pixels"], rc["dtype"], rc["vdtype"] = nested(vals, [nch] + shape), dtype, dtype
        if dtype != "float64" and rng.random() < 0.4:
            # parameter vectors are float64 whatever the image stores (models hand float64 vectors to templates)
            rc["vdtype"] = "float64"
        if c == "MaskedImage":
            kind, b = maskbits()
            rc["mask"], rc["maskkind"] = nested(b[::-1], shape), kind
        if nd == 2 and nch == 1 and rng.random() < 0.3:
            rc["implicit_channel"] = True
    rc["landmarks"] = gen_landmarks(rng, nd)
    return rc


def rank_ok(pts, d):
    np = np_()
    p = np.array(pts, dtype=float)
    return np.linalg.matrix_rank(p - p.mean(axis=0)) == d and np.linalg.norm(p) > 0.5


def gen_cloud(rng, n, d):
    while True:
        pts = [[dy(rng, 12, 1) for _ in range(d)] for _ in range(n)]
        if rank_ok(pts, d):
            return pts


def unit_quaternions():
    """integer 4-tuples with w > 0 (clearly canonical); normalised in float by the caller"""
    return [(1, 1, 1, 1), (1, 2, 2, 4), (2, 4, 5, 6), (1, 0, 0, 0), (3, 0, 4, 0), (1, 1, 3, 5), (5, 1, 1, 3),
            (2, 1, 0, 2), (1, -1, 1, -1), (4, -2, 2, 1), (2, -3, 6, 0), (6, 2, -3, 0), (1, 0, -2, 2), (7, 4, -4, 0),
            (2, 10, 11, 0), (8, 1, -4, 0), (1, 4, 8, 0), (3, -1, 2, -5), (9, 2, 6, 0), (3, 2, 6, 0)]


def quat_R(q):
    np = np_()
    w, a, b, c = [float(x) for x in q]
    n = w * w + a * a + b * b + c * c
    s = 2.0 / n
    return [[1 - s * (b * b + c * c), s * (a * b - c * w), s * (a * c + b * w)],
            [s * (a * b + c * w), 1 - s * (a * a + c * c), s * (b * c - a * w)],
            [s * (a * c - b * w), s * (b * c + a * w), 1 - s * (a * a + b * b)]]


def gen_xf(rng, c):
    d = rng.choice([2, 3])
    if c in ("Similarity", "AlignmentSimilarity"):
        d = 2 if rng.random() < 0.93 else 3      # 3-D: not vectorizable, error kinds only
    if c in ("Rotation", "AlignmentRotation"):
        d = 3 if rng.random() < 0.93 else 2
    rc = {"cls": c, "d": d}
    if c in ALIGN:
        n = rng.randint(d + 2, d + 4)
        rc["src"], rc["tgt"] = gen_cloud(rng, n, d), gen_cloud(rng, n, d)
        # mirrored alignments (audit F1): allow_mirror=True with a target that IS a reflected copy of the source, so that
        # the fitted matrix is a reflection (det < 0): reachable through the public constructors
        if c == "AlignmentSimilarity" and d == 2 and rng.random() < 0.15:
            rc["mirror"] = True
            rc["tgt"] = [[-2.0 * x + 1.0, 2.0 * y - 3.0] for x, y in rc["src"]]
        if c == "AlignmentRotation" and d == 3 and rng.random() < 0.15:
            rc["mirror"] = True
            rc["tgt"] = [[x, y, -z] for x, y, z in rc["src"]]
    elif c == "Homogeneous":
        rc["h"] = [[dy(rng, 12, 2) for _ in range(d + 1)] for _ in range(d + 1)]
        if rng.random() < 0.35:
            # a NON-SQUARE plain Homogeneous (the class supports them: n_dims = columns - 1, n_dims_output = rows - 1),
            # e.g. a 3x4 projection matrix
            nr, nc = rng.choice([(2, 3), (3, 4), (4, 3), (3, 2)])
            rc["d"] = nc - 1
            rc["h"] = [[dy(rng, 12, 2) for _ in range(nc)] for _ in range(nr)]
            rc["nonsquare"] = True
    elif c == "Affine":
        rc["h"] = [[dy(rng, 12, 2) for _ in range(d + 1)] for _ in range(d)] + [[0.0] * d + [1.0]]
    elif c == "Similarity":
        if d == 2:
            a, b = dy(rng, 12, 2), dy(rng, 12, 2, nonzero=True)
            rc["h"] = [[a, -b, dy(rng)], [b, a, dy(rng)], [0.0, 0.0, 1.0]]
            if rng.random() < 0.15:
                # a reflection [a b; b -a] (the constructor does not check): outside what [a, b, tx, ty] can represent
                rc["h"][0][1], rc["h"][1][1] = b, -a
                rc["mirror"] = True
        else:
            s = dy(rng, 12, 2, nonzero=True)
            rc["h"] = [[s, 0, 0, dy(rng)], [0, s, 0, dy(rng)], [0, 0, s, dy(rng)], [0.0, 0.0, 0.0, 1.0]]
    elif c == "Translation":
        rc["t"] = [dy(rng) for _ in range(d)]
    elif c == "UniformScale":
        rc["s"] = dy(rng, 12, 2, nonzero=True)
    elif c == "NonUniformScale":
        rc["s"] = [dy(rng, 12, 2, nonzero=True) for _ in range(d)]
    if c in ("Homogeneous", "Affine", "Similarity") and rng.random() < 0.3:
        # a matrix typed with integer literals (np.array([[0, -1, 3], [1, 0, 4], [0, 0, 1]])): the object stores an
        # integer array; parameter vectors are still arbitrary floats
        rc["h"] = [[float(round(x)) for x in row] for row in rc["h"]]
        if c == "Similarity" and d == 2 and rc["h"][0][0] == 0 and rc["h"][1][0] == 0:
            rc["h"][1][0], rc["h"][0][1] = 1.0, (1.0 if rc.get("mirror") else -1.0)
        if c == "Similarity" and d == 3 and rc["h"][0][0] == 0:
            rc["h"][0][0] = rc["h"][1][1] = rc["h"][2][2] = 2.0
        rc["hdtype"] = "int"
    if c == "Rotation":
        if d == 3:
            rc["R"] = quat_R(rng.choice(unit_quaternions()))
            if rng.random() < 0.15:
                rc["R"] = [[r[0], r[1], -r[2]] for r in rc["R"]]      # an improper rotation (det -1): no quaternion
                rc["mirror"] = True
        else:
            cs, sn = common.rat_circle(rng, 6)
            rc["R"] = [[float(cs), -float(sn)], [float(sn), float(cs)]]
    if c not in ("Rotation", "AlignmentRotation"):
        # rotations excepted: normalising a quaternion in float32 / integers is not exact
        r = rng.random()
        if r < 0.1:
            rc["vdtype"] = "float32"
        elif r < 0.2:
            rc["vdtype"] = "int64"
    return rc


def gen_recipe(rng, c):
    rc = gen_recipe0(rng, c)
    # previous lives (history): 55% born from the constructor, the rest spread over the other lives
    rc["life"] = "fresh" if rng.random() < 0.55 else rng.choice(LIVES[1:])
    return rc


def gen_recipe0(rng, c):
    if c == "PointTree":
        # Tree.__init__ compares the index arrays of scipy's BFS tree with the adjacency matrix, which depends
        # on the storage order scipy returns; recipes the constructor itself rejects are redrawn
        while True:
            rc = gen_shape(rng, c)
            try:
                build(rc)
                return rc
            except ValueError:
                continue
    if c in SHAPES:
        return gen_shape(rng, c)
    if c in IMAGES:
        return gen_image(rng, c)
    return gen_xf(rng, c)


def vectorizable_dim(rc):
    c, d = rc["cls"], rc.get("d")
    if c in ("Similarity", "AlignmentSimilarity"):
        return d == 2
    if c in ("Rotation", "AlignmentRotation"):
        return d == 3
    return True


def gen_right_vector(rng, rc, n):
    """a right-length vector with small dyadic entries in the dtype the class stores"""
    np = np_()
    c = rc["cls"]
    if c in ("Rotation", "AlignmentRotation"):
        q = np.array(rng.choice(unit_quaternions()), dtype=float)
        return q / np.sqrt(q.dot(q))
    if c == "BooleanImage":
        return np.array([rng.random() < 0.5 for _ in range(n)], dtype=bool)
    if c in IMAGES:
        vd = rc.get("vdtype", rc["dtype"])
        if vd == "uint8":
            return np.array([rng.randint(0, 255) for _ in range(n)], dtype="uint8")
        if vd != rc["dtype"]:
            # float64 vector for a uint8 / float32 image: non-integral, negative, beyond 255, not float32-exact
            return np.array([dy(rng, 600, 3) + rng.choice([0.0, 2.0 ** -30]) for _ in range(n)], dtype="float64")
        return np.array([dy(rng, 32, 3) for _ in range(n)], dtype=vd)
    if rc.get("vdtype") == "int64":
        return np.array([rng.randint(-12, 12) for _ in range(n)], dtype="int64")
    return np.array([dy(rng, 12, 2) for _ in range(n)], dtype=rc.get("vdtype") or float)


def wrong_lengths(rng, rc, n):
    cand = {n + 1, n - 1, n // 2, 2 * n, 0, 1}
    if rc["cls"] in XFS:
        cand |= {4, 6, 7, 12, 2, 3}
    if rc["cls"] == "MaskedImage":
        np = np_()
        cand |= {len(rc["pixels"]), 2 * len(rc["pixels"])}
    cand = sorted(x for x in cand if x > 0 and x != n)
    rng.shuffle(cand)
    return cand + ([0] if n != 0 else [])       # the empty vector last: the least telling witness


def gen_wrong_vector(rng, rc, L):
    np = np_()
    if rc["cls"] == "BooleanImage":
        return np.array([rng.random() < 0.5 for _ in range(L)], dtype=bool)
    if rc["cls"] in IMAGES and rc["dtype"] == "uint8":
        return np.array([rng.randint(1, 255) for _ in range(L)], dtype="uint8")
    dt = rc["dtype"] if rc["cls"] in IMAGES else float
    if rc["cls"] not in IMAGES and rc.get("vdtype") == "int64":
        return np.array([rng.choice([-1, 1]) * rng.randint(1, 12) for _ in range(L)], dtype="int64")
    if rc["cls"] not in IMAGES and rc.get("vdtype"):
        dt = rc["vdtype"]
    return np.array([dy(rng, 12, 2, nonzero=True) for _ in range(L)], dtype=dt)


# ------------------------------------------------------------------------------------- observation helpers

def digest(o, _seen=None):
    """deep, order-preserving state digest of a menpo object (every array byte, dtype and shape included)"""
    np = np_()
    import scipy.sparse as sp
    if _seen is None:
        _seen = set()
    if isinstance(o, np.ndarray):
        return ("nd", o.dtype.str, o.shape, np.ascontiguousarray(o).tobytes())
    if sp.issparse(o):
        return ("sp", digest(np.asarray(o.todense()), _seen))
    if isinstance(o, (str, bytes, int, float, bool, type(None), np.generic)):
        return ("v", repr(o))
    if isinstance(o, dict):
        return ("d", tuple((repr(k), digest(v, _seen)) for k, v in o.items()))
    if isinstance(o, (list, tuple)):
        return ("l", tuple(digest(v, _seen) for v in o))
    if isinstance(o, (set, frozenset)):
        return ("s", tuple(sorted(repr(x) for x in o)))
    if hasattr(o, "__dict__"):
        if id(o) in _seen:
            return ("cycle",)
        _seen.add(id(o))
        items = []
        for k, v in sorted(o.__dict__.items()):
            if k == "_landmarks" and (v is None or not getattr(v, "_landmark_groups", True)):
                v = None     # the `landmarks` getter creates an empty manager lazily: not an observable change
            items.append((k, digest(v, _seen)))
        r = ("o", type(o).__name__, tuple(items))
        _seen.discard(id(o))
        return r
    return ("r", repr(o))


_STATE_KEYS = {}     # class name -> the attribute names a freshly constructed object of the class has


def register_state_keys(rc):
    """remember which attributes an object of this class has straight out of its constructor: those are its state; an
    underscore-private attribute that only appears later in the object's life is a memo"""
    c = rc["cls"]
    if c not in _STATE_KEYS:
        try:
            _STATE_KEYS[c] = set(build(dict(rc, life="fresh")).__dict__) | {"_landmarks"}
        except Exception:
            _STATE_KEYS[c] = None


def unchanged(o, before):
    """the receiver's observable state is what it was: byte digest of every public attribute and of every private
    attribute the constructor creates (matrix, target, source, landmarks, label masks ...).  An underscore-private
    attribute that is not constructor state (a memo some call created) is not observable state: the property speaks of
    what the object's queries return, and a wrong memo shows in the round-trip clauses.  Without a registered class the
    weaker rule applies: only private attributes that did not exist before the call are ignored."""
    after = digest(o)
    if (isinstance(after, tuple) and isinstance(before, tuple) and len(after) == 3 and len(before) == 3
            and after[0] == before[0] == "o"):
        state = _STATE_KEYS.get(type(o).__name__)
        if state:
            keep = lambda k: not k.startswith("_") or k in state
            before = (before[0], before[1], tuple((k, v) for k, v in before[2] if keep(k)))
        else:
            keys = {k for k, _v in before[2]}
            keep = lambda k: k in keys or not k.startswith("_")
        after = (after[0], after[1], tuple((k, v) for k, v in after[2] if keep(k)))
    return after == before


def own_arrays(o):
    """(name, array) for the arrays the object itself holds (writability clause)"""
    np = np_()
    out = []
    for k, v in sorted(o.__dict__.items()):
        if isinstance(v, np.ndarray):
            out.append((k, v))
        elif hasattr(v, "__dict__") and not k.startswith("_landmarks"):
            for k2, v2 in sorted(v.__dict__.items()):
                if isinstance(v2, np.ndarray):
                    out.append((k + "." + k2, v2))
    return out


def err_kind(e):
    if isinstance(e, NotImplementedError):
        return "notimpl"
    if isinstance(e, ValueError):
        return "value"
    return "other"


def supplier_of(o, meth):
    return "%s.%s" % (extract_c05.supplier(type(o), meth), meth)


def lms_state(o):
    np = np_()
    if not hasattr(o, "has_landmarks") or not o.has_landmarks:
        return []
    return [(k, type(o.landmarks[k]).__name__, np.array(o.landmarks[k].points)) for k in o.landmarks.keys()]


def lms_equal(a, b):
    np = np_()
    return len(a) == len(b) and all(x[0] == y[0] and x[1] == y[1] and x[2].shape == y[2].shape and
                                    np.array_equal(x[2], y[2]) for x, y in zip(a, b))


def arr_close(a, b, tol=TOL):
    np = np_()
    a, b = np.asarray(a), np.asarray(b)
    if a.shape != b.shape:
        return False
    if a.size == 0:
        return True
    a, b = a.astype(float), b.astype(float)
    if not (np.all(np.isfinite(a)) and np.all(np.isfinite(b))):
        return False
    scale = max(1.0, float(np.max(np.abs(a))), float(np.max(np.abs(b))))
    return bool(np.max(np.abs(a - b)) <= tol * (1 + scale))


def carried_state(o):
    """every observable component except the vectorised one (coordinates / pixels / matrix)"""
    np = np_()
    c = type(o).__name__
    st = {"class": c}
    if c in SHAPES:
        st["n_dims"] = o.n_dims
        if hasattr(o, "adjacency_matrix"):
            st["adjacency"] = digest(o.adjacency_matrix)
        if c == "PointTree":
            st["root"] = repr(o.root_vertex)
        if c == "LabelledPointUndirectedGraph":
            st["labels"] = digest(o._labels_to_masks)
        if hasattr(o, "trilist"):
            st["trilist"] = digest(o.trilist)
        if c == "ColouredTriMesh":
            st["colours"] = digest(o.colours)
        if c == "TexturedTriMesh":
            st["tcoords"] = digest(o.tcoords.points)
            st["texture"] = digest(o.texture.pixels)
    elif c in IMAGES:
        st["shape"] = tuple(o.shape)
        st["n_channels"] = o.n_channels
        if c == "MaskedImage":
            st["mask"] = digest(o.mask.pixels)
    else:
        if c in ALIGN:
            st["source"] = digest(o.source.points)
    return st


def wellformed_problems(r, orig):
    """class invariants and own queries of a from_vector result; [] = well formed.
    Only queries that succeed on the receiver are demanded of the result."""
    np = np_()
    c = type(orig).__name__
    probs = []
    if type(r) is not type(orig):
        return ["class %s instead of %s" % (type(r).__name__, c)]

    def query(name, f):
        try:
            f(orig)
        except Exception:
            return
        try:
            f(r)
        except Exception as e:
            probs.append("query %s raises %s" % (name, type(e).__name__))

    if c in SHAPES:
        p = r.points
        if not (isinstance(p, np.ndarray) and p.ndim == 2 and p.shape[1] == orig.n_dims):
            return ["points is not an (n, n_dims) array"]
        n = p.shape[0]
        if hasattr(r, "adjacency_matrix") and r.adjacency_matrix.shape != (n, n):
            probs.append("adjacency %r for %d points" % (r.adjacency_matrix.shape, n))
        if c == "LabelledPointUndirectedGraph" and any(len(m) != n for m in r._labels_to_masks.values()):
            probs.append("label masks not of length n_points")
        if hasattr(r, "trilist") and r.trilist.size and (r.trilist.max() >= n or r.trilist.min() < 0):
            probs.append("trilist index %d out of %d points" % (r.trilist.max(), n))
        if c == "ColouredTriMesh" and r.colours.shape[0] != n:
            probs.append("colours for %d vertices, %d points" % (r.colours.shape[0], n))
        if c == "TexturedTriMesh" and r.tcoords.n_points != n:
            probs.append("tcoords for %d vertices, %d points" % (r.tcoords.n_points, n))
        if n > 0:
            query("n_points", lambda o: o.n_points)
            query("bounds", lambda o: o.bounds())
            query("as_vector", lambda o: o.as_vector())
            if hasattr(r, "trilist"):
                query("tri_areas", lambda o: o.tri_areas())
            if hasattr(r, "adjacency_matrix"):
                query("n_edges", lambda o: o.n_edges)
                query("from_mask", lambda o: o.from_mask(np.ones(o.n_points, dtype=bool)))
            elif c != "PointCloud":
                query("from_mask", lambda o: o.from_mask(np.ones(o.n_points, dtype=bool)))
    elif c in IMAGES:
        p = r.pixels
        if not (isinstance(p, np.ndarray) and p.shape == (r.n_channels,) + tuple(orig.shape)):
            probs.append("pixels of shape %r" % (getattr(p, "shape", None),))
        if c == "MaskedImage" and tuple(r.mask.shape) != tuple(r.shape):
            probs.append("mask shape differs from image shape")
        if c == "BooleanImage" and p.dtype != bool:
            probs.append("boolean image with dtype %s" % p.dtype)
        query("as_vector", lambda o: o.as_vector())
        query("n_parameters", lambda o: o.n_parameters)
    else:
        h = r.h_matrix
        if c == "Homogeneous":
            # any rectangular (n_dims_output + 1) x (n_dims + 1) matrix; the object must keep its dimensions
            if not (isinstance(h, np.ndarray) and h.ndim == 2 and min(h.shape) >= 2):
                return ["h_matrix is %s" % ("None" if h is None else "not a 2-d array of at least 2 x 2")]
            if h.shape != orig.h_matrix.shape:
                probs.append("h_matrix of shape %r on a transform of shape %r" % (h.shape, orig.h_matrix.shape))
        elif not (isinstance(h, np.ndarray) and h.ndim == 2 and h.shape[0] == h.shape[1] and h.shape[0] >= 2):
            return ["h_matrix is %s" % ("None" if h is None else "not a square array")]
        if not np.all(np.isfinite(h)):
            probs.append("h_matrix not finite")
        d = h.shape[0] - 1
        if c != "Homogeneous":
            if d not in (2, 3):
                probs.append("affine family in %d-D" % d)
            if not (np.all(h[-1, :-1] == 0) and h[-1, -1] == 1):
                probs.append("bottom row is not [0 .. 0 1]")
        L, t = h[:-1, :-1], h[:-1, -1]
        off = L - np.diag(np.diag(L)) if c != "Homogeneous" else None
        if c in ("Translation", "AlignmentTranslation") and not np.array_equal(L, np.eye(d)):
            probs.append("translation with a non-identity linear part")
        if c in ("UniformScale", "AlignmentUniformScale"):
            if np.any(off != 0) or np.any(t != 0) or np.any(np.diag(L) != L[0, 0]):
                probs.append("non-uniform-diagonal")
        if c == "NonUniformScale" and (np.any(off != 0) or np.any(t != 0)):
            probs.append("scale with off-diagonal entries")
        if c in ("Similarity", "AlignmentSimilarity") and d == 2 and not (
                abs(h[0, 0] - h[1, 1]) <= TOL * (1 + abs(h[0, 0])) and abs(h[0, 1] + h[1, 0]) <= TOL * (1 + abs(h[0, 1]))):
            probs.append("2-D similarity without the [a -b; b a] structure")
        if c in ("Rotation", "AlignmentRotation") and (np.any(t != 0) or not np.allclose(L.dot(L.T), np.eye(d), atol=1e-8)):
            probs.append("rotation that is not orthogonal / has a translation")
        if c in ALIGN:
            if d != orig.n_dims:
                probs.append("alignment changed dimension")
            elif not arr_close(r.target.points, r.apply(r.source.points)):
                probs.append("target-not-resynced")
        query("n_dims", lambda o: o.n_dims)
        query("apply", lambda o: o.apply(np.zeros((2, o.n_dims))))
        if h.shape == orig.h_matrix.shape:
            query("as_vector", lambda o: o.as_vector())
            query("n_parameters", lambda o: o.n_parameters)
    return probs


# ------------------------------------------------------------------------------------- the oracle, per object

class Obs(dict):
    """what the implementation did on one (object, vector) pair, in the model's vocabulary"""


def run_as_vector(ctx, rc, obj):
    """clauses: as_vector read-only, (n_parameters,), object writable and unchanged.  Returns (vector, n) or None"""
    np = np_()
    c = rc["cls"]
    rp = {"recipe": rc, "python": py_of(rc, None, "w = obj.as_vector(); print(w.shape, w.flags.writeable, obj.n_parameters)")}
    site_av = "C05/as_vector/" + supplier_of(obj, "_as_vector")
    before = digest(obj)
    writable0 = {name for name, a in own_arrays(obj) if a.flags.writeable}
    try:
        v = obj.as_vector()
    except Exception as e:
        ctx.fail(site_av, "raises", "%s.as_vector() raised %s" % (c, type(e).__name__), rp)
        return None
    ok = True
    if not isinstance(v, np.ndarray) or v.ndim != 1:
        ctx.fail(site_av, "%d-d" % getattr(v, "ndim", -1),
                 "%s.as_vector() has shape %r, not (n_parameters,)" % (c, getattr(v, "shape", None)), rp)
        ok = False
    try:
        n = obj.n_parameters
    except Exception as e:
        ctx.fail("C05/n_parameters/" + supplier_of(obj, "n_parameters"), "raises",
                 "%s.n_parameters raised %s" % (c, type(e).__name__), rp)
        return None
    if ok:
        ctx.check(v.shape == (n,), site_av, "length", "%s.as_vector() has %r entries, n_parameters = %r" % (c, v.shape, n), rp)
    ctx.check(not v.flags.writeable, site_av, "writable-vector", "%s.as_vector() is writable" % c, rp)
    for name, a in own_arrays(obj):
        # (an object born from a read-only vector holds a read-only view from the start: not as_vector's doing)
        ctx.check(a.flags.writeable or name not in writable0, site_av, "object-frozen",
                  "after as_vector() the object's own array %s is read-only" % name, rp)
    ctx.check(unchanged(obj, before), site_av, "receiver-changed", "%s.as_vector() changed the object" % c, rp)
    return np.atleast_1d(v), n


def state_problems(r, obj, v, rc, full):
    """from_vector(v) on obj gave r: round trip + carried state.  `full`: v is obj's own vector, so the
    complete observable state must be reproduced."""
    np = np_()
    c = rc["cls"]
    probs = []
    if type(r) is not type(obj):
        return [("class", "result is a %s" % type(r).__name__)]
    if carried_state(r) != carried_state(obj):
        a, b = carried_state(r), carried_state(obj)
        probs.append(("carried-" + "+".join(sorted(k for k in b if a.get(k) != b[k])), "carried state differs"))
    if not lms_equal(lms_state(r), lms_state(obj)):
        probs.append(("landmarks-dropped" if not lms_state(r) else "landmarks-differ",
                      "landmarks of the result: %r, of the receiver: %r" % ([x[0] for x in lms_state(r)], [x[0] for x in lms_state(obj)])))
    try:
        w = np.atleast_1d(r.as_vector())
        if (c in ("Rotation", "AlignmentRotation") and len(w) == 4 and abs(float(np.asarray(v)[0])) < 1e-6
                and arr_close(w, -np.asarray(v, dtype=float), 1e-9)):
            pass      # w = 0 (a half turn): q and -q are both canonical, the property quantifies over canonical quaternions
        elif not arr_close(w, v, 1e-9):
            probs.append(("as_from", "from_vector(v).as_vector() = %r, v = %r" % (w[:8].tolist(), np.asarray(v)[:8].tolist())))
    except Exception as e:
        probs.append(("as_from-raises", "from_vector(v).as_vector() raised %s" % type(e).__name__))
    if c == "MaskedImage":
        m = obj.mask.mask
        nt = int(m.sum())
        vv = np.asarray(v)
        for ch in range(obj.n_channels):
            if not np.array_equal(r.pixels[ch][m], vv[ch * nt:(ch + 1) * nt]):
                probs.append(("masked-layout", "channel %d under the mask is not v[%d:%d] in raster order" % (ch, ch * nt, (ch + 1) * nt)))
                break
        if np.any(r.pixels[..., ~m] != 0):
            probs.append(("masked-nonzero-outside", "pixels outside the mask are not zero"))
    if c in ALIGN and not arr_close(r.target.points, r.apply(r.source.points)):
        probs.append(("target-not-resynced", "target differs from the aligned source after the update"))
    if full:
        if c in SHAPES and not np.array_equal(r.points, obj.points):
            probs.append(("points", "coordinates not reproduced"))
        if c in ("Image", "BooleanImage") and not (r.pixels.dtype == obj.pixels.dtype and np.array_equal(r.pixels, obj.pixels)):
            probs.append(("pixels", "pixels not reproduced"))
        if c == "MaskedImage" and not np.array_equal(r.pixels[..., obj.mask.mask], obj.pixels[..., obj.mask.mask]):
            probs.append(("pixels", "pixels under the mask not reproduced"))
        if c in XFS and not arr_close(r.h_matrix, obj.h_matrix):
            probs.append(("h_matrix", "transform matrix not reproduced"))
    return probs


def observe_result(r, obj):
    """the from_vector result in the model's vocabulary"""
    np = np_()
    c = type(obj).__name__
    o = Obs(kind="ok", wf=not wellformed_problems(r, obj))
    if c in SHAPES:
        o["lms"] = len(lms_state(r))
        o["state"] = np.asarray(r.points, dtype=float).ravel()
    elif c in IMAGES:
        o["lms"] = len(lms_state(r))
        o["state"] = np.asarray(r.pixels, dtype=float).ravel()
    else:
        o["h"] = None if r.h_matrix is None else np.asarray(r.h_matrix, dtype=float)
        o["tgt"] = np.asarray(r.target.points, dtype=float) if c in ALIGN else None
    try:
        av = r.as_vector()
        o["av"] = ("vec", np.atleast_1d(np.asarray(av, dtype=float)))
        o["avdt"] = dt_name(av.dtype)
    except Exception as e:
        o["av"] = ("err", err_kind(e))
    o["dt"] = dt_name(main_array(r).dtype) if main_array(r) is not None else None
    return o


def is_reflection(o):
    """a member of the similarity / rotation families whose linear part clearly reverses orientation"""
    np = np_()
    if type(o).__name__ not in ("Similarity", "AlignmentSimilarity", "Rotation", "AlignmentRotation") or o.h_matrix is None:
        return False
    L = np.asarray(o.h_matrix, dtype=float)[:-1, :-1]
    return bool(np.linalg.det(L) < -1e-9 * (1 + np.abs(L).max() ** L.shape[0]))


def main_array(o):
    """the array the vector is about: coordinates / pixels / homogeneous matrix"""
    c = type(o).__name__
    return o.points if c in SHAPES else o.pixels if c in IMAGES else o.h_matrix


def dt_name(dt):
    n = str(dt)
    return n if n in ("bool", "uint8", "int64", "float32", "float64") else "other"


def run_inplace(rc, obj, v):
    """the deprecated public mutator on a second object built from the same recipe: Obs of the receiver after
    `from_vector_inplace(v)` plus what the call itself did (return value, warning, receiver after a failure)"""
    import warnings
    np = np_()
    o2 = build(rc)
    before = digest(o2)
    with warnings.catch_warnings(record=True) as wl:
        warnings.simplefilter("always")
        try:
            ret = o2.from_vector_inplace(v)
            exc = None
        except Exception as e:
            ret, exc = None, e
    deprecated = any(w.category.__name__ == "MenpoDeprecationWarning" for w in wl)
    if exc is not None:
        o = Obs(kind="err", err=err_kind(exc))
        o["receiver_kept"] = digest(o2) == before
        if type(o2).__name__ in XFS:
            o["h_after"] = None if o2.h_matrix is None else np.asarray(o2.h_matrix, dtype=float)
            o["rest_kept"] = (not type(o2).__name__ in ALIGN or
                              (digest(o2.source) == digest(obj.source) and digest(o2.target) == digest(obj.target)))
    else:
        o = observe_result(o2, obj)
        o["returned_none"] = ret is None
    o["deprecated"] = deprecated
    return o


def run_from_vector(ctx, rc, obj, v, mode):
    """mode: 'own' (v = obj.as_vector()), 'right' (right length), 'wrong' (wrong length).  Returns Obs."""
    np = np_()
    c = rc["cls"]
    fv_site = supplier_of(obj, "from_vector")
    fvi_site = supplier_of(obj, "_from_vector_inplace")
    impl_site = fv_site if fv_site.split(".")[0] not in ("Vectorizable", "Homogeneous") else fvi_site
    # AlignmentX._from_vector_inplace is X._from_vector_inplace followed by the target re-sync: failures that are
    # not about the target are attributed to X
    base_site = impl_site[len("Alignment"):] if impl_site.startswith("Alignment") else impl_site
    rp = {"recipe": rc, "vector": [float(x) for x in np.asarray(v, dtype=float)], "mode": mode,
          "python": py_of(rc, v, "r = obj.from_vector(%s)" % ("obj.as_vector()" if mode == "own" else "v"))}
    before = digest(obj)
    writable0 = {name for name, a in own_arrays(obj) if a.flags.writeable}
    v_before = np.array(v, copy=True)
    try:
        r = obj.from_vector(v)
        exc = None
    except Exception as e:
        r, exc = None, e
    ctx.check(unchanged(obj, before), "C05/from_vector.receiver/" + impl_site, "receiver-changed",
              "%s.from_vector changed the object it was called on" % c, rp)
    ctx.check(np.array_equal(np.asarray(v), v_before), "C05/from_vector.receiver/" + impl_site, "argument-changed",
              "%s.from_vector changed its argument" % c, rp)
    if exc is not None:
        if mode != "wrong":
            ctx.fail("C05/from_vector/" + impl_site, "raises",
                     "%s.from_vector raised %s on a vector of the right length (%d)" % (c, type(exc).__name__, len(v)), rp)
        return Obs(kind="err", err=err_kind(exc))
    if mode == "wrong":
        probs = wellformed_problems(r, obj)
        if probs:
            pat = "ill-formed-result"
            if "h_matrix is None" in probs:
                pat = "h_matrix-None"
            elif "non-uniform-diagonal" in probs:
                pat = "non-uniform-diagonal"
            tgt = any("target" in p or "alignment" in p for p in probs)
            ctx.fail("C05/wrong-length/" + (impl_site if tgt else base_site), pat,
                     "%s.from_vector accepted a vector of length %d (n_parameters = %s) and returned an object that "
                     "is not well formed: %s" % (c, len(v), rc.get("_n"), "; ".join(probs[:3])), rp)
    else:
        for pat, text in state_problems(r, obj, v, rc, full=(mode == "own")):
            if pat == "h_matrix" and is_reflection(obj):
                # a reflection cannot be written as [a, b, tx, ty] / as a unit quaternion: recorded finding (own pattern, so
                # that a lost matrix of a proper similarity / rotation is still a new violation)
                pat, text = "reflection-not-reproduced", ("the receiver is a reflection (det of the linear part < 0): "
                                                          "from_vector(as_vector()) returns the proper transform with the "
                                                          "same parameters instead")
                ctx.count("reflection-receiver:not-reproduced")
            ctx.fail("C05/from_vector/" + (impl_site if "target" in pat else base_site), pat,
                     "%s (%s vector): %s" % (c, "its own" if mode == "own" else "a right-length", text), rp)
        for name, a in own_arrays(obj):
            ctx.check(a.flags.writeable or name not in writable0, "C05/from_vector.receiver/" + impl_site, "object-frozen",
                      "after from_vector the receiver's own array %s is read-only" % name, rp)
    return observe_result(r, obj)


# ------------------------------------------------------------------------------------- model request / compare

def fl(a):
    np = np_()
    return [common.fq(float(x)) for x in np.asarray(a, dtype=float).ravel()]


def lms_tokens(obj):
    toks = [str(len(lms_state(obj)))]
    for i, (k, _, p) in enumerate(lms_state(obj)):
        flat = fl(p)
        toks += [str(i), str(len(flat))] + flat
    return toks


def mat_tokens(m):
    np = np_()
    if m is None:
        return ["0", "0"]
    m = np.asarray(m, dtype=float)
    return [str(m.shape[0]), str(m.shape[1])] + fl(m)


def request_line(cid, rc, obj, v):
    np = np_()
    c = rc["cls"]
    vt = [str(len(v))] + fl(v)
    if c in SHAPES:
        nv = 0
        if hasattr(obj, "adjacency_matrix"):
            nv = obj.adjacency_matrix.shape[0]
        if c == "ColouredTriMesh":
            nv = obj.colours.shape[0]
        if c == "TexturedTriMesh":
            nv = obj.tcoords.n_points
        tris = [str(int(t)) for t in obj.trilist.ravel()] if hasattr(obj, "trilist") else []
        pts = fl(obj.points)
        toks = ["shape", c, str(obj.n_dims), str(len(pts))] + pts + [str(nv), str(len(tris))] + tris + ["0"] + lms_tokens(obj) + vt
    elif c in IMAGES:
        shape = [str(s) for s in obj.shape]
        px = fl(obj.pixels)
        mask = [("1" if b else "0") for b in obj.mask.mask.ravel()] if c == "MaskedImage" else []
        toks = ["img", c, str(len(shape))] + shape + [str(obj.n_channels)] + px + [str(len(mask))] + mask + lms_tokens(obj) + vt
    else:
        src = obj.source.points if c in ALIGN else None
        tgt = obj.target.points if c in ALIGN else None
        toks = ["xf", c] + mat_tokens(obj.h_matrix) + mat_tokens(src) + mat_tokens(tgt) + vt
    return cid + " " + " ".join(toks)


class Rd:
    def __init__(self, s):
        self.t, self.i = s.split(), 0

    def tok(self):
        self.i += 1
        return self.t[self.i - 1]

    def peek(self):
        return self.t[self.i] if self.i < len(self.t) else None

    def vec(self):
        n = int(self.tok())
        return [common.pq(self.tok()) for _ in range(n)]

    def mat(self):
        r, c = int(self.tok()), int(self.tok())
        return (r, c, [common.pq(self.tok()) for _ in range(r * c)])

    def av(self):
        k = self.tok()
        if k == "err":
            return ("err", self.tok())
        if k == "vec":
            return ("vec", self.vec())
        return ("K", [common.pq(self.tok()) for _ in range(16)])


def parse_reply(s, fam):
    rd = Rd(s)
    out = {}
    assert rd.tok() == "np"
    t = rd.tok()
    out["np"] = ("err", rd.tok()) if t == "err" else int(t)
    if fam == "xf":
        assert rd.tok() == "nd"
        out["nd"] = (int(rd.tok()), int(rd.tok()))
        assert rd.tok() == "av"
        out["av"] = rd.av()
    else:
        assert rd.tok() == "av"
        out["av"] = ("vec", rd.vec())
    for tag in ("C", "F", "I", "J"):
        if tag == "I" and fam == "xf":
            out["I"], out["J"] = out["C"], out["F"]        # Homogeneous.from_vector = copy() + in-place update
            break
        assert rd.tok() == tag, s
        k = rd.tok()
        if k == "err":
            out[tag] = {"kind": "err", "err": rd.tok()}
            continue
        res = {"kind": "ok", "wf": rd.tok() == "1"}
        if fam == "xf":
            res["h"], res["tgt"] = rd.mat(), rd.mat()
            assert rd.tok() == "av"
            res["av"] = rd.av()
        else:
            res["lms"] = int(rd.tok())
            res["av"] = ("vec", rd.vec())
            res["state"] = rd.vec()
        out[tag] = res
    if fam == "xf" and rd.peek() == "X":
        rd.tok()
        out["X"] = rd.mat()
    return out


def vec_match(model, impl):
    return len(model) == len(impl) and arr_close([float(x) for x in model], impl)


def check_K(K, q):
    """certificate for the eigh contract: K (exact, from the model) has q (permuted) as eigenvector of eigenvalue 1"""
    np = np_()
    K = np.array([float(x) for x in K]).reshape(4, 4)
    e = np.array([q[1], q[2], q[3], q[0]], dtype=float)
    return abs(np.linalg.norm(e) - 1) < 1e-9 and np.max(np.abs(K.dot(e) - e)) < 1e-8 and q[0] >= 0


def av_match(model_av, impl_av):
    if model_av[0] == "err" or impl_av[0] == "err":
        return model_av[0] == impl_av[0] and model_av[1] == impl_av[1]
    if model_av[0] == "K":
        return len(impl_av[1]) == 4 and check_K(model_av[1], impl_av[1])
    return vec_match(model_av[1], impl_av[1])


def result_match(m, o, fam, values=True):
    """does the model result m describe the implementation observation o?  (`values=False`: the assignment cast
    the vector to the image's dtype, which the exact model does not follow: outcome and well-formedness only)"""
    np = np_()
    if m["kind"] != o["kind"]:
        return False
    if m["kind"] == "err":
        return m["err"] == o["err"]
    if m["wf"] != o["wf"]:
        return False
    if not values:
        return m["lms"] == o["lms"] and len(m["state"]) == len(o["state"])
    if fam == "xf":
        r, c, vals = m["h"]
        if o["h"] is None:
            if r != 0:
                return False
        elif o["h"].shape != (r, c) or not arr_close([float(x) for x in vals], o["h"].ravel()):
            return False
        if o["tgt"] is not None:
            tr, tc, tv = m["tgt"]
            if o["tgt"].shape != (tr, tc) or not arr_close([float(x) for x in tv], o["tgt"].ravel()):
                return False
        return av_match(m["av"], o["av"])
    return (m["lms"] == o["lms"] and vec_match(m["state"], o["state"]) and
            o["av"][0] == "vec" and vec_match(m["av"][1], o["av"][1]))


def family(c):
    return "shape" if c in SHAPES else "img" if c in IMAGES else "xf"


def compare(ctx, cid, rc, rec, reply):
    """model vs implementation for one (object, vector) line"""
    fam = family(rc["cls"])
    try:
        m = parse_reply(reply, fam)
    except Exception:
        ctx.mismatch("parse", "unreadable model reply %r" % reply[:200], {"recipe": rc})
        return
    rp = {"recipe": rc, "vector": rec["vec"], "mode": rec["mode"], "model_reply": reply[:600]}
    # n_parameters / as_vector of the receiver
    inp, iav, ind = rec["np"], rec["av"], rec["nd"]
    if inp is not None and m["np"] != inp:
        ctx.mismatch("n_parameters", "%s: model %r, implementation %r" % (rc["cls"], m["np"], inp), rp)
    if rec.get("reflection") and fam == "xf" and m["av"][0] == "K":
        ctx.count("model:improper-rotation-as_vector-not-compared")     # outside the eigh contract (K has no eigenvalue 1)
    elif iav is not None and not av_match(m["av"], iav):
        ctx.mismatch("as_vector", "%s: model %r, implementation %r" % (rc["cls"], str(m["av"])[:120], str(iav)[:120]), rp)
    if fam == "xf" and ind is not None:
        if ind == m["nd"][1]:
            pass
        elif ind == m["nd"][0]:
            if not rec["oracle_failed"]:
                ctx.mismatch("as_vector.ndim", "implementation follows the coded model but the oracle accepted it", rp)
        else:
            ctx.mismatch("as_vector.ndim", "ndim %r, model coded/fixed %r" % (ind, m["nd"]), rp)
    o = rec["fv"]
    if o is None:
        return
    if result_match(m["F"], o, fam):
        ctx.count("model:matches-fixed")
    elif result_match(m["C"], o, fam):
        ctx.count("model:matches-coded-only")
        compliant = rec["mode"] == "wrong" and (m["C"]["kind"] == "err" or m["C"]["wf"])
        if not rec["oracle_failed"] and not compliant:
            ctx.mismatch("from_vector", "%s: implementation follows the coded (defective) model branch but the oracle "
                                        "accepted the case" % rc["cls"], rp)
    else:
        ctx.mismatch("from_vector", "%s mode=%s: implementation %s, model coded %s / fixed %s" % (
            rc["cls"], rec["mode"], brief(o), brief(m["C"]), brief(m["F"])), rp)
    compare_inplace(ctx, rc, rec, m, fam, rp)


def brief(o):
    if o["kind"] == "err":
        return "err:" + o["err"]
    return "ok(wf=%s)" % o["wf"]


def compare_inplace(ctx, rc, rec, m, fam, rp):
    """from_vector_inplace: model (`fvi`, both variants) vs the receiver after the call"""
    o = rec.get("ip")
    if o is None:
        return
    if not o["deprecated"]:
        ctx.mismatch("from_vector_inplace.warning", "%s.from_vector_inplace did not warn MenpoDeprecationWarning" % rc["cls"], rp)
    if o["kind"] == "ok" and not o["returned_none"]:
        ctx.mismatch("from_vector_inplace.return", "%s.from_vector_inplace returned a value" % rc["cls"], rp)
    if o["kind"] == "err":
        # the receiver after a failed update: untouched, except where the model says otherwise (`afterFailedFvi`)
        if fam != "xf":
            ok = o["receiver_kept"]
        else:
            r_, c_, vals = m["X"]
            ok = o["rest_kept"] and (o["h_after"] is not None and o["h_after"].shape == (r_, c_) and
                                     arr_close([float(x) for x in vals], o["h_after"].ravel()))
            ctx.count("inplace:failed:" + ("receiver-kept" if o["receiver_kept"] else "receiver-half-updated"))
        if not ok:
            ctx.mismatch("from_vector_inplace.failed-update", "%s.from_vector_inplace raised and left the receiver in a "
                         "state the model does not predict" % rc["cls"], rp)
    values = not rec.get("ip_lossy")
    if result_match(m["J"], o, fam, values):
        ctx.count("inplace:matches-fixed")
    elif result_match(m["I"], o, fam, values):
        ctx.count("inplace:matches-coded-only")
        compliant = rec["mode"] == "wrong" and (m["I"]["kind"] == "err" or m["I"]["wf"])
        if not rec["oracle_failed"] and not compliant:
            ctx.mismatch("from_vector_inplace", "%s: the in-place update follows the coded (defective) model branch but "
                                                "the from_vector oracle accepted the case" % rc["cls"], rp)
    else:
        ctx.mismatch("from_vector_inplace", "%s mode=%s: receiver after from_vector_inplace %s, model coded %s / fixed %s"
                     % (rc["cls"], rec["mode"], brief(o), brief(m["I"]), brief(m["J"])), rp)


def parse_dt(reply):
    t = reply.split()
    return dict(zip(t[0::2], t[1::2]))


def compare_dtype(ctx, rc, rec, reply):
    """the dtype table of the model vs the arrays of the real results"""
    rp = {"recipe": rc, "vector": rec["vec"], "mode": rec["mode"], "vdtype": rec["dts"][1], "model_reply": reply}
    try:
        m = parse_dt(reply)
        m["fv"], m["av"], m["ip"], m["own"]
    except Exception:
        ctx.mismatch("parse", "unreadable model reply %r" % reply[:200], rp)
        return
    if rec["avdt"] is not None and m["own"] != rec["avdt"]:
        ctx.mismatch("dtype.as_vector", "%s: as_vector() is %s, model %s" % (rc["cls"], rec["avdt"], m["own"]), rp)
    o = rec["fv"]
    if o is not None and o["kind"] == "ok":
        if o.get("dt") != m["fv"]:
            ctx.mismatch("dtype.from_vector", "%s (%s array, %s vector): from_vector built a %s array, model %s"
                         % (rc["cls"], rec["dts"][0], rec["dts"][1], o.get("dt"), m["fv"]), rp)
        if "avdt" in o and o["avdt"] != m["av"]:
            ctx.mismatch("dtype.as_from", "%s: from_vector(v).as_vector() is %s, model %s" % (rc["cls"], o["avdt"], m["av"]), rp)
    o = rec.get("ip")
    if o is not None and o["kind"] == "ok" and o.get("dt") != m["ip"]:
        ctx.mismatch("dtype.from_vector_inplace", "%s (%s array, %s vector): after from_vector_inplace the array is %s, "
                     "model %s" % (rc["cls"], rec["dts"][0], rec["dts"][1], o.get("dt"), m["ip"]), rp)
    ctx.count("dtype:%s<-%s" % (rec["dts"][0], rec["dts"][1]))


# ------------------------------------------------------------------------------------- one object

def explore_object(ctx, rng, rc, lines, recs, n_wrong, with_model=True):
    """all clauses on one object; appends driver lines"""
    np = np_()
    c = rc["cls"]
    register_state_keys(rc)
    try:
        obj = build(rc)
    except Exception as e:
        # the constructor, or the previous life of the object (copy / from_vector / from_vector_inplace of its OWN vector)?
        try:
            fresh = build(dict(rc, life="fresh"))
        except Exception:
            raise common.Infra("generator produced a recipe the constructor rejects (%s): %r" % (type(e).__name__, rc))
        ctx.count("class:" + c)
        ctx.fail("C05/from_vector/" + supplier_of(fresh, "_from_vector_inplace"), "raises",
                 "%s: giving the object its previous life %r (copy / from_vector / from_vector_inplace of its own or a "
                 "right-length vector) raised %s: %s" % (c, rc.get("life"), type(e).__name__, e),
                 {"recipe": rc, "python": py_of(rc, None, "")})
        ctx.case((c, "life-raises", json.dumps(rc, sort_keys=True)), nontrivial=True)
        return
    ctx.count("class:" + c)
    if rc.get("nonsquare"):
        ctx.count("homogeneous:non-square")
    if c in IMAGES:
        ctx.count("dtype:" + rc["dtype"])
        if "maskkind" in rc:
            ctx.count("mask:" + rc["maskkind"])
    ctx.count("landmark-groups:%d" % len(rc.get("landmarks", [])))
    nf0 = ctx._c05_fails
    if not vectorizable_dim(rc):
        # outside the quantifier: only the error kinds are compared with the model
        ctx.count("not-vectorizable-dim")
        try:
            obj.as_vector()
            iav = None
        except Exception as e:
            iav = ("err", err_kind(e))
        v = np.array([dy(rng) for _ in range(4)])
        try:
            r = obj.from_vector(v)
            o = observe_result(r, obj)
        except Exception as e:
            o = Obs(kind="err", err=err_kind(e))
        cid = str(len(lines))
        lines.append(request_line(cid, rc, obj, v))
        recs[cid] = dict(rc=rc, vec=fl(v), mode="notvec", np=None, av=iav, nd=None, fv=o, oracle_failed=True)
        ctx.case((c, "notvec", json.dumps(rc, sort_keys=True)), nontrivial=False)
        return
    res = run_as_vector(ctx, rc, obj)
    if res is None:
        return
    own, n = res
    rc["_n"] = n
    try:
        nd = obj._as_vector().ndim
    except Exception:
        nd = None
    av_failed = ctx._c05_fails > nf0
    plan = [("own", own)]
    plan.append(("right", gen_right_vector(rng, rc, n)))
    if rng.random() < 0.3:
        plan.append(("right", gen_right_vector(rng, rc, n)))
    for L in wrong_lengths(rng, rc, n)[:n_wrong]:
        plan.append(("wrong", gen_wrong_vector(rng, rc, L)))
    for mode, v in plan:
        nf = ctx._c05_fails
        o = run_from_vector(ctx, rc, obj, v, mode)
        failed = ctx._c05_fails > nf or av_failed
        ctx.count("mode:" + mode)
        ctx.count("outcome:%s:%s" % (mode, o["kind"] if o["kind"] == "ok" else "err-" + o["err"]))
        sig = (c, mode, json.dumps({k: w for k, w in rc.items() if k != "_n"}, sort_keys=True), tuple(fl(v)))
        ctx.case(sig, nontrivial=(n >= 2), sample={"class": c, "mode": mode, "n_parameters": n, "len(v)": len(v),
                                                   "outcome": brief(o)})
        if with_model:
            cid = str(len(lines))
            lines.append(request_line(cid, rc, obj, v))
            ip = run_inplace(rc, obj, v)
            ctx.count("inplace:%s:%s" % (mode, ip["kind"] if ip["kind"] == "ok" else "err-" + ip["err"]))
            arr = main_array(obj)
            full = c == "MaskedImage" and bool(obj.mask.all_true())
            with np.errstate(all="ignore"):
                lossy = (c == "MaskedImage" and not full and
                         not np.array_equal(np.asarray(v).astype(arr.dtype).astype(np.asarray(v).dtype), np.asarray(v)))
            recs[cid] = dict(rc=rc, vec=fl(v), mode=mode, np=n, av=("vec", np.asarray(own, dtype=float)), nd=nd, fv=o,
                             reflection=is_reflection(obj),
                             oracle_failed=failed, ip=ip, ip_lossy=lossy)
            did = str(len(lines))
            dts = (dt_name(arr.dtype), dt_name(np.asarray(v).dtype))
            lines.append("%s dt %s %d %s %s" % (did, c, 1 if full else 0, dts[0], dts[1]))
            recs[did] = dict(rc=rc, vec=fl(v), mode=mode, dts=dts, avdt=dt_name(own.dtype), fv=o, ip=ip, dtype_line=True)
    if with_model and c in ("Image", "MaskedImage"):
        explore_options(ctx, rng, rc, obj, own, lines, recs)
    if c in ("Image", "BooleanImage"):
        explore_nocopy(ctx, rng, rc, obj, own, n)
    ctx.count("life:" + rc.get("life", "fresh"))


def explore_options(ctx, rng, rc, obj, own, lines, recs, given=None):
    """the options of the image entry points: from_vector(v, n_channels=k) and as_vector(keep_channels=True)"""
    np = np_()
    c = rc["cls"]
    per = int(obj.mask.n_true()) if c == "MaskedImage" else int(np.prod(obj.shape))
    vd = rc.get("vdtype", rc["dtype"])
    if given is not None:
        k, v = given[0], np.array(given[1], dtype=vd)
        L = len(v)
    else:
        k = rng.choice([1, 2, 3])
        L = k * per
        if rng.random() < 0.35:
            L = rng.choice([x for x in (L + 1, L - 1, L + k, per, k, 2 * L, 0) if x >= 0 and x != L] or [L + 1])
        if vd == "uint8":
            v = np.array([rng.randint(0, 255) for _ in range(L)], dtype="uint8")
        else:
            v = np.array([dy(rng, 32, 3) for _ in range(L)], dtype=vd)
    rp = {"recipe": rc, "vector": [float(x) for x in v], "n_channels": k,
          "python": py_of(rc, v, "r = obj.from_vector(v, n_channels=%d); K = obj.as_vector(keep_channels=True)" % k)}
    site = "C05/from_vector.receiver/" + supplier_of(obj, "from_vector")
    before = digest(obj)
    try:
        r = obj.from_vector(v, n_channels=k)
        o = observe_result(r, obj)
        o["nch"] = int(r.n_channels)
    except Exception as e:
        o = Obs(kind="err", err=err_kind(e))
    ctx.check(unchanged(obj, before), site, "receiver-changed",
              "%s.from_vector(v, n_channels=%d) changed the object it was called on" % (c, k), rp)
    try:
        K = obj.as_vector(keep_channels=True)
        keep = [np.asarray(row, dtype=float) for row in K] if K.ndim == 2 else None
        ctx.check(not K.flags.writeable, "C05/as_vector/" + supplier_of(obj, "_as_vector"), "writable-vector",
                  "%s.as_vector(keep_channels=True) is writable" % c, rp)
        ctx.check(K.ndim == 2 and np.array_equal(K.ravel(), own), "C05/as_vector/" + supplier_of(obj, "_as_vector"),
                  "keep_channels", "%s.as_vector(keep_channels=True) is not as_vector() by channel" % c, rp)
    except Exception as e:
        keep = ("err", err_kind(e))
    ctx.check(unchanged(obj, before), "C05/as_vector/" + supplier_of(obj, "_as_vector"), "receiver-changed",
              "%s.as_vector(keep_channels=True) changed the object" % c, rp)
    ctx.count("option:n_channels:%s" % (o["kind"] if o["kind"] == "ok" else "err-" + o["err"]))
    ctx.case((c, "n_channels", json.dumps({a: w for a, w in rc.items() if a != "_n"}, sort_keys=True), k, tuple(fl(v))),
             nontrivial=(L >= 2))
    cid = str(len(lines))
    base = request_line(cid, rc, obj, v).split(" ")
    nv = len(v) + 1                                       # "<m> v1..vm" at the end of the img line
    toks = base[:len(base) - nv] + [str(k)] + base[len(base) - nv:]
    toks[1] = "imgn"
    lines.append(" ".join(toks))
    recs[cid] = dict(rc=rc, vec=fl(v), mode="n_channels", option_line=True, k=k, fv=o, keep=keep)


def explore_nocopy(ctx, rng, rc, obj, own, n):
    """from_vector(v, copy=False) (Image, BooleanImage): the same image as from_vector(v), the receiver untouched —
    also when v is the receiver's own read-only as_vector() view, which the result then aliases (oracle only)"""
    import warnings
    np = np_()
    c = rc["cls"]
    for mode, v in (("own", own), ("right", gen_right_vector(rng, rc, n))):
        rp = {"recipe": rc, "vector": [float(x) for x in np.asarray(v, dtype=float)], "mode": mode,
              "python": py_of(rc, v, "r = obj.from_vector(%s, copy=False)" % ("obj.as_vector()" if mode == "own" else "v"))}
        site = "C05/from_vector.receiver/" + supplier_of(obj, "from_vector")
        before = digest(obj)
        try:
            with warnings.catch_warnings():
                warnings.simplefilter("ignore")
                r = obj.from_vector(v, copy=False)
            ref = obj.from_vector(v)
        except Exception as e:
            ctx.fail("C05/from_vector/" + supplier_of(obj, "from_vector"), "raises",
                     "%s.from_vector(v, copy=False) raised %s on a vector of the right length" % (c, type(e).__name__), rp)
            continue
        ctx.check(unchanged(obj, before), site, "receiver-changed",
                  "%s.from_vector(v, copy=False) changed the object it was called on" % c, rp)
        for pat, text in state_problems(r, obj, v, rc, full=(mode == "own")):
            ctx.fail("C05/from_vector/" + supplier_of(obj, "from_vector"), pat,
                     "%s (copy=False, %s vector): %s" % (c, "its own" if mode == "own" else "a right-length", text), rp)
        ctx.check(digest(r.pixels) == digest(ref.pixels), "C05/from_vector/" + supplier_of(obj, "from_vector"),
                  "copy-flag-changes-result", "%s.from_vector(v, copy=False) differs from from_vector(v)" % c, rp)
        ctx.count("option:copy=False:" + mode)
        ctx.case((c, "nocopy", mode, json.dumps({a: w for a, w in rc.items() if a != "_n"}, sort_keys=True),
                  tuple(fl(v))), nontrivial=(n >= 2))


def compare_options(ctx, rc, rec, reply):
    rp = {"recipe": rc, "vector": rec["vec"], "n_channels": rec["k"], "model_reply": reply[:600]}
    try:
        rd = Rd(reply)
        assert rd.tok() == "N"
        kd = rd.tok()
        if kd == "err":
            m = {"kind": "err", "err": rd.tok()}
        else:
            m = {"kind": "ok", "wf": rd.tok() == "1", "lms": int(rd.tok()), "av": ("vec", rd.vec()), "state": rd.vec(),
                 "nch": int(rd.tok())}
        assert rd.tok() == "K"
        keep = [rd.vec() for _ in range(int(rd.tok()))]
    except Exception:
        ctx.mismatch("parse", "unreadable model reply %r" % reply[:200], rp)
        return
    o = rec["fv"]
    if not (result_match(m, o, "img") and (m["kind"] == "err" or m["nch"] == o["nch"])):
        ctx.mismatch("from_vector.n_channels", "%s.from_vector(v, n_channels=%d): implementation %s, model %s"
                     % (rc["cls"], rec["k"], brief(o), brief(m)), rp)
    ik = rec["keep"]
    if ik is None or isinstance(ik, tuple) or len(ik) != len(keep) or not all(vec_match(a, b) for a, b in zip(keep, ik)):
        ctx.mismatch("as_vector.keep_channels", "%s.as_vector(keep_channels=True) differs from the model's rows" % rc["cls"], rp)


def install_fail_counter(ctx):
    """ctx.fail swallows known findings silently; count every oracle failure (known or new) so the model
    comparison knows whether the oracle rejected a case"""
    orig_fail = ctx.fail
    ctx._c05_fails = 0

    def fail(site, pattern, text, replay):
        ctx._c05_fails += 1
        return orig_fail(site, pattern, text, replay)

    ctx.fail = fail


# ------------------------------------------------------------------------------------- run / search / replay

def generated(ctx):
    files = extract_c05.lean_files()
    ok = common.build_generated(ctx, files, extract_c05.TARGETS, extract_c05.N_OBLIGATIONS)
    ctx.count("dispatch-table:" + ("ok" if ok else "BROKEN"))
    rows = extract_c05.table()
    ctx.notes["dispatch_rows"] = len(rows)
    ctx.notes["effects_rows"] = {n: r for n, r in extract_c05.effects()}
    # informational only: does the measured effects table still EQUAL the model's prediction? (no obligation)
    ok_d, _out = common.lake_build(["MenpoModel.GenProps.C05Drift"]) if ok else (False, "")
    ctx.notes["effects_table_drift"] = (not ok_d) if ok else "not evaluated (obligations broken)"
    ctx.count("effects-table-drift:" + ("no" if ok_d else "yes"))
    # the vectorisation code itself, translated from the source text of the working tree; a function the vocabulary
    # has no words for is emitted as a stub whose equality obligation cannot be proved (a broken obligation, like a
    # failed equality proof: followed by the directed search, never an infrastructure error)
    files2, reasons = trans_c05.generated_files()
    nb = len(ctx.broken_obligations)
    ok2 = common.build_generated(ctx, files2, trans_c05.GEN_TARGETS, trans_c05.N_OBLIGATIONS)
    ctx.count("translated-source:" + ("ok" if ok2 else "BROKEN"))
    ctx.notes["translated_functions"] = trans_c05.n_translated()
    ctx.notes["untranslatable"] = reasons
    ctx._c05_suspects = []
    if not ok2:
        b = ctx.broken_obligations[nb]
        where = trans_c05.failing(b.get("output_tail", "") + "\n".join(b.get("errors", [])))
        b["failing_declarations"] = ["%s:%d %s" % w for w in where]
        b["untranslatable"] = reasons
        ctx._c05_suspects = trans_c05.classes_of([w[2] for w in where] + [r.split(":")[0] for r in reasons])


def prepare(ctx):
    """regenerate the table and its obligations, build, audit.  When the regenerated obligations no longer
    check (recorded in ctx.broken_obligations: a finding about /repo, not an infrastructure error) the audit
    covers the hand-written theorems only, since GenProps/C05.olean does not exist then."""
    generated(ctx)
    if ctx.broken_obligations:
        gen = set(trans_c05.THEOREMS)
        imports = [m for m in IMPORTS if "GenProps" not in m]
        theorems = [t for t in THEOREMS if ".GenProps." not in t and t not in gen]
    else:
        imports, theorems = IMPORTS, THEOREMS
    common.prepare_lean(ctx, PROP, imports, theorems)


def search(ctx):
    """directed search after a broken tie: many more objects of every class through the oracle only, the classes
    sharing a changed method first"""
    rng = ctx.rng
    order = list(ALL)
    changed = set()
    for b in ctx.broken_obligations:
        for e in b.get("errors", []):
            changed.add(e)
    for op, text, rp in ctx.mismatches:
        c = (rp.get("recipe") or {}).get("cls")
        if c in order:
            order.remove(c)
            order.insert(0, c)
    # the classes whose translated supplier no longer equals the model (and their alignment / plain counterparts) first
    for c in reversed(getattr(ctx, "_c05_suspects", [])):
        for k in [k for k in ALL if k == c or k == "Alignment" + c or "Alignment" + k == c]:
            order.remove(k)
            order.insert(0, k)
    for rnd in range(ctx.n(40, 120)):
        for c in order:
            rc = gen_recipe(rng, c)
            explore_object(ctx, rng, rc, [], {}, n_wrong=8, with_model=False)
            ctx.searched += 1
            if ctx.failures:
                return True
    return False


def run(ctx):
    install_fail_counter(ctx)
    prepare(ctx)
    ctx.trusted.extend(["numpy reshape / boolean-mask indexing / fill_diagonal / broadcasting / dtype-of-construction "
                        "semantics (modelled)",
                        "np.linalg.eigh contract for Rotation._as_vector (checked numerically per case)",
                        "harness/extract_c05.py (method-resolution table extraction; array instrumentation of the "
                        "measured effects table: np.shares_memory, byte snapshots)"])
    rng = ctx.rng
    per_class = ctx.n(32, 450)
    n_wrong = ctx.n(2, 4)
    lines, recs = [], {}
    for rnd in range(per_class):
        for c in ALL:
            rc = gen_recipe(rng, c)
            explore_object(ctx, rng, rc, lines, recs, n_wrong)
    model = common.run_driver(PROP, lines)
    for cid, rec in recs.items():
        if rec.get("dtype_line"):
            compare_dtype(ctx, rec["rc"], rec, model[cid])
        elif rec.get("option_line"):
            compare_options(ctx, rec["rc"], rec, model[cid])
        else:
            compare(ctx, cid, rec["rc"], rec, model[cid])
    return ctx.finish(search)


def replay(ctx, path):
    np = np_()
    install_fail_counter(ctx)
    prepare(ctx)
    data = json.load(open(path))
    rp = data.get("replay") or (data.get("broken_correspondence") or [{}])[0].get("case", {})
    rc = rp.get("recipe")
    if rc is None:
        print("replay file carries no recipe (broken obligation?): the regenerated obligations were re-checked: %s"
              % ("still broken" if ctx.broken_obligations else "ok"))
        ctx.case(("replay", "obligations"))
        return ctx.finish(None)
    rc = {k: v for k, v in rc.items() if k != "_n"}
    rc["landmarks"] = [tuple(x) for x in rc.get("landmarks", [])]
    if "labels" in rc:
        rc["labels"] = [tuple(x) for x in rc["labels"]]
    obj = build(rc)
    lines, recs = [], {}
    res = run_as_vector(ctx, rc, obj)
    print("as_vector:", None if res is None else (res[0].tolist(), res[1]))
    if res is not None and "vector" in rp and "n_channels" in rp:
        vals = [float(common.pq(x)) if isinstance(x, str) else x for x in rp["vector"]]
        explore_options(ctx, ctx.rng, rc, obj, res[0], lines, recs, given=(int(rp["n_channels"]), vals))
        model = common.run_driver(PROP, lines)
        for cid, rec in recs.items():
            print("from_vector(v, n_channels=%d): %s; model: %s" % (rec["k"], brief(rec["fv"]), model[cid][:300]))
            compare_options(ctx, rc, rec, model[cid])
    elif res is not None and "vector" in rp:
        own, n = res
        rc["_n"] = n
        mode = rp.get("mode", "wrong")
        vals = [float(common.pq(x)) if isinstance(x, str) else x for x in rp["vector"]]   # mismatch records: exact p/q
        v = own if mode == "own" else np.array(vals, dtype=rp.get("vdtype") or rc.get("vdtype") or float)
        o = run_from_vector(ctx, rc, obj, v, mode)
        print("from_vector (%s, len %d): %s" % (mode, len(v), brief(o)))
        try:
            nd = obj._as_vector().ndim
        except Exception:
            nd = None
        lines.append(request_line("0", rc, obj, v))
        ip = run_inplace(rc, obj, v)
        print("from_vector_inplace: %s" % brief(ip))
        arr = main_array(obj)
        full = rc["cls"] == "MaskedImage" and bool(obj.mask.all_true())
        with np.errstate(all="ignore"):
            lossy = (rc["cls"] == "MaskedImage" and not full and
                     not np.array_equal(np.asarray(v).astype(arr.dtype).astype(np.asarray(v).dtype), np.asarray(v)))
        recs["0"] = dict(rc=rc, vec=fl(v), mode=mode, np=n, av=("vec", np.asarray(own, dtype=float)), nd=nd, fv=o,
                         oracle_failed=ctx._c05_fails > 0, ip=ip, ip_lossy=lossy)
        dts = (dt_name(arr.dtype), dt_name(np.asarray(v).dtype))
        lines.append("1 dt %s %d %s %s" % (rc["cls"], 1 if full else 0, dts[0], dts[1]))
        recs["1"] = dict(rc=rc, vec=fl(v), mode=mode, dts=dts, avdt=dt_name(own.dtype), fv=o, ip=ip, dtype_line=True)
        model = common.run_driver(PROP, lines)
        print("model:", model["0"][:400], "|", model["1"])
        compare(ctx, "0", rc, recs["0"], model["0"])
        compare_dtype(ctx, rc, recs["1"], model["1"])
    ctx.case(("replay", json.dumps(rc, sort_keys=True, default=str)))
    return ctx.finish(None)
