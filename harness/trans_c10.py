"""C10 — the Python-level logic of menpo/model/pca.py, menpo/model/linear.py and menpo/model/vectorizable.py TRANSLATED from
the source text of the current working tree into Lean (`Generated/C10Src.lean`) on every run of `./check C10`;
`GenProps/C10Src.lean` proves every translated definition equal to the hand-written Core definition the C10 theorems
are about, for all arguments, and `GenProps/C10SrcProps.lean` states the bookkeeping clauses of the property for the
translated methods themselves.

harness/py2lean2.py (Translator2M) is the translator; this file holds

  (1) `TranslatorK` — two generic additions kept here so that the shared file is not touched while other builders use
      it (nothing in it is specific to C10):
        * CALLS RESOLVED THROUGH THE LIVE SIGNATURE OF THE CALLEE (`CallRule`): the arguments of a call site —
          positional, keyword, in any order, defaults taken from the callee's own `def` of the working tree — are
          bound to the callee's parameter NAMES, and the Lean template names the parameters.  So a call that passes
          `max_n_components` in the position of `n_samples` is translated to a different term than the keyword call,
          while re-ordering the keywords changes nothing.  As an expression or as a statement (`recv`: the Python
          variable rebound to the result, e.g. `self._constructor_helper(...)`, `PCAVectorModel.__init__(self, ...)`);
        * tuple assignment with attribute targets (`data, self.n_samples = f(...)`);
        * `"…".format(...)` (the text of an error message) is a unit value;
  (2) the C10 vocabulary and the list of functions to translate.

Vocabulary conventions (Core/C10Src.lean):
  * bookkeeping methods: `self` is the state `s : St` (`_components.shape[0]`, `_eigenvalues`, `_trimmed_eigenvalues`,
    `_n_active_components`); every Python integer is a `PyVal` (so `isinstance`, `min`, `int(..)` keep Python's typing),
    float scalars are `Rat`, 1-D arrays are `List Rat`; a method that may raise returns `Except Err _`;
  * `_total_variance_ratio()` / `_total_eigenvalues_cumulative_ratio()` INSIDE the setter are `fl.tvr s` / `fl.cum s`
    (what the float evaluation returned; `Fl.exact` = the translated accessors themselves, obligation `genFl_exact`);
  * constructors: `self` is a `Plumb A`, arrays are symbolic (`A`), library calls are fields of `np : NP A`.
"""
import ast
import os
from fractions import Fraction

from . import py2lean2
from .py2lean2 import Untranslatable, match, _pat, source_ast

GEN_REL = os.path.join("MenpoModel", "Generated", "C10Src.lean")
GEN_TARGETS = ["MenpoModel.Generated.C10Src", "MenpoModel.GenProps.C10Src", "MenpoModel.GenProps.C10SrcProps"]
N_DEFS = 31            # translated definitions (items()), + the glue `genFl`
N_OBLIGATIONS = 47     # theorems of GenProps/C10Src.lean (translated = Core, 38) and GenProps/C10SrcProps.lean (9)


# =====================================================================================================================
# (1) generic additions
# =====================================================================================================================

class CallRule:
    """`func`: python pattern of the called expression (`$s._constructor_helper`, `PCAVectorModel.__init__`, `pca`);
    `callee`: thunk returning the live function whose `def` supplies parameter names, order and defaults;
    `template`: Lean text over the callee's parameter names (and the metavariables of `func`);
    `bound`: name of the metavariable of `func` that is the implicit first argument (bound-method call) or None;
    `recv`: None (an expression) or the metavariable / parameter whose Python variable is rebound to the result
    (a statement); `flag`: "bind" when the Lean term is in the monad."""

    def __init__(self, func, callee, template, bound=None, recv=None, flag=""):
        self.func = _pat(func, "expr")
        self.callee, self.template, self.bound, self.recv, self.flag = callee, template, bound, recv, flag


def inspect_getattr_static(cls, name):
    import inspect
    try:
        return inspect.getattr_static(cls, name)
    except AttributeError:
        return None


def unwrap(f):
    """the plain function behind a property / classmethod / menpo.base.doc_inherit wrapper"""
    for _ in range(4):
        f = getattr(f, "mthd", f)
        f = getattr(f, "__func__", f)
    return f


class TranslatorK(py2lean2.Translator2M):
    def __init__(self, rules, calls=(), int_as=None):
        py2lean2.Translator2M.__init__(self, rules)
        self.calls = list(calls)
        self._ktmp = 0
        self.int_as = int_as      # Lean type of the integer literals of the source (None: left to elaboration)

    # ------------------------------------------------------------------------------------------ call binding
    def bind_call(self, rule, node, env, scope):
        """{parameter name: ast of the argument} by Python's own binding rules, defaults from the live `def`"""
        fn, _src = source_ast(unwrap(rule.callee()))
        a = fn.args
        if a.vararg or a.kwarg or a.kwonlyargs or a.posonlyargs:
            raise Untranslatable("callee %s has a signature beyond plain parameters" % fn.name)
        params = [x.arg for x in a.args]
        defaults = dict(zip(params[len(params) - len(a.defaults):], a.defaults))
        if any(isinstance(x, ast.Starred) for x in node.args) or any(k.arg is None for k in node.keywords):
            raise Untranslatable("call with * / ** arguments: `%s`" % ast.unparse(node))
        bound = {}
        pos = list(node.args)
        if rule.bound is not None:
            pos = [env[rule.bound]] + pos
        if len(pos) > len(params):
            raise Untranslatable("too many positional arguments in `%s`" % ast.unparse(node))
        for p, x in zip(params, pos):
            bound[p] = x
        for k in node.keywords:
            if k.arg not in params:
                raise Untranslatable("`%s` has no parameter %r" % (fn.name, k.arg))
            if k.arg in bound:
                raise Untranslatable("parameter %r given twice in `%s`" % (k.arg, ast.unparse(node)))
            bound[k.arg] = k.value
        for p in params:
            if p not in bound:
                if p not in defaults:
                    raise Untranslatable("parameter %r of `%s` not supplied" % (p, fn.name))
                bound[p] = defaults[p]
        return bound

    def call_text(self, rule, node, env, scope):
        bound = self.bind_call(rule, node, env, scope)
        vals = {k: self.pure(v, scope) for k, v in env.items()}
        vals.update({k: self.pure(v, scope) for k, v in bound.items()})
        try:
            return rule.template.format(**vals), bound
        except (KeyError, IndexError) as e:
            raise Untranslatable("signature of the callee changed: template needs %s" % e)

    def find_call(self, node, want_stmt):
        if not isinstance(node, ast.Call):
            return None, None
        for rule in self.calls:
            if (rule.recv is not None) != want_stmt:
                continue
            env = {}
            if match(rule.func, node.func, env):
                return rule, env
        return None, None

    # ------------------------------------------------------------------------------------------ expressions
    @staticmethod
    def fresh(name, scope):
        """as Translator2.fresh; a Python name made of underscores only (`_`, the conventional unused target) still
        gets a Lean identifier"""
        return py2lean2.Translator2.fresh(name if name.replace("_", "") else "unused", scope)

    def function_as_expression(self, fn, arg_names, ind=1):
        """normalisation `local temporaries inlined`: a function whose body is single assignments to locals, `return`s
        and `if`s with returning arms is translated as ONE expression with the temporaries substituted (every
        expression of the vocabulary is pure), so a rule for a nested expression does not depend on whether its parts
        were first given names.  Falls back to the ordinary statement-by-statement translation."""
        self._globals = getattr(fn, "__globals__", {})
        qual = getattr(fn, "__qualname__", "").split(".")
        self._owner = self._globals.get(qual[0]) if len(qual) > 1 else None
        node, _src = source_ast(fn)
        params = [x.arg for x in node.args.posonlyargs + node.args.args + node.args.kwonlyargs]
        for p_ in params:
            if p_ not in arg_names:
                raise Untranslatable("signature of %s changed: %s" % (node.name, ast.unparse(node.args)))

        class Sub(ast.NodeTransformer):
            def __init__(self, env):
                self.env = env

            def visit_Name(self, n):
                if isinstance(n.ctx, ast.Load) and n.id in self.env:
                    return self.env[n.id]
                return n

        def value_of(stmts, env):
            stmts = [st for st in stmts if not (isinstance(st, ast.Expr) and isinstance(st.value, ast.Constant))
                     and not isinstance(st, ast.Pass)]
            if not stmts:
                raise Untranslatable("not an expression")
            st, rest = stmts[0], stmts[1:]
            if isinstance(st, ast.Return) and st.value is not None:
                return Sub(env).visit(ast.parse(ast.unparse(st.value), mode="eval").body)
            if (isinstance(st, ast.Assign) and len(st.targets) == 1 and isinstance(st.targets[0], ast.Name)
                    and st.targets[0].id not in params):
                e2 = dict(env)
                e2[st.targets[0].id] = Sub(env).visit(ast.parse(ast.unparse(st.value), mode="eval").body)
                return value_of(rest, e2)
            if isinstance(st, ast.If):
                test = Sub(env).visit(ast.parse(ast.unparse(st.test), mode="eval").body)
                return ast.IfExp(test=test, body=value_of(list(st.body) + rest, dict(env)),
                                 orelse=value_of(list(st.orelse) + rest, dict(env)))
            raise Untranslatable("not an expression")
        try:
            e = ast.fix_missing_locations(value_of(list(node.body), {}))
        except Untranslatable:
            return self.function(fn, arg_names, ind=ind)
        e = ast.parse(ast.unparse(e), mode="eval").body           # parenthesisation normalised
        text, flag = self.expr(e, dict(arg_names))
        return "  " * ind + (text if flag == "bind" else self.r.ret.format(e=text))

    def function(self, fn, arg_names, ind=2, allow_unused=()):
        """as Translator2.function; remembers where `fn` lives so that helper functions of the same module / class that
        the vocabulary has no word for can be INLINED at their call sites (`inline_helper`)"""
        self._globals = getattr(fn, "__globals__", {})
        qual = getattr(fn, "__qualname__", "").split(".")
        self._owner = self._globals.get(qual[0]) if len(qual) > 1 else None
        return py2lean2.Translator2M.function(self, fn, arg_names, ind=ind, allow_unused=allow_unused)

    @staticmethod
    def normalise(node):
        """one word for one meaning: `a @ b` and `a.dot(b)` are `np.dot(a, b)`"""
        if isinstance(node, ast.BinOp) and isinstance(node.op, ast.MatMult):
            return ast.Call(func=ast.Attribute(value=ast.Name(id="np", ctx=ast.Load()), attr="dot", ctx=ast.Load()),
                            args=[node.left, node.right], keywords=[])
        if (isinstance(node, ast.Call) and isinstance(node.func, ast.Attribute) and node.func.attr == "dot"
                and len(node.args) == 1 and not node.keywords
                and not (isinstance(node.func.value, ast.Name) and node.func.value.id in ("np", "numpy"))):
            return ast.Call(func=ast.Attribute(value=ast.Name(id="np", ctx=ast.Load()), attr="dot", ctx=ast.Load()),
                            args=[node.func.value, node.args[0]], keywords=[])
        return node

    @staticmethod
    def is_text(node):
        """the text of a message is not behaviour: string literals, `"..".format(..)`, `".." % x`, f-strings"""
        if isinstance(node, ast.Constant) and isinstance(node.value, str):
            return True
        if isinstance(node, ast.JoinedStr):
            return True
        if (isinstance(node, ast.Call) and isinstance(node.func, ast.Attribute) and node.func.attr == "format"
                and TranslatorK.is_text(node.func.value)):
            return True
        if isinstance(node, ast.BinOp) and isinstance(node.op, (ast.Mod, ast.Add)) and TranslatorK.is_text(node.left):
            return True
        return False

    # ---- helper functions the refactoring of a method extracted: not a new word of the vocabulary, just more source
    def helper_of(self, node):
        """the live function a call `f(..)` / `self.f(..)` / `Cls.f(self, ..)` runs when `f` is a plain Python function of
        the module (or class) of the function being translated; (function, implicit receiver ast or None)"""
        import types
        g = getattr(self, "_globals", {})
        f, recv = None, None
        if isinstance(node.func, ast.Name):
            f = g.get(node.func.id)
        elif (isinstance(node.func, ast.Attribute) and isinstance(node.func.value, ast.Name)
              and node.func.value.id == "self" and getattr(self, "_owner", None) is not None):
            f = inspect_getattr_static(self._owner, node.func.attr)
            recv = node.func.value
        if isinstance(f, (staticmethod, classmethod)):
            return None, None
        f = unwrap(f) if f is not None else None
        if not isinstance(f, types.FunctionType) or not (f.__module__ or "").startswith("menpo"):
            return None, None
        return f, recv

    def inline_helper(self, node):
        """AST of the call with the helper's body substituted: straight-line single assignments and `return`s, `if` with
        returning arms become a conditional expression.  Arguments are bound by Python's rules through the live `def`;
        every expression of the vocabulary is pure, so substituting an argument more than once is sound."""
        f, recv = self.helper_of(node)
        if f is None:
            return None
        rule = CallRule("helper", lambda: f, "", bound=("s" if recv is not None else None))
        bound = self.bind_call(rule, node, {"s": recv}, None)
        fn, _src = source_ast(f)
        depth = getattr(self, "_inline_depth", 0)
        if depth > 6:
            raise Untranslatable("helper functions nested too deeply (recursion?) at `%s`" % fn.name)

        class Sub(ast.NodeTransformer):
            def __init__(self, env):
                self.env = env

            def visit_Name(self, n):
                if isinstance(n.ctx, ast.Load) and n.id in self.env:
                    return self.env[n.id]
                return n

        def value_of(stmts, env):
            stmts = [st for st in stmts if not (isinstance(st, ast.Expr) and isinstance(st.value, ast.Constant))
                     and not isinstance(st, ast.Pass)]
            if not stmts:
                raise Untranslatable("helper `%s` can fall off its end" % fn.name)
            st, rest = stmts[0], stmts[1:]
            if isinstance(st, ast.Return) and st.value is not None:
                return Sub(env).visit(ast.parse(ast.unparse(st.value), mode="eval").body)
            if isinstance(st, ast.Assign) and len(st.targets) == 1 and isinstance(st.targets[0], ast.Name):
                e2 = dict(env)
                e2[st.targets[0].id] = Sub(env).visit(ast.parse(ast.unparse(st.value), mode="eval").body)
                return value_of(rest, e2)
            if isinstance(st, ast.If):
                test = Sub(env).visit(ast.parse(ast.unparse(st.test), mode="eval").body)
                return ast.IfExp(test=test, body=value_of(list(st.body) + rest, dict(env)),
                                 orelse=value_of(list(st.orelse) + rest, dict(env)))
            raise Untranslatable("helper `%s` is not an expression: `%s`" % (fn.name, ast.unparse(st).splitlines()[0]))
        out = value_of(list(fn.body), dict(bound))
        return ast.fix_missing_locations(out)

    def expr(self, node, scope):
        node = self.normalise(node)
        if (self.int_as and isinstance(node, ast.Constant) and isinstance(node.value, int)
                and not isinstance(node.value, bool)):
            return "((%d : %s))" % (node.value, self.int_as), ""     # an integer literal of this vocabulary is typed
        rule, env = self.find_call(node, False)
        if rule is not None:
            text, _b = self.call_text(rule, node, env, scope)
            return text, rule.flag
        if self.is_text(node):
            return "()", ""
        mark = len(self._pending[-1]) if self._pending else 0
        try:
            return py2lean2.Translator2M.expr(self, node, scope)
        except Untranslatable:
            if not isinstance(node, ast.Call):
                raise
            if self._pending:
                del self._pending[-1][mark:]      # operands hoisted by the failed attempt
            inl = self.inline_helper(node)
            if inl is None:
                raise
            self._inline_depth = getattr(self, "_inline_depth", 0) + 1
            try:
                return self.expr(inl, scope)
            finally:
                self._inline_depth -= 1

    # ------------------------------------------------------------------------------------------ statements
    def _block1(self, stmts, scope, ind, ctx):
        pad = "  " * ind
        if stmts:
            st, rest = stmts[0], stmts[1:]
            # a call statement whose receiver is rebound to the result
            if isinstance(st, ast.Expr):
                rule, env = self.find_call(st.value, True)
                if rule is not None:
                    bound = self.bind_call(rule, st.value, env, scope)
                    target = env.get(rule.recv, bound.get(rule.recv))
                    if not isinstance(target, ast.Name):
                        raise Untranslatable("in-place call on a non-variable: `%s`" % ast.unparse(st))
                    text, _b = self.call_text(rule, st.value, env, scope)
                    new = self.fresh(target.id, scope)
                    sc = dict(scope)
                    sc[target.id] = new
                    if rule.flag == "bind":
                        if ctx.brk is not None:
                            raise Untranslatable("monadic call statement inside a loop body")
                        return pad + self.r.bind.format(m=text, x=new, k=self.block(rest, sc, ind + 1, ctx))
                    return "%slet %s := %s\n%s" % (pad, new, text, self.block(rest, sc, ind, ctx))
            # tuple assignment with attribute targets: right-hand side first, then one assignment per element
            if (isinstance(st, ast.Assign) and len(st.targets) == 1 and isinstance(st.targets[0], (ast.Tuple, ast.List))
                    and not all(isinstance(e, ast.Name) for e in st.targets[0].elts)):
                elts = st.targets[0].elts
                tmps = ["ktmp%d_%d" % (self._ktmp, i) for i in range(len(elts))]
                self._ktmp += 1
                first = ast.Assign(targets=[ast.Tuple(elts=[ast.Name(id=n, ctx=ast.Store()) for n in tmps], ctx=ast.Store())],
                                   value=st.value)
                new = [first] + [ast.Assign(targets=[t], value=ast.Name(id=n, ctx=ast.Load())) for t, n in zip(elts, tmps)]
                for n in new:
                    ast.fix_missing_locations(n)
                return self.block(new + rest, scope, ind, ctx)
            # stmt rules whose receiver is a NAMED Python variable (`recv` = "=name") instead of a metavariable
            flags = getattr(self.r, "stmt_flag", [])
            for i, (pat, recv, tmpl) in enumerate(self.r.stmt):
                if not recv.startswith("="):
                    continue
                env = {}
                if match(pat, st, env):
                    self.used_rules.add(("s", i))
                    name = recv[1:]
                    if name not in scope:
                        raise Untranslatable("unknown variable %r" % name)
                    val = tmpl.format(**{k: self.pure(v, scope) for k, v in env.items()})
                    new = self.fresh(name, scope)
                    sc = dict(scope)
                    sc[name] = new
                    if i < len(flags) and flags[i] == "bind":
                        return pad + self.r.bind.format(m=val, x=new, k=self.block(rest, sc, ind + 1, ctx))
                    return "%slet %s := %s\n%s" % (pad, new, val, self.block(rest, sc, ind, ctx))
        return py2lean2.Translator2M._block1(self, stmts, scope, ind, ctx)


def safe(thunk):
    """a thunk whose every failure is `Untranslatable` (a method that vanished, a wrapper without source, ...): what the
    source says now is outside the vocabulary - a broken obligation, never a crash of the check"""
    def run():
        try:
            return thunk()
        except Untranslatable:
            raise
        except Exception as e:          # noqa: BLE001
            raise Untranslatable("%s: %s" % (type(e).__name__, e))
    return run


def float_const(n, d):
    return "(%d : Rat)" % n if d == 1 else "((%d : Rat) / %d)" % (n, d)


# =====================================================================================================================
# (2) the C10 vocabulary
# =====================================================================================================================

DIV = {ast.Div: "({a} / {b})"}

# ---- bookkeeping: self is `s : St`
BOOK_ATTR = [
    ("$s._components.shape[0]", "(PyVal.int (({s}).rows : Nat))"),
    ("$s._components.shape", "(({s}).rows : Nat)"),
    ("$s._components[:$k, :]", "(Nat.min (PyVal.toNat {k}) ({s}).rows)"),
    ("$s._eigenvalues", "({s}).eig"),
    ("$s._trimmed_eigenvalues", "({s}).trimmed"),
    ("$s._n_active_components", "(PyVal.int (({s}).nActive : Nat))"),
]
ARRAYS = [
    ("$a[:$k]", "(List.take (PyVal.toNat {k}) {a})"),
    ("$a[$k:]", "(List.drop (PyVal.toNat {k}) {a})"),
    ("$a.copy()", "{a}"),
    ("np.hstack(($a, $b))", "({a} ++ {b})"),
    ("$a.sum()", "(List.sum {a})"),
    ("$a.mean()", "(lmean {a})"),
    ("$a.size", "(PyVal.int (List.length {a} : Nat))"),
    ("np.cumsum($a)", "(cumsum {a})"),
    ("np.array([])", "([] : List Rat)"),
    ("np.sum($l)", "(PyVal.npSumBools {l})"),
    ("np.allclose($x, 0)", "(allclose0 {x})"),
    ("min($a, $b)", "(PyVal.pmin {a} {b})"),
    ("int($x)", "(PyVal.int (PyVal.toInt {x}))"),
    ("isinstance($v, float)", "(PyVal.isFloat {v})"),
    # numpy floating scalars are outside the value types of the model (PyVal: None / python int / python float / numpy
    # integer; INFO assumptions): on those four the wider test decides the same
    ("isinstance($v, (float, np.floating))", "(PyVal.isFloat {v})"),
    ("isinstance($v, (np.floating, float))", "(PyVal.isFloat {v})"),
    ("isinstance($v, int)", "(PyVal.isInt {v})"),
]
# calls of the model's own methods / properties (the translated definitions)
BOOK_METHODS = [
    ("$s.n_components", "(genNComponents {s})"),
    ("$s.n_active_components", "(genNActiveComponents {s})"),
    ("$s.eigenvalues", "(genEigenvalues {s})"),
    ("$s.original_variance()", "(genOriginalVariance {s})"),
    ("$s.variance()", "(genVariance {s})"),
    ("$s._total_variance()", "(genTotalVariance {s})"),
    ("$s.variance_ratio()", "(genVarianceRatio {s})"),
    ("$s._total_variance_ratio()", "(genTotalVarianceRatio {s})"),
    ("$s.eigenvalues_ratio()", "(genEigenvaluesRatio {s})"),
    ("$s._total_eigenvalues_ratio()", "(genTotalEigenvaluesRatio {s})"),
    ("$s.eigenvalues_cumulative_ratio()", "(genEigenvaluesCumulativeRatio {s})"),
    ("$s._total_eigenvalues_cumulative_ratio()", "(genTotalEigenvaluesCumulativeRatio {s})"),
    ("$s.noise_variance()", "(genNoiseVariance {s})"),
    ("$s.noise_variance_ratio()", "(genNoiseVarianceRatio {s})"),
]
# inside the setter (and whatever calls it) the two ratios are what the float evaluation returned
FLOAT_EVAL = [
    ("$s._total_variance_ratio()", "(Fl.tvr fl {s})"),
    ("$s._total_eigenvalues_cumulative_ratio()", "(List.map PyVal.float (Fl.cum fl {s}))"),
]
BOOK_STMT = [
    ("$s._n_active_components = $v", "s", "{{ {s} with nActive := PyVal.toNat {v} }}"),
    ("$s._components = $s._components[:$k].copy()", "s", "{{ {s} with rows := Nat.min (PyVal.toNat {k}) ({s}).rows }}"),
    ("$s._components = $s._components[:$k]", "s", "{{ {s} with rows := Nat.min (PyVal.toNat {k}) ({s}).rows }}"),
    ("$s._components = $s._components[:$k, :].copy()", "s", "{{ {s} with rows := Nat.min (PyVal.toNat {k}) ({s}).rows }}"),
    ("$s._trimmed_eigenvalues = $v", "s", "{{ {s} with trimmed := {v} }}"),
    ("$s._eigenvalues = $v", "s", "{{ {s} with eig := {v} }}"),
    ("$s.n_active_components = $v", "s", "genSetActive fl {s} {v}", "bind"),
]
ERR = dict(raise_=".error .value", raise_by={"ValueError": ".error .value"})


def book_rules(extra=(), stmt=(), **kw):
    kw.setdefault("ret", "{e}")
    return py2lean2.Rules2M(expr=list(extra) + BOOK_METHODS + BOOK_ATTR + ARRAYS, stmt=list(stmt) + BOOK_STMT,
                            float_=float_const, binop=DIV, **kw)


def pca_classes():
    from menpo.model.pca import PCAVectorModel, PCAModel
    from menpo.model.linear import LinearVectorModel, MeanLinearVectorModel
    from menpo.model.vectorizable import VectorizableBackedModel
    return PCAVectorModel, PCAModel, LinearVectorModel, MeanLinearVectorModel, VectorizableBackedModel


def super_init(cls_name):
    """the `__init__` that `super(<cls>, self).__init__` resolves to for an instance of <cls> itself; the Lean template
    names LinearVectorModel's translation, so anything else is outside the vocabulary"""
    def thunk():
        PV, PM, L, ML, VB = pca_classes()
        c = {"MeanLinearVectorModel": ML}[cls_name]
        nxt = c.__mro__[1]
        if nxt is not L:
            raise Untranslatable("%s no longer derives from LinearVectorModel directly" % cls_name)
        return nxt.__init__
    return thunk


def items():
    """[(lean signature ending in `:=`, thunk -> body text, stub body)]"""
    PV, PM, L, ML, VB = pca_classes()
    import menpo.math as mm
    out = []

    def add(sig, stub, thunk):
        out.append((sig, safe(thunk), stub))

    S = {"self": "s"}

    def TB(extra=(), calls=(), **kw):
        return TranslatorK(book_rules(extra=extra, **kw), calls, int_as="PyVal")

    # ------------------------------------------------------------------ accessors (exact arithmetic)
    add("def genNComponents (s : St) : PyVal :=", ".none",
        lambda: TB().function(unwrap(L.n_components.fget), S, ind=1))
    add("def genNActiveComponents (s : St) : PyVal :=", ".none",
        lambda: TB().function(unwrap(PV.n_active_components.fget), S, ind=1))
    add("def genEigenvalues (s : St) : List Rat :=", "[]",
        lambda: TB().function(unwrap(PV.eigenvalues.fget), S, ind=1))
    add("def genActiveRows (s : St) : Nat :=", "0",
        lambda: TB().function(unwrap(PV.components.fget), S, ind=1))
    for name, py, ty, stub in [
            ("genOriginalVariance", "original_variance", "Rat", "0"), ("genVariance", "variance", "Rat", "0"),
            ("genTotalVariance", "_total_variance", "Rat", "0"), ("genVarianceRatio", "variance_ratio", "Rat", "0"),
            ("genTotalVarianceRatio", "_total_variance_ratio", "Rat", "0"),
            ("genEigenvaluesRatio", "eigenvalues_ratio", "List Rat", "[]"),
            ("genTotalEigenvaluesRatio", "_total_eigenvalues_ratio", "List Rat", "[]"),
            ("genEigenvaluesCumulativeRatio", "eigenvalues_cumulative_ratio", "List Rat", "[]"),
            ("genTotalEigenvaluesCumulativeRatio", "_total_eigenvalues_cumulative_ratio", "List Rat", "[]"),
            ("genNoiseVariance", "noise_variance", "Rat", "0"),
            ("genNoiseVarianceRatio", "noise_variance_ratio", "Rat", "0")]:
        add("def %s (s : St) : %s :=" % (name, ty), stub,
            lambda py=py: TB().function(unwrap(getattr(PV, py)), S, ind=1))
    add("def genInverseNoiseVariance (s : St) : Except Err Rat :=", ".error .value",
        lambda: TB(ret=".ok ({e})", **ERR).function(unwrap(PV.inverse_noise_variance), S, ind=1))
    # glue (not translated): exact arithmetic = the translated accessors
    add("def genFl : Fl :=", "⟨fun _ => 0, fun _ => []⟩",
        lambda: "  ⟨genTotalVarianceRatio, genTotalEigenvaluesCumulativeRatio⟩")
    # ------------------------------------------------------------------ setter, trim, components setter, orthonormalize
    add("def genSetActive (fl : Fl) (s : St) (value : PyVal) : Except Err St :=", ".ok s",
        lambda: TB(extra=FLOAT_EVAL, end=".ok {self}", **ERR).function(
            unwrap(PV.n_active_components.fset), {"self": "s", "value": "value"}, ind=1))
    add("def genTrimComponents (fl : Fl) (s : St) (ncomponents : PyVal) : Except Err St :=", ".ok s",
        lambda: TB(extra=[("$x is None", "(PyVal.isNone {x})")], end=".ok {self}", **ERR).function(
            unwrap(PV.trim_components), {"self": "s", "n_components": "ncomponents"}, ind=1))
    # the components setter: only the shape of the new array is bookkeeping (`value` = its number of rows)
    add("def genSetComponents (s : St) (value : Nat) : Except Err St :=", ".ok s",
        lambda: TB(extra=[("value.shape", "value"), ("$s._components.shape", "(({s}).rows : Nat)")],
                   stmt=[("np.copyto($s._components, $v, casting='safe')", "s", "{s}")],
                   end=".ok {self}", **ERR).function(unwrap(PV.components.fset), {"self": "s", "value": "value"}, ind=1))
    ORTHO = [
        ("(np.linalg.qr(np.hstack((linear_model._components.T, $s._components.T)))[0]).T",
         "(St.orthoQRows lm.d lm.k1 ({s}).rows)"),
        ("np.linalg.qr(np.hstack((linear_model._components.T, $s._components.T)))[0].T",
         "(St.orthoQRows lm.d lm.k1 ({s}).rows)"),
        ("linear_model.n_components", "(PyVal.int (lm.k1 : Nat))"),
        ("$Q.shape[0]", "(PyVal.int ({Q} : Nat))"),
        ("$Q[:$k, :]", "(Nat.min (PyVal.toNat {k}) {Q})"),
        ("$Q[$k:, :]", "({Q} - PyVal.toNat {k})"),
    ]
    add("def genOrthoAgainst (fl : Fl) (s : St) (lm : Other) : Except Err St :=", ".ok s",
        lambda: TB(extra=ORTHO,
                   stmt=[("linear_model.components = $v", "=linear_model", "Other.setComponentsRows lm {v}", "bind"),
                         ("$s.components = $v", "s", "genSetComponents {s} {v}", "bind")],
                   calls=[CallRule("$s.trim_components", lambda: PV.trim_components,
                                   "genTrimComponents fl {self} {n_components}", bound="s", recv="s", flag="bind")],
                   end=".ok {self}", **ERR).function(
            unwrap(PV.orthonormalize_against_inplace), {"self": "s", "linear_model": "lm"}, ind=1))
    # ------------------------------------------------------------------ constructors: self is `Plumb A`
    CTOR_EXPR = [
        ("$x.shape[0]", "(PyVal.int (np.shape0 {x} : Nat))"),
        ("len($x)", "(PyVal.int (np.len {x} : Nat))"),
        ("isinstance($x, np.ndarray)", "(np.isArray {x})"),
        ("np.array($x)[:$n]", "(np.arrayPrefix {x} {n})"),
        ("np.zeros($m.shape, dtype=$m.dtype)", "(np.zerosLike {m})"),
        ("$x is None", "(PyVal.isNone {x})"),
        ("$x is not None", "(!(PyVal.isNone {x}))"),
        ("$s.n_components", "(genNComponents ({s}).toSt)"),
        ("int($x)", "(PyVal.int (PyVal.toInt {x}))"),
        ("cls.__new__(cls)", "(Plumb.blank : Plumb A)"),
        ("PCAVectorModel.__new__(cls)", "(Plumb.blank : Plumb A)"),
        ("$x.as_vector()", "(np.asVector {x})"),
    ]
    CTOR_STMT = [
        ("$s._components = $c", "s", "{{ {s} with comps := some {c}, rows := np.shape0 {c} }}"),
        ("$s._mean = $m", "s", "{{ {s} with mean := some {m} }}"),
        ("$s.template_instance = $t", "s", "{{ {s} with template := some {t} }}"),
        ("$s.centred = $c", "s", "{{ {s} with centred := some {c} }}"),
        ("$s.n_samples = $n", "s", "{{ {s} with nSamples := {n} }}"),
        ("$s._eigenvalues = $v", "s", "{{ {s} with eig := np.values {v} }}"),
        ("$s._n_active_components = $v", "s", "{{ {s} with nActive := PyVal.toNat {v} }}"),
        ("$s._trimmed_eigenvalues = np.array([])", "s", "{{ {s} with trimmed := [] }}"),
    ]
    HELPER = "genConstructorHelper np fl {self} {eigenvalues} {eigenvectors} {mean} {centred} {max_n_components}"
    CTOR_CALLS = [
        CallRule("super(MeanLinearVectorModel, $s).__init__", super_init("MeanLinearVectorModel"),
                 "genLinearInit np {s} {components}", bound="s", recv="s"),
        CallRule("LinearVectorModel.__init__", lambda: L.__init__, "genLinearInit np {self} {components}", recv="self"),
        CallRule("MeanLinearVectorModel.__init__", lambda: ML.__init__,
                 "genMeanLinearInit np {self} {components} {mean}", recv="self"),
        CallRule("VectorizableBackedModel.__init__", lambda: VB.__init__, "genVBInit {self} {template_instance}",
                 recv="self"),
        CallRule("$s.trim_components", lambda: PV.trim_components,
                 "(genTrimComponents fl ({self}).toSt {n_components}).map (fun st => {{ {self} with toSt := st }})",
                 bound="s", recv="s", flag="bind"),
        CallRule("$s._constructor_helper", lambda: PV._constructor_helper, HELPER, bound="s", recv="s", flag="bind"),
        CallRule("$s._data_to_matrix", lambda: PV._data_to_matrix, "(genDataToMatrix np {data} {n_samples})", bound="s"),
        CallRule("pca", lambda: mm.pca, "(np.pca {X} {centre} {inplace} {eps})"),
        CallRule("pcacov", lambda: mm.pcacov, "(np.pcacov {C} {is_inverse} {eps})"),
        CallRule("as_matrix", lambda: mm.as_matrix, "(np.asMatrix {vectorizables} {length} {return_template})"),
        CallRule("PCAVectorModel.__init__", lambda: PV.__init__,
                 "genVecInit np fl {self} {samples} {centre} {n_samples} {max_n_components} {inplace}",
                 recv="self", flag="bind"),
    ]

    def TC(**kw):
        kw.setdefault("ret", ".ok ({e})")
        r = py2lean2.Rules2M(expr=CTOR_EXPR, stmt=CTOR_STMT, float_=float_const, **kw)
        return TranslatorK(r, CTOR_CALLS, int_as="PyVal")

    NPFL = "{A : Type} (np : NP A) (fl : Fl)"
    add("def genLinearInit {A : Type} (np : NP A) (self : Plumb A) (components : A) : Plumb A :=", "self",
        lambda: TC(end="{self}").function(unwrap(L.__init__), {"self": "self", "components": "components"}, ind=1))
    add("def genMeanLinearInit {A : Type} (np : NP A) (self : Plumb A) (components mean : A) : Plumb A :=", "self",
        lambda: TC(end="{self}").function(unwrap(ML.__init__), {"self": "self", "components": "components", "mean": "mean"},
                                         ind=1))
    add("def genVBInit {A : Type} (self : Plumb A) (template : A) : Plumb A :=", "self",
        lambda: TC(end="{self}").function(unwrap(VB.__init__), {"self": "self", "template_instance": "template"}, ind=1))
    add("def genDataToMatrix {A : Type} (np : NP A) (data : A) (nsamples : PyVal) : A × PyVal :=", "(data, nsamples)",
        lambda: TC(ret="{e}").function(unwrap(PV._data_to_matrix), {"self": "self", "data": "data", "n_samples": "nsamples"},
                                       ind=1))
    add("def genConstructorHelper %s (self : Plumb A) (eigenvalues eigenvectors mean : A) (centred : Bool) "
        "(maxn : PyVal) : Except Err (Plumb A) :=" % NPFL, ".ok self",
        lambda: TC(end=".ok {self}", **ERR).function(
            unwrap(PV._constructor_helper), {"self": "self", "eigenvalues": "eigenvalues", "eigenvectors": "eigenvectors",
                                             "mean": "mean", "centred": "centred", "max_n_components": "maxn"}, ind=1))
    add("def genVecInit %s (self : Plumb A) (samples : A) (centre : Bool) (nsamples maxn : PyVal) (inplace : Bool) : "
        "Except Err (Plumb A) :=" % NPFL, ".ok self",
        lambda: TC(end=".ok {self}", **ERR).function(
            unwrap(PV.__init__), {"self": "self", "samples": "samples", "centre": "centre", "n_samples": "nsamples",
                                  "max_n_components": "maxn", "inplace": "inplace"}, ind=1))
    add("def genVecFromCov %s (C mean : A) (nsamples : PyVal) (centred isinverse : Bool) (maxn : PyVal) : "
        "Except Err (Plumb A) :=" % NPFL, ".ok Plumb.blank",
        lambda: TC(**ERR).function(
            unwrap(PV.init_from_covariance_matrix),
            {"cls": "cls", "C": "C", "mean": "mean", "n_samples": "nsamples", "centred": "centred",
             "is_inverse": "isinverse", "max_n_components": "maxn"}, ind=1))
    add("def genVecFromComponents %s (components eigenvalues mean : A) (nsamples : PyVal) (centred : Bool) "
        "(maxn : PyVal) : Except Err (Plumb A) :=" % NPFL, ".ok Plumb.blank",
        lambda: TC(**ERR).function(
            unwrap(PV.init_from_components),
            {"cls": "cls", "components": "components", "eigenvalues": "eigenvalues", "mean": "mean",
             "n_samples": "nsamples", "centred": "centred", "max_n_components": "maxn"}, ind=1))
    add("def genObjInit %s (self : Plumb A) (samples : A) (centre : Bool) (nsamples maxn : PyVal) (inplace : Bool) : "
        "Except Err (Plumb A) :=" % NPFL, ".ok self",
        lambda: TC(end=".ok {self}", **ERR).function(
            unwrap(PM.__init__), {"self": "self", "samples": "samples", "centre": "centre", "n_samples": "nsamples",
                                  "max_n_components": "maxn", "inplace": "inplace", "verbose": "false"}, ind=1))
    add("def genObjFromCov %s (C mean : A) (nsamples : PyVal) (centred isinverse : Bool) (maxn : PyVal) : "
        "Except Err (Plumb A) :=" % NPFL, ".ok Plumb.blank",
        lambda: TC(**ERR).function(
            unwrap(PM.init_from_covariance_matrix),
            {"cls": "cls", "C": "C", "mean": "mean", "n_samples": "nsamples", "centred": "centred",
             "is_inverse": "isinverse", "max_n_components": "maxn"}, ind=1))
    add("def genObjFromComponents %s (components eigenvalues mean : A) (nsamples : PyVal) (centred : Bool) "
        "(maxn : PyVal) : Except Err (Plumb A) :=" % NPFL, ".ok Plumb.blank",
        lambda: TC(**ERR).function(
            unwrap(PM.init_from_components),
            {"cls": "cls", "components": "components", "eigenvalues": "eigenvalues", "mean": "mean",
             "n_samples": "nsamples", "centred": "centred", "max_n_components": "maxn"}, ind=1))
    return out


# =====================================================================================================================
# (3) vector-level methods (linear.py, pca.py): numpy array expressions on Matrix (Fin _) (Fin _) Q
# =====================================================================================================================

LIN_REL = os.path.join("MenpoModel", "Generated", "C10SrcLin.lean")
LIN_TARGETS = ["MenpoModel.Generated.C10SrcLin", "MenpoModel.GenProps.C10SrcLin"]
LIN_DEFS = 35          # translated definitions (lin_items()): 11 methods x 3 classes, whitened_components, project_whitened
LIN_OBLIGATIONS = 24   # theorems gen*_eq / gen*_row / gen*_mismatch / src_identities of GenProps/C10SrcLin.lean

LIN_ARRAYS = [
    ("np.dot($a, $b)", "(npDot {a} {b})"),
    ("$a.T", "({a})ᵀ"),
    ("$v[None, :]", "(rowMat {v})"),
    ("$m[None, ...]", "{m}"),
    ("$a.flatten()", "(flat1 {a})"),
    ("np.asarray($w)", "{w}"),
    ("$w.shape", "(shapeOf {w})"),
    ("np.zeros(($n, self.n_active_components), dtype=$t)", "(0 : Mat _ k)"),
]
LIN_ATTR = [
    ("self._components.dtype", "()"),
    ("self.components[$i]", "(U {i})"),
    ("self.components", "U"),
    ("self.n_components", "(k : Nat)"),
    ("self.n_active_components", "(k : Nat)"),
    ("self.eigenvalues ** 0.5", "sd"),
    ("np.sqrt(self.eigenvalues[$i])", "(sd {i})"),
]
LIN_METHODS = ["_instance_vectors_for_full_weights", "project_vectors", "instance_vectors", "reconstruct_vectors",
               "project_out_vectors", "project", "instance", "reconstruct", "project_out", "component"]


def lin_items():
    PV, PM, L, ML, VB = pca_classes()
    out = []

    def add(sig, stub, thunk):
        out.append((sig, safe(thunk), stub))

    for K, cls in (("Lin", L), ("Mean", ML), ("Pca", PV)):
        has_mean = K != "Lin"
        pca = K == "Pca"
        UM = "U m" if has_mean else "U"
        UMS = UM + (" sd" if pca else "")
        PAR = "(U : Mat k d)" + (" (m : Fin d → ℚ)" if has_mean else "") + (" (sd : Fin k → ℚ)" if pca else "")
        g = "gen" + K
        attr = list(LIN_ATTR) + ([("self._mean", "m")] if has_mean else [])
        methods = [
            ("self.project_vectors($v)", "(%sProjectVectors %s {v})" % (g, UMS)),
            ("self._instance_vectors_for_full_weights($w)", "(%sInstanceFull %s {w})" % (g, UMS)),
            ("LinearVectorModel._instance_vectors_for_full_weights(self, $w)", "(%sLinearInstanceFull %s {w})" % (g, UMS)),
            ("self.project_out_vectors($v)", "(%sProjectOutVectors %s {v})" % (g, UMS)),
            ("self.reconstruct_vectors($v)", "%sReconstructVectors %s {v}" % (g, UMS), "bind"),
        ]
        if pca:
            calls = [CallRule("self.instance_vectors", lambda cls=cls: cls.instance_vectors,
                              "%sInstanceVectors %s {weights} {normalized_weights}" % (g, UMS), flag="bind")]
        else:
            calls = [CallRule("self.instance_vectors", lambda cls=cls: cls.instance_vectors,
                              "%sInstanceVectors %s {weights}" % (g, UMS), flag="bind")]
        # the bound receiver `self` of `self.instance_vectors(...)` is the implicit first parameter
        for c in calls:
            c.func = _pat("$s.instance_vectors", "expr")
            c.bound = "s"

        def T(calls=calls, attr=attr, methods=methods, **kw):
            kw.setdefault("ret", "{e}")
            r = py2lean2.Rules2M(expr=methods + attr + LIN_ARRAYS,
                                 stmt=[("$f[..., :$n] = $w", "f", "(setLeftCols {f} {w})")],
                                 float_=float_const, **kw)
            return TranslatorK(r, calls)

        def fn(name, cls=cls):
            return unwrap(getattr(cls, name))

        SELF = {"self": "self"}
        add("def %sLinearInstanceFull %s (fullweights : Mat r j) : Mat r d :=" % (g, PAR), "0",
            lambda T=T: T().function(unwrap(L._instance_vectors_for_full_weights), dict(SELF, full_weights="fullweights"), ind=1))
        add("def %sInstanceFull %s (fullweights : Mat r j) : Mat r d :=" % (g, PAR), "0",
            lambda T=T, fn=fn: T().function(fn("_instance_vectors_for_full_weights"), dict(SELF, full_weights="fullweights"), ind=1))
        add("def %sProjectVectors %s (vectors : Mat r d) : Mat r k :=" % (g, PAR), "0",
            lambda T=T, fn=fn: T().function(fn("project_vectors"), dict(SELF, vectors="vectors"), ind=1))
        if pca:
            add("def %sInstanceVectors %s (weights : Mat r j) (normalizedweights : Bool) : Except Err (Mat r d) :=" % (g, PAR),
                ".error .value",
                lambda T=T, fn=fn: T(ret=".ok ({e})", **ERR).function(
                    fn("instance_vectors"), dict(SELF, weights="weights", normalized_weights="normalizedweights"), ind=1))
        else:
            add("def %sInstanceVectors %s (weights : Mat r j) : Except Err (Mat r d) :=" % (g, PAR), ".error .value",
                lambda T=T, fn=fn: T(ret=".ok ({e})", **ERR).function(fn("instance_vectors"), dict(SELF, weights="weights"), ind=1))
        add("def %sReconstructVectors %s (vectors : Mat r d) : Except Err (Mat r d) :=" % (g, PAR), ".error .value",
            lambda T=T, fn=fn: T(ret=".ok ({e})", **ERR).function(fn("reconstruct_vectors"), dict(SELF, vectors="vectors"), ind=1))
        add("def %sProjectOutVectors %s (vectors : Mat r d) : Mat r d :=" % (g, PAR), "0",
            lambda T=T, fn=fn: T().function(fn("project_out_vectors"), dict(SELF, vectors="vectors"), ind=1))
        add("def %sProject %s (vector : Fin d → ℚ) : Fin k → ℚ :=" % (g, PAR), "0",
            lambda T=T, fn=fn: T().function(fn("project"), dict(SELF, vector="vector"), ind=1))
        if pca:
            add("def %sInstance %s (weights : Fin j → ℚ) (normalizedweights : Bool) : Except Err (Fin d → ℚ) :=" % (g, PAR),
                ".error .value",
                lambda T=T, fn=fn: T(ret=".ok ({e})", **ERR).function(
                    fn("instance"), dict(SELF, weights="weights", normalized_weights="normalizedweights"), ind=1))
        else:
            add("def %sInstance %s (weights : Fin j → ℚ) : Except Err (Fin d → ℚ) :=" % (g, PAR), ".error .value",
                lambda T=T, fn=fn: T(ret=".ok ({e})", **ERR).function(fn("instance"), dict(SELF, weights="weights"), ind=1))
        add("def %sReconstruct %s (vector : Fin d → ℚ) : Except Err (Fin d → ℚ) :=" % (g, PAR), ".error .value",
            lambda T=T, fn=fn: T(ret=".ok ({e})", **ERR).function(fn("reconstruct"), dict(SELF, vector="vector"), ind=1))
        add("def %sProjectOut %s (vector : Fin d → ℚ) : Mat 1 d :=" % (g, PAR), "0",
            lambda T=T, fn=fn: T().function(fn("project_out"), dict(SELF, vector="vector"), ind=1))
        if pca:
            # whitening: `sigma` stands for np.sqrt(self.eigenvalues * self.n_samples + self.noise_variance()) (numpy's
            # square root of exactly that expression: contract `sigma_i^2 = l_i n_samples + noise`)
            WH = [("np.sqrt(self.eigenvalues * self.n_samples + self.noise_variance())[:, None]", "sigma"),
                  ("$a / sigma", "(divRows {a} sigma)"),
                  ("self.whitened_components()", "(genPcaWhitenedComponents U sigma)"),
                  ("np.dot(vector_instance, $b)", "(vectorinstance ᵥ* {b})")]

            def TW(attr=attr):
                r = py2lean2.Rules2M(expr=[WH[0], ("$a / (%s)" % WH[0][0], "(divRows {a} sigma)")] + WH[2:] + attr + LIN_ARRAYS,
                                     float_=float_const, ret="{e}")
                return TranslatorK(r, [])
            add("def genPcaWhitenedComponents (U : Mat k d) (sigma : Fin k → ℚ) : Mat k d :=", "0",
                lambda TW=TW, fn=fn: TW().function_as_expression(fn("whitened_components"), dict(SELF), ind=1))
            add("def genPcaProjectWhitened (U : Mat k d) (sigma : Fin k → ℚ) (vectorinstance : Fin d → ℚ) : Fin k → ℚ :=", "0",
                lambda TW=TW, fn=fn: TW().function(fn("project_whitened"), dict(SELF, vector_instance="vectorinstance"), ind=1))
        if K == "Lin":
            add("def %sComponent %s (index : Fin k) : Fin d → ℚ :=" % (g, PAR), "0",
                lambda T=T, fn=fn: T().function(fn("component"), dict(SELF, index="index"), ind=1))
        else:
            add("def %sComponent %s (index : Fin k) (withmean : Bool) (scale : ℚ) : Fin d → ℚ :=" % (g, PAR), "0",
                lambda T=T, fn=fn: T().function(fn("component"), dict(SELF, index="index", with_mean="withmean", scale="scale"),
                                                ind=1))
    return out


LIN_HEADER = """/- TRANSLATED by harness/trans_c10.py (harness/py2lean2.py) from the SOURCE TEXT of the vector-level methods of
   menpo/model/linear.py and menpo/model/pca.py of the current working tree on every run of `./check C10`, once per
   class (methods resolved through the live MRO of LinearVectorModel / MeanLinearVectorModel / PCAVectorModel); do not
   edit.  GenProps/C10SrcLin.lean proves every definition equal to the Core definition the C10 theorems are about. -/
import MenpoModel.Core.C10SrcLin

set_option linter.unusedVariables false

namespace MenpoModel.C10.Generated
open MenpoModel.C10 MenpoModel.C10.Src Matrix

variable {r j k d : ℕ}
"""


def lin_translate():
    return py2lean2.translate_or_stub(lin_items(), LIN_HEADER, FOOTER)


def lin_generated_files():
    text, reasons = lin_translate()
    return {LIN_REL: text}, reasons


# =====================================================================================================================
# (4) menpo/math/decomposition.py: eigenvalue_decomposition (eigen-witness post-processing), pca / pcacov (which
#     operation on which operand in which branch, arrays symbolic)
# =====================================================================================================================

DEC_REL = os.path.join("MenpoModel", "Generated", "C10SrcDec.lean")
DEC_TARGETS = ["MenpoModel.Generated.C10SrcDec", "MenpoModel.GenProps.C10SrcDec"]
DEC_DEFS = 3
DEC_OBLIGATIONS = 6    # sorted_witness, genEigenvalueDecomposition_eq (dense, sparse), genPca_eq, genPcacov_eq, src_spectrum

EIG_RULES = [
    ("issparse(C)", "sparse"),
    ("np.linalg.eigh(C)", "(evals, evecs)"),
    ("eigsh(C, k=C.shape[0] - 1)", "(sevals, sevecs)"),
    ("C.shape[0] * np.finfo($x.dtype).eps", "((n : Rat) * macheps)"),
    ("max($a, $b)", "(max {a} {b})"),
    ("np.max(np.abs($a))", "(maxAbs {a})"),
    ("np.argsort($a)[::-1]", "(argsortDesc {a})"),
    ("$a[::-1] ** -1", "(List.map (fun x => x⁻¹) (List.reverse {a}))"),
    ("$a[:, ::-1]", "(List.reverse {a})"),
    ("$a[::-1]", "(List.reverse {a})"),
    ("$a[:, $i]", "(PyIdx.idx {a} {i})"),
    ("$a[$i]", "(PyIdx.idx {a} {i})"),
    ("$a > $b", "(List.map (fun x => decide (x > {b})) {a})"),
]
PCA_RULES = [
    ("$X.shape[0] != $X.shape[1]", "(np.notSquare {X})"),
    ("$X.shape", "(np.shape {X})"),
    ("np.mean($X, axis=0)", "(np.meanRows {X})"),
    ("np.zeros($d, dtype=$t)", "(np.zeros {d})"),
    ("np.issubdtype($a, $b)", "inexact"),
    ("$X.flags.writeable", "writeable"),
    ("$X.dtype", "()"), ("np.float64", "()"), ("np.inexact", "()"),
    ("np.sqrt(1.0 / (($k - 1) * $l))", "(np.rsqrtScaled {k} {l})"),
    ("$a / ($k - 1)", "(np.divS {a} (({k} : Rat) - 1))"),
    ("$a / 2.0", "(np.divS {a} 2)"),
    ("$a * $w[:, None]", "(np.scaleRows {a} {w})"),
    ("$a + $b", "(np.add {a} {b})"),
    ("$a - $b", "(np.sub {a} {b})"),
    ("$a.conj().T", "(np.T {a})"),
    ("$a.T", "(np.T {a})"),
    ("np.dot($a, $b)", "(np.dot {a} {b})"),
    ("np.dot", "np.dot"),
    ("$f($a, $b)", "({f} {a} {b})"),
]


def dec_items():
    import menpo.math.decomposition as D
    out = []

    def add(sig, stub, thunk):
        out.append((sig, safe(thunk), stub))

    add("def genEigenvalueDecomposition {α : Type} (sparse : Bool) (n : Nat) (macheps : Rat) (evals sevals : List Rat) "
        "(evecs sevecs : List α) (isinverse : Bool) (eps : Rat) : List α × List Rat :=", "([], [])",
        lambda: TranslatorK(py2lean2.Rules2M(expr=EIG_RULES, float_=float_const, ret="{e}")).function(
            D.eigenvalue_decomposition, {"C": "C", "is_inverse": "isinverse", "eps": "eps"}, ind=1))
    eig_call = [CallRule("eigenvalue_decomposition", lambda: D.eigenvalue_decomposition,
                         "(np.eigDec {C} {is_inverse} {eps})")]
    add("def genPca {A : Type} (np : ND A) (inexact writeable : Bool) (X : A) (centre inplace : Bool) (eps : Rat) : "
        "A × A × A :=", "(X, X, X)",
        lambda: TranslatorK(py2lean2.Rules2M(expr=PCA_RULES, names={"dot_inplace_right": "np.dot"},
                                             float_=float_const, ret="{e}"), eig_call).function(
            D.pca, {"X": "X", "centre": "centre", "inplace": "inplace", "eps": "eps"}, ind=1))
    add("def genPcacov {A : Type} (np : ND A) (C : A) (isinverse : Bool) (eps : Rat) : Except Err (A × A) :=",
        ".error .value",
        lambda: TranslatorK(py2lean2.Rules2M(expr=PCA_RULES, float_=float_const, ret=".ok ({e})", **ERR),
                            eig_call).function(D.pcacov, {"C": "C", "is_inverse": "isinverse", "eps": "eps"}, ind=1))
    return out


DEC_HEADER = """/- TRANSLATED by harness/trans_c10.py (harness/py2lean2.py) from the SOURCE TEXT of menpo/math/decomposition.py
   (eigenvalue_decomposition, pca, pcacov) of the current working tree on every run of `./check C10`; do not edit.
   GenProps/C10SrcDec.lean proves every definition equal to the Core definition the C10 theorems are about. -/
import MenpoModel.Core.C10SrcDec

set_option linter.unusedVariables false

namespace MenpoModel.C10.Generated
open MenpoModel.C10 MenpoModel.C10.Src
"""


def dec_translate():
    return py2lean2.translate_or_stub(dec_items(), DEC_HEADER, FOOTER)


def dec_generated_files():
    text, reasons = dec_translate()
    return {DEC_REL: text}, reasons


HEADER = """/- TRANSLATED by harness/trans_c10.py (harness/py2lean2.py) from the SOURCE TEXT of menpo/model/pca.py,
   menpo/model/linear.py and menpo/model/vectorizable.py of the current working tree on every run of `./check C10`;
   do not edit.  GenProps/C10Src.lean proves every definition equal to the Core definition the C10 theorems are about. -/
import MenpoModel.Core.C10Src
import MenpoModel.Core.PyLoop

set_option linter.unusedVariables false

namespace MenpoModel.C10.Generated
open MenpoModel.C10 MenpoModel.C10.Src
"""
FOOTER = "\nend MenpoModel.C10.Generated\n"


def translate():
    return py2lean2.translate_or_stub(items(), HEADER, FOOTER)


def generated_files():
    text, reasons = translate()
    return {GEN_REL: text}, reasons


if __name__ == "__main__":
    import sys
    sys.path.insert(0, os.environ.get("MENPO_REPO", "/repo"))
    t, r = (lin_translate if "lin" in sys.argv[1:] else dec_translate if "dec" in sys.argv[1:] else translate)()
    print(t)
    print("REASONS:", r, file=sys.stderr)
