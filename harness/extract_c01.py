"""C01 — regenerated tables (DESIGN 2.3b).  Nothing is parsed from source text: everything is read from the live
classes of the menpo working tree on every run of `./check C01` and written to
lean/MenpoModel/Generated/C01Tables.lean; lean/MenpoModel/GenProps/C01.lean states the obligations.

  dispatch   which class supplies each method of the funnel and each public resampling operation for
             Image / MaskedImage / BooleanImage (MRO), and the defaults of warp_to_shape / warp_to_mask
             (inspect.signature);
  family     for every class of the homogeneous family exported by menpo.transform: the kind of matrix its
             ancestry guarantees, the class that supplies `pseudoinverse`, and whether `_h_matrix_pseudoinverse`
             is still Homogeneous' (np.linalg.inv);
  funnel     for every public operation: how many times it calls `warp_to_shape` on the image, whether the
             caller's order / boundary mode reach that call or are replaced, whether the landmarks are warped
             (recorded by calling the operation on an instance of a recording subclass).
"""

METHODS = ["warp_to_shape", "warp_to_mask", "sample", "_build_warp_to_mask", "crop_to_true_mask",
           "_build_warp_to_shape", "crop", "crop_to_pointcloud", "crop_to_landmarks",
           "crop_to_pointcloud_proportion", "crop_to_landmarks_proportion", "rescale", "rescale_to_diagonal",
           "rescale_to_pointcloud", "rescale_landmarks_to_diagonal_range", "resize", "zoom", "rotate_ccw_about_centre",
           "transform_about_centre", "mirror", "pyramid", "gaussian_pyramid", "constrain_points_to_bounds",
           "constrain_landmarks_to_bounds"]
CLASSES = ["Image", "MaskedImage", "BooleanImage"]
DEFAULT_KEYS = ["warp_landmarks", "order", "mode", "cval"]
PROVIDERS = {"Homogeneous": "homogeneous", "HomogFamilyAlignment": "alignment", "Rotation": "rotation",
             "NonUniformScale": "nonUniformScale", "UniformScale": "uniformScale", "Translation": "translation"}
FUNNEL_OPS = ["crop", "crop_to_pointcloud", "crop_to_landmarks", "crop_to_pointcloud_proportion",
              "crop_to_landmarks_proportion", "crop_to_true_mask", "rescale", "rescale_to_diagonal",
              "rescale_to_pointcloud", "rescale_landmarks_to_diagonal_range", "resize", "zoom",
              "rotate_ccw_about_centre", "transform_about_centre", "mirror", "pyramid"]


def supplier(cls, name):
    for k in cls.__mro__:
        if name in k.__dict__:
            return k.__name__
    return "-"


def dispatch_rows():
    import inspect
    import menpo.image as mi
    rows = []
    for cn in CLASSES:
        c = getattr(mi, cn)
        for m in METHODS:
            rows.append((cn, m, supplier(c, m)))
        for fn in ("warp_to_shape", "warp_to_mask"):
            pars = inspect.signature(getattr(c, fn)).parameters
            for k in DEFAULT_KEYS:
                rows.append((cn, "%s.%s" % (fn, k), repr(pars[k].default) .strip("'") if k in pars else "-"))
    return rows


def family_rows():
    import menpo.transform as mt
    from menpo.transform.homogeneous.base import Homogeneous
    rows = []
    for n in sorted(vars(mt)):
        c = getattr(mt, n)
        if not (isinstance(c, type) and issubclass(c, Homogeneous)):
            continue
        anc = [k.__name__ for k in c.__mro__]
        if "Translation" in anc:
            kind = "translation"
        elif "UniformScale" in anc:
            kind = "uniformScale"
        elif "NonUniformScale" in anc:
            kind = "nonUniformScale"
        elif "Rotation" in anc:
            kind = "rotation"
        else:
            kind = "general"
        rows.append((c.__name__, kind, PROVIDERS.get(supplier(c, "pseudoinverse"), "unknown"),
                     supplier(c, "_h_matrix_pseudoinverse") == "Homogeneous"))
    return rows


def provider_of(obj):
    """the supplier of `pseudoinverse` for a live transform object, as the token of the driver"""
    return PROVIDERS.get(supplier(type(obj), "pseudoinverse"), "unknown")


def funnel_rows(cls_name):
    """call every public operation on an instance of a recording subclass of the image class"""
    import warnings
    import numpy as np
    import menpo.image as mi
    import menpo.transform as mt
    from menpo.shape import PointCloud
    base = getattr(mi, cls_name)
    calls = []

    class Probe(base):
        def warp_to_shape(self, template_shape, transform, **kw):
            calls.append(dict(kw))
            return base.warp_to_shape(self, template_shape, transform, **kw)

    def fresh():
        if cls_name == "BooleanImage":
            im = Probe(np.indices((8, 9)).sum(axis=0) % 3 != 0)
        elif cls_name == "MaskedImage":
            mk = np.zeros((8, 9), dtype=bool)
            mk[1:6, 2:7] = True
            im = Probe(np.arange(72, dtype=float).reshape(1, 8, 9), mask=mk)
        else:
            im = Probe(np.arange(72, dtype=float).reshape(1, 8, 9))
        im.landmarks["g"] = PointCloud(np.array([[1.0, 2.0], [5.0, 6.0]]))
        return im

    pc = PointCloud(np.array([[1.0, 2.0], [5.0, 6.0]]))
    shear = mt.Affine(np.array([[1.0, 0.5, 0.0], [0.0, 1.0, 0.0], [0.0, 0.0, 1.0]]))
    recipes = {
        "crop": lambda im: im.crop(np.array([1.0, 2.0]), np.array([5.0, 6.0])),
        "crop_to_pointcloud": lambda im: im.crop_to_pointcloud(pc),
        "crop_to_landmarks": lambda im: im.crop_to_landmarks(group="g"),
        "crop_to_pointcloud_proportion": lambda im: im.crop_to_pointcloud_proportion(pc, 0.25),
        "crop_to_landmarks_proportion": lambda im: im.crop_to_landmarks_proportion(0.25, group="g"),
        "crop_to_true_mask": lambda im: im.crop_to_true_mask(),
        "rescale": lambda im: im.rescale(1.5, order=3),
        "rescale_to_diagonal": lambda im: im.rescale_to_diagonal(18.0),
        "rescale_to_pointcloud": lambda im: im.rescale_to_pointcloud(
            PointCloud(1.5 * pc.points), group="g", order=3),
        "rescale_landmarks_to_diagonal_range": lambda im: im.rescale_landmarks_to_diagonal_range(9.0, group="g", order=3),
        "resize": lambda im: im.resize((12, 7), order=3),
        "zoom": lambda im: im.zoom(1.5, order=3),
        "rotate_ccw_about_centre": lambda im: im.rotate_ccw_about_centre(53.13010235415598, order=3, mode="constant", cval=3),
        "transform_about_centre": lambda im: im.transform_about_centre(shear, order=3, mode="constant", cval=3),
        "mirror": lambda im: im.mirror(axis=1, order=3),
        "pyramid": lambda im: list(im.pyramid(n_levels=2, downscale=2)),
    }
    rows = []
    for name in FUNNEL_OPS:
        if not hasattr(base, name):
            continue
        del calls[:]
        try:
            with warnings.catch_warnings():
                warnings.simplefilter("ignore")
                recipes[name](fresh())
        except Exception:
            rows.append((name, 0, "forwarded", "forwarded", False))
            continue
        if len(calls) != 1:
            rows.append((name, len(calls), "forwarded", "forwarded", False))
            continue
        kw = calls[0]
        order = kw.get("order", 1)
        oa = "forwarded" if order == 3 else "forced0" if order == 0 else "forced1" if order == 1 else "forwarded"
        if order not in (0, 1, 3):
            rows.append((name, 99, "forwarded", "forwarded", False))
            continue
        mode, cval = kw.get("mode", "constant"), kw.get("cval", 0.0)
        if mode == "nearest":
            ma = "nearest"
        elif mode == "constant" and cval == 3:
            ma = "forwarded"
        elif mode == "constant" and cval == 0:
            ma = "constant0"
        else:
            rows.append((name, 98, "forwarded", "forwarded", False))
            continue
        rows.append((name, 1, oa, ma, bool(kw.get("warp_landmarks", False))))
    return rows


def _b(x):
    return "true" if x else "false"


def lean_files(with_counts=False):
    drows, frows = dispatch_rows(), family_rows()
    fun = {c: funnel_rows(c) for c in CLASSES}
    q = lambda s: '"' + str(s).replace('"', "'") + '"'
    gen = ("/- REGENERATED by harness/extract_c01.py from the live classes of the menpo working tree on every run of\n"
           "   `./check C01`; do not edit. -/\n"
           "import MenpoModel.Core.C01Ext\n\nnamespace MenpoModel.C01.Generated\nopen MenpoModel.C01\n\n"
           "def dispatch : List DispatchRow := [\n"
           + ",\n".join("  ⟨%s, %s, %s⟩" % (q(a), q(b), q(c)) for a, b, c in drows) + " ]\n\n"
           "def family : List FamilyRow := [\n"
           + ",\n".join("  ⟨%s, .%s, .%s, %s⟩" % (q(n), k, pv, _b(h)) for n, k, pv, h in frows) + " ]\n\n"
           + "\n".join("def funnel%s : List FunnelRow := [\n" % c
                       + ",\n".join("  ⟨%s, %d, .%s, .%s, %s⟩" % (q(n), k, oa, ma, _b(lm)) for n, k, oa, ma, lm in fun[c])
                       + " ]\n" for c in CLASSES)
           + "\nend MenpoModel.C01.Generated\n")
    props = ("/- Obligations over the tables regenerated from the live code (written by harness/extract_c01.py; the text is\n"
             "   constant, the tables it speaks about are not). -/\n"
             "import MenpoModel.Generated.C01Tables\n\n"
             "namespace MenpoModel.C01.GenProps\nopen MenpoModel.C01\n\n"
             "/-- Image / MaskedImage / BooleanImage resolve the funnel methods and every public resampling operation as the\n"
             "model assumes (only `warp_to_shape`, `warp_to_mask`, `sample` — and `_build_warp_to_mask`, `crop_to_true_mask` —\n"
             "are class specific), with the defaults the model assumes -/\n"
             "theorem dispatch_ok : Generated.dispatch = expectedDispatch := by decide\n\n"
             "/-- no class has joined or left the homogeneous family, none has changed its supplier of `pseudoinverse` -/\n"
             "theorem family_ok : Generated.family = expectedFamily := by decide\n\n"
             "/-- every family class moves landmarks by a closed form that `pinv_sound` proves to be the inverse on the\n"
             "matrices the class can hold -/\n"
             "theorem family_sound : ∀ r ∈ Generated.family, r.ok = true := by decide\n\n"
             "/-- the single funnel: every operation of a MaskedImage calls `warp_to_shape` exactly once, with the order /\n"
             "mode / landmark arguments the plans of the model carry -/\n"
             "theorem funnel_masked_ok : Generated.funnelMaskedImage = expectedFunnel := by decide +kernel\n\n"
             "theorem funnel_image_ok :\n"
             "    Generated.funnelImage = expectedFunnel.filter (fun r => r.op != \"crop_to_true_mask\") := by decide +kernel\n\n"
             "theorem funnel_boolean_ok :\n"
             "    Generated.funnelBooleanImage = expectedFunnel.filter (fun r => r.op != \"crop_to_true_mask\") := by decide +kernel\n\n"
             "end MenpoModel.C01.GenProps\n")
    files = {"MenpoModel/Generated/C01Tables.lean": gen, "MenpoModel/GenProps/C01.lean": props}
    if with_counts:
        return files, {"dispatch": len(drows), "family": len(frows), "funnel": sum(len(v) for v in fun.values())}
    return files


TARGETS = ["MenpoModel.Generated.C01Tables", "MenpoModel.GenProps.C01"]
N_OBLIGATIONS = 6
