"""C11 — incremental model updates equal the batch model on the concatenated data (DESIGN.md section 6, C11).

Parties: the real `PCAVectorModel` / `PCAModel` (`increment` -> `menpo.math.ipca`) and `GMRFVectorModel` /
`GMRFModel` (`increment` -> `_increment_*_precision`, `_increment_multivariate_gaussian_mean/_cov`);
the oracle (model state after the increments against the batch model built by the same class from the
stacked data, and against the exact covariance of the stacked data computed with Fractions); the Lean
model (exact running statistics in Q folded over the same chunks; exact block inverses; dense precision).
"""
import json
from fractions import Fraction as F

from . import common
from .common import fq, close

PROP = "C11"
INFO = dict(
    technique="Lean 4 proof (the update formulas of `_increment_multivariate_gaussian_mean/_cov`, the four "
              "`_increment_*_precision` builders with their loops, `GMRFVectorModel._increment` / `increment`, "
              "`GMRFModel.increment`, `menpo.math.decomposition.ipca` and `PCAVectorModel.increment` / "
              "`PCAModel.increment` are TRANSLATED from the source text of the working tree on every run into Lean and "
              "proved equal, for all arguments, to the definitions the theorems are about; those reproduce the "
              "statistics of the concatenated data by induction over any list of increments; ipca's R-matrix construction "
              "under QR/SVD contracts over Mathlib matrices, with no full-rank hypothesis on the residual, as an invariant "
              "over every chain of increments; the forgetting factor, the discard threshold, both precision storages "
              "and the object-level models as coded) + model/implementation correspondence on every composition of small "
              "sample sequences and on every storage dtype pair + obligations over tables regenerated from the live "
              "signatures / call sites / dispatch on every run",
    level_text="Theorems over an executable rational model: `_increment_multivariate_gaussian_mean/_cov` give mean and "
               "np.cov (bias 0 and 1) of the concatenated data; an incremental GMRF after any list of increments holds "
               "the count, mean and every per-edge / per-vertex covariance of the concatenated data (`gmrfInit`: the "
               "statistics a batch build is modelled to hold; the batch constructors themselves are not translated in "
               "C11 - they are tied by C12's obligations and by the correspondence `gmrf.batch-precision` / "
               "`gmrf.covariances`), for every graph "
               "(antiparallel and repeated edges included), both edge modes and the edgeless case, hence the same "
               "stored precision for any block-inverse routine and for both storages as coded (dense: off-diagonal "
               "blocks assigned; BSR: duplicates summed - the two are shown to differ on an antiparallel pair), "
               "independently of the chunking; GMRFModel / PCAModel on point clouds equal the vector models on the "
               "stacked as_vector()s (at model level by definition; the tie to the code is genIncrementObj_eq + "
               "srcRunObj_eq + gen_asMatrix_exact) and mean() is the pointwise mean shape (from_vector is modelled, "
               "not translated: decided by the oracle on mean().as_vector()); the (n, mean, scatter) statistics ipca "
               "maintains equal those of batch PCA after any list of increments, centred and uncentred; for any "
               "results of sqrt / QR / SVD within their contracts and any rank of the residual (no full-rank "
               "hypothesis: [U_a; B~] need not have orthonormal rows) the rows of U belonging to non-zero singular "
               "values are orthonormal, and - EIGEN-DECOMPOSITION PART, PROVED OVER Q WITH EXACT CONTRACTS: the "
               "hypotheses (a rational orthonormal eigen-decomposition of the scatter, sqrt values with r*r = x exactly, "
               "a rational orthogonal Vt) can only be met by data whose spectral data are rational, e.g. not by a centred "
               "model of 2 samples incremented by 1 (n_a n_b / n = 2/3 has no rational square root) nor by the scatter "
               "[[2,1],[1,1]]; for all other data these theorems are vacuous and 'same eigenvalues and principal subspace' "
               "is decided by the certificate correspondence (U U^T = 1, U^T diag(l) U = exact covariance) and the "
               "oracle - every state reachable by pca + any chain of increments (eps discard "
               "modelled with its threshold - since /repo db6ef6e max(eps, max(R.shape) precision max l), a threshold of "
               "its own per step, at least eps - hypothesis: no eigenvalue in (0, threshold], shown to be exactly the weakest) is "
               "an eigen-decomposition of the batch scatter with rank-many components, the rank being the exact rank the "
               "driver computes by Gaussian elimination (rankExact_eq_rank: it IS Matrix.rank); two reachable states of the "
               "same data span the same principal subspace.  The step ipca computes for a forgetting factor f is "
               "modelled as coded (f^2 on the old scatter, f on mean / pseudo-sample / normaliser), reduces to the "
               "no-forgetting step for f = 1 and equals the f-weighted scatter about the f-weighted mean minus "
               "f(1-f) times the old scatter.  `l = l[l > eps]; U[:len(l)]` is proved to select exactly the rows "
               "that passed the test because singular values arrive in descending order.  The zero-mean branch test "
               "coded in ipca (centre=None) is refuted by a kernel-checked witness and proved harmless exactly when no "
               "running mean is all-zero.  Tied to /repo by running every composition of small sample sequences (and "
               "random ones for larger n) through the real classes and through menpo.math.ipca itself, diffing count / "
               "mean / covariance / rank / both precisions / forgetting runs / kept eigenvalues against the Lean "
               "driver; by `decide` obligations over the regenerated defaults (eps, f), the ipca call site of "
               "increment and the GMRF routine dispatch; an independent oracle (incremental vs batch model of the same "
               "class, and vs the exact covariance) decides the property.  TRANSLATOR TIE (harness/trans_c11.py, "
               "harness/py2lean2.py + py2lean2numpy.py): fourteen functions are translated from the source text of the "
               "current tree into Generated/C11Src.lean on every run (fifteen with as_matrix), over a numpy vocabulary (1-D / 2-D arrays with "
               "shapes over Q, broadcasting, .T, .dot, vstack, hstack, slices, fancy column indexing, sum/mean(axis=0), "
               "slice stores, for loops as folds, a raising call inside a loop as an exit flag; np.sqrt / qr / svd / the "
               "block inverse / the machine epsilon of the operands as parameters `lib`, `inv`), and GenProps/C11Src.lean "
               "proves each equal for ALL arguments to a hand-written definition `Src.*`: "
               "_increment_multivariate_gaussian_mean, _increment_multivariate_gaussian_cov (bias branch, raise), "
               "_increment_dense_precision, _increment_dense_diagonal_precision, _increment_sparse_precision, "
               "_increment_sparse_diagonal_precision (edge / vertex loops, which columns and mean entries make a block, "
               "the update call, the block inverse, the stores; sparse: the triplets, argsort, the indptr loop, "
               "bsr_matrix), GMRFVectorModel._data_to_matrix, _increment (dispatch on n_edges == 0 and sparse, argument "
               "order, mean and count updated AFTER the covariances), GMRFVectorModel.increment, GMRFModel.increment, "
               "menpo.math.decomposition.ipca (the whole plumbing: singular values from the count before it is "
               "multiplied by f, branch on centre / the mean, centring, the pseudo-sample stacked LAST, projection, "
               "QR of PB^T, the four blocks of R in their places, SVD, eigenvalues, the discard threshold "
               "max(eps, max(R.shape) precision max l), Vt [U_a; B~] cut to len(l) rows, the returned triple), "
               "PCAVectorModel._data_to_matrix, PCAVectorModel.increment (arguments handed to ipca, count update, "
               "active-components reset), PCAModel.increment, menpo.math.as_matrix (WITH storage dtypes: the matrix "
               "allocated in the template's dtype, the can_cast test, astype(promote_types), the row assignment that "
               "casts; theorem, in a model with TWO storage kinds int | float: no float sample is ever truncated into "
               "integer storage, whatever the kinds and their order, and an iterator that ends early raises; narrowing "
               "WITHIN a kind - an int32 template followed by int64 values, a float32 template followed by float64 "
               "samples - is not modelled (numpy's same_kind casting admitted it and as_matrix wrapped / rounded: "
               "found by this check and repaired in /repo, casting='safe'; the narrow-template cases of every run judge it).  The property theorems are then proved about `Src.*` and "
               "restated about the translated definitions: the translated cov formula gives np.cov of the "
               "concatenated data (gen_cov_update_exact); a translated incremental GMRF fed any list of data matrices "
               "does not raise in the model (the block inverse, indexing and slicing are total stand-ins: a singular "
               "block or a data matrix of the wrong shape raises in numpy and is not modelled) and holds the batch count / mean / block covariances, dense storage also the batch "
               "precision, independently of the chunking (gen_gmrf_refines_batch, gen_gmrf_chunking_independent, "
               "gen_gmrf_precision_eq_batch), object level included; the R matrix the translated ipca builds IS the "
               "block matrix of the Mathlib-level theorems (toMat_tailR), so one translated ipca call turns a "
               "decomposition of the scatter of the data seen so far into one of the scatter of all the data, with "
               "positive eigenvalues, the batch mean and orthonormal rows, for any qr / svd / sqrt results within "
               "their contracts and any rank of the residual (gen_ipca_step_represents, non-vacuity by a kernel-"
               "evaluated instance); hence every state reachable by a batch build and any chain of translated "
               "PCAVectorModel.increment calls holds the batch count, mean and an orthonormal eigen-decomposition of "
               "the batch scatter, and two such states of the same data span the same principal subspace "
               "(src_pca_reach_represents, src_pca_reach_unique) - under the same exact rational contracts, i.e. with "
               "the vacuity caveat stated above; count and mean of the translated ipca step hold without them "
               "(src_ipca_plumbing + ipca_mean_exact, src_pcaIncrement_spec).",
    level_note="Trusted: Lean kernel; axioms propext/Classical.choice/Quot.sound; Python harness (incl. the table "
               "extraction by inspect/ast and by wrapping the module-level GMRF routines); driver parser.  "
               "Contract parameters (not verified; checked numerically on every case through the certificate "
               "U U^T = 1, U^T diag(l) U = exact covariance): np.linalg.qr, np.linalg.svd (incl. descending order), "
               "np.sqrt, np.linalg.inv, np.cov, np.mean; scipy.sparse.bsr_matrix sums duplicate blocks.  Float "
               "rounding is absorbed by a 1e-9 relative tolerance on inputs whose conditioning is bounded by the "
               "generator.",
    rule="a case = one data set + one way of cutting it into an initial batch and >= 1 increments + one model "
         "configuration (PCA: centred/uncentred, vector or PointCloud backed, model class or menpo.math.ipca called "
         "directly, forgetting factors; GMRF: graph, mode, storage, bias, vector or PointCloud backed, input "
         "dtype/container); distinct = distinct (data, split, configuration); non-trivial = at least one "
         "increment and data of rank >= 2",
    partial=["the eigen-decomposition theorems of PCA (RepM, IpcaReach and its consequences, ipca_step_represents, "
             "src_ipcaTail_represents, src_ipca_step_represents, PcaRel / IpcaContracts / SrcPcaReach, "
             "gen_ipca_step_represents, ipca_reach_represents_live) are stated over Q with exact contracts "
             "(U U^T = 1, U^T diag(s) U = S, r*r = x, R^T R = Vt^T diag(s) Vt with rational factors): satisfiable only "
             "when the spectral data are rational (the non-vacuity examples are axis-aligned with perfect-square "
             "eigenvalues); for generic data they say nothing and eigenvalues / principal subspace are decided by the "
             "certificate correspondence and the oracle.  The repair (Part II over a linearly ordered field K with "
             "Real.sqrt / the spectral theorem as witnesses) is not done",
             "the batch side of 'incremental = batch' is the model's definition of a batch build (gmrfInit, pcaBatch, "
             "stateOfModel); GMRFVectorModel.__init__, _create_*_precision, PCAVectorModel.__init__ and pca are not "
             "translated in C11 (C12 / C10 translate them; here: correspondence and oracle)",
             "as_matrix: two storage kinds only; narrowing within a kind (int64 into an int32 template, float64 into a "
             "float32 template) is outside the model; /repo used to wrap / round there (found by this check, repaired: "
             "notes/fixes/C11-as-matrix-narrowing-within-kind.diff); decided by the oracle on the narrow-template cases "
             "of every run",
             "increment(ndarray, n_samples=k) on the vector models: the count follows the argument, not the array "
             "(_data_to_matrix does not cut an array), as coded and as modelled (Src.dataToMatrix); the documented use "
             "of n_samples is an iterator, so this is not judged; all chain theorems fix n_samples = None",
             "'never raises' is relative to total stand-ins (block inverse, indexing, slicing); shapes of the data "
             "matrix against the graph are not hypotheses of the theorems",
             "block-sparse storage of the translated builders: the triplets, the sort, the indptr loop and the "
             "bsr_matrix call are translated and proved equal to `Src.assemble`, the statistics theorems cover sparse "
             "storage too, but that `Src.assemble` denotes the sum of the triplets (= `precisionOfSparse`) is tied by "
             "the correspondence only (the theorem of that shape is C12's `bsr_sorted_denotes`, for the batch builders)",
             "PCAVectorModel.increment: the setter of n_active_components (C10's subject) is taken at an integer in "
             "range, where it stores the value",
             "forgetting factors other than 1 are outside the property: modelled as coded and tied by "
             "correspondence only (no oracle)",
             "n_components truncation of the block inverses (truncated SVD) belongs to C12"],
    assumptions=["numpy/LAPACK qr, svd, inv, eigh accurate to 1e-12 relative on matrices with condition number <= 1e6"],
    design_ref="DESIGN.md section 6, C11; section 7 item 9")
IMPORTS = ["MenpoModel.Props.C11", "MenpoModel.Props.C11Src", "MenpoModel.Props.C11SrcPca"]
GEN_IMPORT = "MenpoModel.GenProps.C11"
GEN_TARGETS = ["MenpoModel.Generated.C11Live", "MenpoModel.GenProps.C11"]
SRC_IMPORT = "MenpoModel.GenProps.C11Src"
THEOREMS = [
    "MenpoModel.C11.mean_update_exact",
    "MenpoModel.C11.cov_update_exact",
    "MenpoModel.C11.gmrf_increment_refines_stats",
    "MenpoModel.C11.gmrf_chunking_independent",
    "MenpoModel.C11.gmrf_precision_eq_batch",
    "MenpoModel.C11.gmrf_block_cov",
    "MenpoModel.C11.gmrf_stored_precision_eq_batch",
    "MenpoModel.C11.dense_sparse_differ_on_antiparallel",
    "MenpoModel.C11.dense_eq_sparse_of_simple",
    "MenpoModel.C11.precisionStored_storage_independent",
    "MenpoModel.C11.gmrfObj_eq_vector",
    "MenpoModel.C11.gmrfObj_refines_batch",
    "MenpoModel.C11.gmrfObj_mean_pointwise",
    "MenpoModel.C11.pcaObj_refines_batch",
    "MenpoModel.C11.fromVector_asVector",
    "MenpoModel.C11.featVertex_asVector",
    "MenpoModel.C11.scatter_union_identity",
    "MenpoModel.C11.ipca_mean_exact",
    "MenpoModel.C11.ipca_spec_refines_batch",
    "MenpoModel.C11.pca_chunking_independent",
    "MenpoModel.C11.ipca_count_mean",
    "MenpoModel.C11.ipca_coded_uncentred",
    "MenpoModel.C11.ipca_coded_centred",
    "MenpoModel.C11.ipca_coded_refuted",
    "MenpoModel.C11.pseudo_sample_gram",
    "MenpoModel.C11.ipcaForget_one",
    "MenpoModel.C11.pcaRunForget_one_refines_batch",
    "MenpoModel.C11.ipcaForget_mean_weighted",
    "MenpoModel.C11.ipcaForget_scatter_weighted",
    "MenpoModel.C11.ipcaForget_uncentred",
    "MenpoModel.C11.ipcaRows_eq_filter",
    "MenpoModel.C11.ipcaKeep_eq_take",
    "MenpoModel.C11.qr_contract",
    "MenpoModel.C11.svd_contract",
    "MenpoModel.C11.ipca_scatter_exact",
    "MenpoModel.C11.ipca_components_orthonormal",
    "MenpoModel.C11.eigen_of_representation",
    "MenpoModel.C11.representation_drop_zero",
    "MenpoModel.C11.ipca_covariance_exact",
    "MenpoModel.C11.principal_subspace_unique",
    "MenpoModel.C11.ipca_step_represents",
    "MenpoModel.C11.ipca_rows_orthonormal",
    "MenpoModel.C11.ipca_step_repM",
    "MenpoModel.C11.ipca_reach_represents",
    "MenpoModel.C11.ipca_reach_subspace_unique",
    "MenpoModel.C11.ipca_reach_card_eq_rank",
    "MenpoModel.C11.ipca_reach_eigen",
    "MenpoModel.C11.RepM.card_eq_rank",
    "MenpoModel.C11.RepM.eigenvalues_unique",
    "MenpoModel.C11.ipca_reach_eigenvalues_unique",
    "MenpoModel.C11.kept_represents_iff",
    "MenpoModel.C11.ipca_eps_gap_needed",
    "MenpoModel.C11.rankAux_eq",
    "MenpoModel.C11.rankExact_eq_rank",
    "MenpoModel.C11.ipca_reach_card_eq_rankExact",
    # about the definitions the TRANSLATED sources are proved equal to (Core/C11Src.lean)
    "MenpoModel.C11.src_incMean_eq",
    "MenpoModel.C11.src_incCov_some",
    "MenpoModel.C11.src_covNew_eq",
    "MenpoModel.C11.srcFeat_mean",
    "MenpoModel.C11.srcFeat_eq_feat",
    "MenpoModel.C11.storeDense_f",
    "MenpoModel.C11.src_incrementInner_dense",
    "MenpoModel.C11.src_incrementInner_sparse",
    "MenpoModel.C11.src_gmrf_refines_batch",
    "MenpoModel.C11.src_gmrf_precision_eq_batch",
    "MenpoModel.C11.src_gmrf_chunking_independent",
    "MenpoModel.C11.srcRunObj_eq",
    "MenpoModel.C11.src_gmrfObj_refines_batch",
    "MenpoModel.C11.toMat_tailR",
    "MenpoModel.C11.tail_full_represents",
    "MenpoModel.C11.tail_rows_orthonormal",
    "MenpoModel.C11.filterGt_prefix",
    "MenpoModel.C11.src_ipcaTail_represents",
    "MenpoModel.C11.src_ipca_plumbing",
    "MenpoModel.C11.src_ipca_eq_tail",
    "MenpoModel.C11.src_ipca_step_represents",
    "MenpoModel.C11.src_pcaIncrement_spec",
    "MenpoModel.C11.src_pcaIncrementObj_eq",
    "MenpoModel.C11.src_pcaIncrement_preserves",
    "MenpoModel.C11.src_pca_reach_represents",
    "MenpoModel.C11.src_pca_reach_unique",
    "MenpoModel.C11.asMatrixStep_spec",
    "MenpoModel.C11.src_asMatrix_exact",
    "MenpoModel.C11.src_asMatrix_short",
    "MenpoModel.C11.src_asMatrix_repr",
]
# obligations over the TRANSLATED sources (Generated/C11Src.lean, harness/trans_c11.py): translated = Src definition
SRC_THEOREMS = ["MenpoModel.GenProps.C11Src." + n for n in (
    "genIncMean_eq", "genIncCov_eq", "genIncDenseDiag_eq", "genIncDense_eq", "genIncSparseDiag_eq", "genIncSparse_eq",
    "genDataToMatrix_eq", "genPcaDataToMatrix_eq", "genIncrementInner_eq", "genIncrement_eq", "genIncrementObj_eq",
    "genIpca_eq", "genPcaIncrement_eq", "genPcaIncrementObj_eq", "ipcaDefaultEps_eq",
    # the property theorems restated about the translated definitions themselves
    "gen_cov_update_exact", "gen_cov_bad_bias", "genRun_eq", "gen_gmrf_refines_batch", "gen_gmrf_chunking_independent",
    "gen_gmrf_precision_eq_batch", "gen_ipca_step_represents", "gen_pcaIncrement_spec",
    "genAsMatrix_eq", "gen_asMatrix_exact")]
GEN_THEOREMS = [
    "MenpoModel.GenProps.C11.eps_ok",
    "MenpoModel.GenProps.C11.eps_nonneg",
    "MenpoModel.GenProps.C11.no_forgetting_by_default",
    "MenpoModel.GenProps.C11.ipcaCall_ok",
    "MenpoModel.GenProps.C11.gmrfDispatch_ok",
    "MenpoModel.GenProps.C11.gmrfDefaults_ok",
    "MenpoModel.GenProps.C11.ipca_reach_represents_live",
]
TOL = 1e-9
DRIVER_SHARDS = 4
SITE_PCA = "C11/PCA.increment"
SITE_GMRF = "C11/GMRF.increment"
SITE_IPCA = "C11/ipca"


# ------------------------------------------------------------------------------- regenerated tables

GMRF_ROUTINES = ["_create_sparse_precision", "_create_dense_precision", "_create_sparse_diagonal_precision",
                 "_create_dense_diagonal_precision", "_increment_sparse_precision", "_increment_dense_precision",
                 "_increment_sparse_diagonal_precision", "_increment_dense_diagonal_precision"]


def live_tables():
    """what the current tree says: defaults of ipca / increment / GMRFVectorModel, how increment calls ipca (ast of
    the live source), and which module-level routine GMRFVectorModel.__init__ / _increment pick (measured by wrapping
    the routines and running tiny models)"""
    import ast
    import inspect
    import textwrap
    import numpy as np
    from menpo.math import decomposition
    from menpo.model import pca as pca_mod, gmrf as gmrf_mod
    from menpo.shape import UndirectedGraph

    def rat(x):
        try:
            return F(repr(x))
        except (ValueError, TypeError):
            return F(-1)

    t = {}
    sig = inspect.signature(decomposition.ipca)
    t["ipcaEps"] = rat(sig.parameters["eps"].default)
    t["ipcaF"] = rat(sig.parameters["f"].default)
    t["incrementF"] = rat(inspect.signature(pca_mod.PCAVectorModel.increment).parameters["forgetting_factor"].default)
    t["incrementObjF"] = rat(inspect.signature(pca_mod.PCAModel.increment).parameters["forgetting_factor"].default)
    tree = ast.parse(textwrap.dedent(inspect.getsource(pca_mod.PCAVectorModel.increment)))
    calls = [n for n in ast.walk(tree) if isinstance(n, ast.Call) and getattr(n.func, "id", None) == "ipca"]
    if len(calls) == 1:
        # position 0 is the local name of the new data matrix (free to change); the others name model state
        t["ipcaCall"] = ([(str(i), ast.unparse(a)) for i, a in enumerate(calls[0].args) if i > 0] +
                         [(str(k.arg), ast.unparse(k.value)) for k in calls[0].keywords])
    else:
        t["ipcaCall"] = [("calls", str(len(calls)))]
    gsig = inspect.signature(gmrf_mod.GMRFVectorModel.__init__)
    t["gmrfDefaults"] = [(k, repr(gsig.parameters[k].default)) for k in ("mode", "n_components", "sparse", "bias", "incremental")
                         if k in gsig.parameters]
    # dispatch, measured
    saved = {n: getattr(gmrf_mod, n) for n in GMRF_ROUTINES if hasattr(gmrf_mod, n)}
    log = []

    def wrap(name, fn):
        def w(*a, **k):
            log.append(name)
            return fn(*a, **k)
        return w

    X = np.array([[1.0, 2.0, 0.5], [3.0, -1.0, 1.5], [-4.0, -1.0, -2.0], [2.0, 2.5, 1.0], [0.0, 3.0, 4.0], [1.0, 1.0, -2.0]])
    disp = []
    try:
        for n, fn in saved.items():
            setattr(gmrf_mod, n, wrap(n, fn))
        for edgeless in (True, False):
            for sparse in (True, False):
                e = np.zeros((0, 2), dtype=int) if edgeless else np.array([[0, 1], [1, 2]])
                g = UndirectedGraph.init_from_edges(e, 3)
                del log[:]
                try:
                    m = gmrf_mod.GMRFVectorModel(X[:4].copy(), g, sparse=sparse, incremental=True)
                    created = ",".join(log)
                    del log[:]
                    m.increment(X[4:].copy())
                    incremented = ",".join(log)
                except Exception as ex:      # noqa: BLE001 - reported through the obligation
                    created, incremented = "raised:" + type(ex).__name__, ",".join(log)
                disp.append((edgeless, sparse, created, incremented))
    finally:
        for n, fn in saved.items():
            setattr(gmrf_mod, n, fn)
    t["gmrfDispatch"] = disp
    return t


def generated_text(t):
    def q(x):
        return "(%d : Rat) / %d" % (x.numerator, x.denominator)

    def st(x):
        return '"%s"' % str(x).replace("\\", "\\\\").replace('"', '\\"')

    def b(x):
        return "true" if x else "false"

    return ("/- REGENERATED by harness/c11.py from the live menpo code on every run: defaults of `ipca` and of the\n"
            "   `increment` methods, the arguments `PCAVectorModel.increment` hands to `ipca` (from the ast of its source),\n"
            "   defaults of `GMRFVectorModel.__init__`, and the module-level routine `__init__` / `_increment` were\n"
            "   observed to call for (edgeless, sparse).  Do not edit. -/\n"
            "namespace MenpoModel.Generated.C11\n\n"
            "def ipcaEps : Rat := %s\ndef ipcaF : Rat := %s\ndef incrementF : Rat := %s\ndef incrementObjF : Rat := %s\n\n"
            "def ipcaCall : List (String × String) :=\n  [%s]\n\n"
            "def gmrfDefaults : List (String × String) :=\n  [%s]\n\n"
            "def gmrfDispatch : List (Bool × Bool × String × String) :=\n  [%s]\n\n"
            "end MenpoModel.Generated.C11\n" % (
                q(t["ipcaEps"]), q(t["ipcaF"]), q(t["incrementF"]), q(t["incrementObjF"]),
                ", ".join("(%s, %s)" % (st(a), st(v)) for a, v in t["ipcaCall"]),
                ", ".join("(%s, %s)" % (st(a), st(v)) for a, v in t["gmrfDefaults"]),
                ",\n   ".join("(%s, %s, %s, %s)" % (b(e), b(sp), st(c), st(i)) for e, sp, c, i in t["gmrfDispatch"])))


def generated(ctx):
    t = live_tables()
    ctx.notes["live_tables"] = {k: (str(v) if isinstance(v, F) else v) for k, v in t.items()}
    ok = common.build_generated(ctx, {"MenpoModel/Generated/C11Live.lean": generated_text(t)}, GEN_TARGETS,
                                len(GEN_THEOREMS))
    if not ok and ctx.broken_obligations:
        ctx.broken_obligations[-1]["obligation"] = "MenpoModel.GenProps.C11 (eps_ok / no_forgetting_by_default / " \
                                                   "ipcaCall_ok / gmrfDispatch_ok / gmrfDefaults_ok)"
        ctx.broken_obligations[-1]["observed"] = ctx.notes["live_tables"]
    return ok


def generated_src(ctx):
    """the anchored functions translated from the source text of the current tree (harness/trans_c11.py) and the
    obligations `translated = Src definition`; a source the vocabulary has no words for becomes a stub whose
    obligation cannot be proved: either way a broken obligation, never an infrastructure error"""
    from . import trans_c11
    files, reasons = trans_c11.generated_files()
    if reasons:
        ctx.notes["untranslatable"] = reasons
    ok = common.build_generated(ctx, files, trans_c11.GEN_TARGETS, len(SRC_THEOREMS))
    if not ok and ctx.broken_obligations:
        errs = " ".join(ctx.broken_obligations[-1].get("errors", []))
        named = [n.split(".")[-1] for n in SRC_THEOREMS if n.split(".")[-1] in ctx.broken_obligations[-1].get("output_tail", "")
                 or n.split(".")[-1] in errs]
        ctx.broken_obligations[-1]["obligation"] = ("MenpoModel.GenProps.C11Src: translated source = Src definition (%s)" %
                                                    (", ".join(named) or "see errors"))
        ctx.broken_obligations[-1]["observed"] = {"untranslatable": reasons}
    return ok



# ------------------------------------------------------------------------------- generators

def compositions(n, first_min, min_parts=2):
    """every way of writing n = c0 + c1 + ... + ck with c0 >= first_min, ci >= 1, at least `min_parts` parts"""
    out = []

    def rec(rest, acc):
        if rest == 0:
            if len(acc) >= min_parts:
                out.append(tuple(acc))
            return
        for c in range(1, rest + 1):
            rec(rest - c, acc + [c])

    for c0 in range(first_min, n + 1):
        rec(n - c0, [c0])
    return out


def random_composition(rng, n, first_min):
    c0 = rng.randint(first_min, n - 1)
    parts, rest = [c0], n - c0
    while rest > 0:
        c = rng.randint(1, rest)
        parts.append(c)
        rest -= c
    return tuple(parts)


def cut(X, split):
    out, lo = [], 0
    for c in split:
        out.append(X[lo:lo + c])
        lo += c
    return out


def dyadic_matrix(rng, n, d, kmax=24, mexp=2):
    import numpy as np
    return np.array([[common.dyadic(rng, kmax, mexp) for _ in range(d)] for _ in range(n)], dtype=float)


def exact_rank(rows):
    """rank of a list of Fraction rows (Gaussian elimination)"""
    rows = [list(r) for r in rows]
    rank, ncol = 0, len(rows[0]) if rows else 0
    for c in range(ncol):
        piv = next((r for r in range(rank, len(rows)) if rows[r][c] != 0), None)
        if piv is None:
            continue
        rows[rank], rows[piv] = rows[piv], rows[rank]
        pv = rows[rank][c]
        for r in range(rank + 1, len(rows)):
            f = rows[r][c] / pv
            if f != 0:
                rows[r] = [a - f * b for a, b in zip(rows[r], rows[rank])]
        rank += 1
    return rank


def exact_cov(X, centred, ddof=1):
    """(mean, covariance) of the rows of X in exact arithmetic, returned as float arrays plus the exact rank"""
    import numpy as np
    n, d = X.shape
    fx = [[F(v) for v in row] for row in X.tolist()]
    m = [sum(r[j] for r in fx) / n if centred else F(0) for j in range(d)]
    cx = [[r[j] - m[j] for j in range(d)] for r in fx]
    C = [[sum(r[i] * r[j] for r in cx) / (n - ddof) for j in range(d)] for i in range(d)]
    return (np.array([float(v) for v in m]), np.array([[float(v) for v in row] for row in C]), exact_rank(cx))


def pca_data_ok(X, split, centred, ratio=1e-3):
    """conditioning bounded on the input: on every prefix the non-zero part of the spectrum of the exact covariance
    is far from the code's thresholds (eps = 1e-10) and from zero"""
    import numpy as np
    lo = 0
    for c in split:
        lo += c
        m, C, rank = exact_cov(X[:lo], centred)
        if rank == 0:
            return False
        ev = np.sort(np.linalg.eigvalsh(C))[::-1]
        if ev[rank - 1] < ratio * max(ev[0], 1.0) or ev[rank - 1] < 1e-2:
            return False
    return True


def make_graph(rng, kind, nv):
    """edge list of a simple graph on nv vertices"""
    if kind == "edgeless":
        return []
    if kind == "chain":
        return [[i, i + 1] for i in range(nv - 1)]
    if kind == "cycle":
        return [[i, (i + 1) % nv] for i in range(nv)]
    if kind in ("tree", "Tree"):
        return [[rng.randrange(i), i] for i in range(1, nv)]
    if kind == "chain-isolated":    # the last vertex has no edge: its rows of the precision stay zero, its BSR row is empty
        return [[i, i + 1] for i in range(nv - 2)]
    if kind == "twoway-chain":      # a directed graph given by a symmetric adjacency: every link in both directions
        return [e for i in range(nv - 1) for e in ([i, i + 1], [i + 1, i])]
    if kind == "twoway-cycle":
        return [e for i in range(nv) for e in ([i, (i + 1) % nv], [(i + 1) % nv, i])]
    raise ValueError(kind)


def build_graph(kind, edges, nv):
    import numpy as np
    from menpo.shape import UndirectedGraph, Tree
    e = np.array(edges, dtype=int).reshape(-1, 2)
    if kind == "Tree":
        return Tree.init_from_edges(e, nv, root_vertex=0)
    if kind.startswith("twoway"):
        from menpo.shape import DirectedGraph
        return DirectedGraph.init_from_edges(e, nv)
    return UndirectedGraph.init_from_edges(e, nv)


def block_columns(edges, mode, k, nv):
    """column index lists of the data of every block (independent transcription for the conditioning guard)"""
    if not edges:
        return [("v", list(range(v * k, (v + 1) * k)), None) for v in range(nv)]
    out = []
    for a, b in edges:
        ca, cb = list(range(a * k, (a + 1) * k)), list(range(b * k, (b + 1) * k))
        out.append(("c", ca + cb, None) if mode == "concatenation" else ("s", ca, cb))
    return out


def gmrf_data_ok(X, split, edges, mode, k, nv, bias, cond=None):
    import numpy as np
    lo = 0
    for idx, c in enumerate(split):
        lo += c
        last = idx == len(split) - 1
        for kind, ca, cb in block_columns(edges, mode, k, nv):
            D = X[:lo][:, ca] if cb is None else X[:lo][:, ca] - X[:lo][:, cb]
            C = np.atleast_2d(np.cov(D, rowvar=0, bias=bias))
            if not np.all(np.isfinite(C)) or np.linalg.cond(C) > (cond or (1e4 if last else 1e6)):
                return False
    return True


# ------------------------------------------------------------------------------- implementation runners

# storage dtypes of a chunk of samples: numpy dtype names, and `list-int` = a list of 1-D int64 arrays (vector models)
DTYPES = ("float64", "int64", "int32", "float32", "list-int")
TOL32 = 1e-4          # DESIGN section 3: relative tolerance for single precision computations


def np_dtype(dt):
    import numpy as np
    return {"float64": np.float64, "int64": np.int64, "int32": np.int32, "float32": np.float32,
            "list-int": np.int64, None: np.float64}[dt]


def cast_chunk(c, dt):
    """the chunk (a float64 matrix holding values the dtype can store exactly) in the storage dtype `dt`"""
    import numpy as np
    if dt is None or dt == "float64":
        return c.copy()
    if dt == "list-int":
        return [np.array(r, dtype=np.int64) for r in c]
    return c.astype(np_dtype(dt))


def stack_cast(chunks, dtypes):
    """`np.vstack` of the chunks as they are handed to the incremental model (numpy's promotion decides the dtype)"""
    import numpy as np
    return np.vstack([np.asarray(cast_chunk(c, dt)) for c, dt in zip(chunks, dtypes)])


def has_single(dtypes):
    return bool(dtypes) and any(dt == "float32" for dt in dtypes)


def case_tol(dtypes, tol=TOL):
    return max(tol, TOL32) if has_single(dtypes) else tol


def as_pointclouds(M, k, int_first=False, dtype=None):
    """int_first: the first sample is stored with an integer dtype (PointCloud keeps the dtype it is given);
    dtype: every sample is stored with that dtype"""
    import numpy as np
    from menpo.shape import PointCloud
    out = [PointCloud(np.array(r, dtype=float).astype(np_dtype(dtype)).reshape(-1, k)) for r in M]
    if int_first:
        out[0] = PointCloud(np.array(M[0]).astype(np.int64).reshape(-1, k))
    return out


def as_matrix_widens():
    """does menpo.math.as_matrix keep the fractional part of a float sample that follows an integer-typed template?
    (it allocates the matrix with the dtype of the first sample; see notes/fixes/C11-as-matrix-template-dtype.diff)"""
    import numpy as np
    from menpo.math import as_matrix
    from menpo.shape import PointCloud
    try:
        M = as_matrix([PointCloud(np.array([[0, 1]])), PointCloud(np.array([[0.5, 1.25]]))])
        return bool(M[1, 0] == 0.5 and M[1, 1] == 1.25)
    except Exception:      # noqa: BLE001
        return False


def pca_state(m):
    import numpy as np
    mean = m.mean()
    mean = mean.as_vector() if hasattr(mean, "as_vector") else mean
    return dict(n=m.n_samples, mean=np.array(mean, dtype=float), U=np.array(m.components, dtype=float),
                l=np.array(m.eigenvalues, dtype=float))


def run_pca_impl(chunks, centred, backing, factors=None, dtypes=None):
    """state of the incrementally fed model and of the batch model: dicts n, mean, U, l.
    backing: vector | pointcloud | pointcloud-iter (samples handed over as an iterator with n_samples);
    dtypes: storage dtype of every chunk (first = initial batch), default float64; the batch model is built from the
    `np.vstack` of the chunks as handed over (vector) / from all the point clouds as handed over (object level)"""
    import numpy as np
    from menpo.model import PCAVectorModel, PCAModel
    X = np.vstack(chunks)
    fs = factors or [None] * (len(chunks) - 1)
    dts = list(dtypes) if dtypes else [None] * len(chunks)

    def kw(f):
        return {} if f is None else {"forgetting_factor": f}

    if backing in ("vector", "vector-trimmed"):
        first = cast_chunk(chunks[0], dts[0])
        inc = PCAVectorModel(np.asarray(first) if dts[0] == "list-int" else first, centre=centred)
        if backing == "vector-trimmed" and inc.n_components >= 2:
            # a previous life: the user lowered the number of active components before feeding more data (increment
            # then takes the branch that leaves n_active_components alone); the stored decomposition is read back in
            # full after the increments
            inc.n_active_components = inc.n_components - 1
        for c, f, dt in zip(chunks[1:], fs, dts[1:]):
            inc.increment(cast_chunk(c, dt), **kw(f))
        if backing == "vector-trimmed":
            inc.n_active_components = inc.n_components
        bat = PCAVectorModel(stack_cast(chunks, dts) if dtypes else X.copy(), centre=centred)
    else:
        inc = PCAModel(as_pointclouds(chunks[0], 2, dtype=dts[0]), centre=centred)
        allpcs = as_pointclouds(chunks[0], 2, dtype=dts[0])
        for c, f, dt in zip(chunks[1:], fs, dts[1:]):
            pcs = as_pointclouds(c, 2, dtype=dt)
            allpcs += as_pointclouds(c, 2, dtype=dt)
            if backing == "pointcloud-iter":
                inc.increment(iter(pcs), n_samples=len(pcs), **kw(f))
            else:
                inc.increment(pcs, **kw(f))
        bat = PCAModel(allpcs if dtypes else as_pointclouds(X, 2), centre=centred)
    return pca_state(inc), pca_state(bat)


def run_ipca_direct(chunks, centred, centre_arg, dtypes=None):
    """menpo.math.pca on the first chunk, then menpo.math.ipca itself for every further chunk"""
    import numpy as np
    from menpo.math import pca, ipca
    dts = [(None if dt == "list-int" else dt) for dt in dtypes] if dtypes else [None] * len(chunks)
    U, l, m = pca(cast_chunk(chunks[0], dts[0]), centre=centred)
    n = chunks[0].shape[0]
    for c, dt in zip(chunks[1:], dts[1:]):
        U, l, m = ipca(cast_chunk(c, dt), U, l, n, m_a=m, centre=centre_arg)
        n += c.shape[0]
    return dict(n=n, mean=np.array(m, dtype=float), U=np.array(U, dtype=float), l=np.array(l, dtype=float))


def run_gmrf_impl(chunks, kind, edges, nv, k, mode, sparse, bias, backing, variant="plain"):
    """variant: plain | int (integer dtype data matrix) | list (every chunk handed over as a list of 1-D arrays) |
    iter (object level: an iterator of samples together with n_samples)"""
    import numpy as np
    from menpo.model import GMRFVectorModel, GMRFModel
    X = np.vstack(chunks)

    def dense(p):
        return np.array(p.toarray() if hasattr(p, "toarray") else p, dtype=float)

    def state(m):
        mean = m.mean()
        mean = mean.as_vector() if hasattr(mean, "as_vector") else mean
        covs = m._covariance_matrices
        return dict(n=m.n_samples, mean=np.array(mean, dtype=float), P=dense(m.precision),
                    covs=None if covs is None else np.array(covs, dtype=float))

    def arg(c):
        if variant == "int":
            return np.array(c, dtype=np.int64)
        if variant == "list":
            return [np.array(r, dtype=float) for r in c]
        return c.copy()

    kw = dict(mode=mode, sparse=sparse, bias=bias, dtype=np.float64)
    pair = variant_dtypes(variant)
    if pair is not None:
        # storage dtypes: `dt0>dt1` = initial batch stored as dt0, every increment as dt1; the batch model gets the
        # samples exactly as the incremental one got them (stacked / listed)
        dts = [pair[0]] + [pair[1]] * (len(chunks) - 1)
        if backing == "vector":
            first = cast_chunk(chunks[0], dts[0])
            inc = GMRFVectorModel(first, build_graph(kind, edges, nv), incremental=True, **kw)
            for c, dt in zip(chunks[1:], dts[1:]):
                inc.increment(cast_chunk(c, dt))
            bat = GMRFVectorModel(stack_cast(chunks, dts), build_graph(kind, edges, nv), incremental=False, **kw)
        else:
            inc = GMRFModel(as_pointclouds(chunks[0], k, dtype=dts[0]), build_graph(kind, edges, nv), incremental=True, **kw)
            allpcs = as_pointclouds(chunks[0], k, dtype=dts[0])
            for c, dt in zip(chunks[1:], dts[1:]):
                inc.increment(as_pointclouds(c, k, dtype=dt))
                allpcs += as_pointclouds(c, k, dtype=dt)
            bat = GMRFModel(allpcs, build_graph(kind, edges, nv), incremental=False, **kw)
        return state(inc), state(bat)
    if backing == "vector":
        inc = GMRFVectorModel(arg(chunks[0]), build_graph(kind, edges, nv), incremental=True, **kw)
        for c in chunks[1:]:
            inc.increment(arg(c))
        bat = GMRFVectorModel(arg(X), build_graph(kind, edges, nv), incremental=False, **kw)
    else:
        first_int = variant == "int-template"
        inc = GMRFModel(as_pointclouds(chunks[0], k, first_int), build_graph(kind, edges, nv), incremental=True, **kw)
        for c in chunks[1:]:
            pcs = as_pointclouds(c, k)
            if variant == "iter":
                inc.increment(iter(pcs), n_samples=len(pcs))
            else:
                inc.increment(pcs)
        bat = GMRFModel(as_pointclouds(X, k, first_int), build_graph(kind, edges, nv), incremental=False, **kw)
    return state(inc), state(bat)


def variant_dtypes(variant):
    """`dt0>dt1` -> (dt0, dt1), any other variant -> None"""
    if isinstance(variant, str) and ">" in variant:
        a, b = variant.split(">")
        return a, b
    return None


# ------------------------------------------------------------------------------- oracle

def arr_close(a, b, tol=TOL):
    import numpy as np
    a, b = np.asarray(a, dtype=float), np.asarray(b, dtype=float)
    if a.shape != b.shape:
        return False
    if a.size == 0:
        return True
    if not (np.all(np.isfinite(a)) and np.all(np.isfinite(b))):
        return False
    scale = max(float(np.abs(b).max()), 1.0)
    return bool(np.abs(a - b).max() <= tol * (1.0 + scale))


def pca_python(chunks, centred, backing, dtypes=None):
    dts = [("int64" if dt == "list-int" else (dt or "float64")) for dt in (dtypes or [None] * len(chunks))]
    return ("import numpy as np\nfrom menpo.model import PCAVectorModel\nchunks = %r\ndtypes = %r\n"
            "arr = [np.array(c, dtype=float).astype(dt) for c, dt in zip(chunks, dtypes)]\n"
            "m = PCAVectorModel(arr[0].copy(), centre=%r)\n"
            "for c in arr[1:]:\n    m.increment(c.copy())\n"
            "b = PCAVectorModel(np.vstack(arr), centre=%r)\n"
            "print(m.n_samples, m.mean(), m.eigenvalues)\nprint(b.n_samples, b.mean(), b.eigenvalues)\n" % (
                [c.tolist() for c in chunks], dts, centred, centred))


def certificate(ctx, inc, X, centred, site, rp, tol=1e-8):
    """against the definition, independent of batch `pca`: the returned factors are an orthonormal eigen-decomposition
    of the exact covariance of the stacked data, with rank-many components"""
    import numpy as np
    m_ex, C_ex, rank = exact_cov(X, centred)
    k = inc["U"].shape[0]
    Ci = inc["U"].T.dot(np.diag(inc["l"])).dot(inc["U"])
    ok = ctx.check(arr_close(inc["U"].dot(inc["U"].T), np.eye(k), tol), site, "not-orthonormal",
                   "rows of the components after the increments are not orthonormal", rp)
    ok &= ctx.check(arr_close(Ci, C_ex, tol), site, "covariance",
                    "U^T diag(l) U after the increments differs from the exact covariance of the stacked data by %.2e "
                    "(components %d, exact rank %d)" % (float(np.abs(Ci - C_ex).max()), k, rank), rp)
    # not demanded by the property text (it asks for equality with the batch model, judged by the caller): the number
    # of components against the exact rank and the descending order are correspondence observations, not failures
    if k != rank:
        ctx.mismatch("certificate.n_components", "%d components, the exact covariance has rank %d" % (k, rank), rp)
    if not bool(np.all(np.diff(inc["l"]) <= max(1e-9, tol / 10) * (1.0 + float(np.abs(inc["l"]).max() if k else 0.0)))):
        ctx.mismatch("certificate.order", "eigenvalues after the increments are not in descending order: %r" %
                     inc["l"].tolist(), rp)
    return ok


def pca_oracle(ctx, chunks, centred, backing, rp, dtypes=None):
    """the property on the real code.  Returns the incremental state (or None when the call raised)."""
    import numpy as np
    site = SITE_PCA + ("/centred" if centred else "/uncentred")
    tol, tol8 = case_tol(dtypes), case_tol(dtypes, 1e-8)
    try:
        inc, bat = run_pca_impl(chunks, centred, backing, dtypes=dtypes)
    except Exception as e:
        ctx.fail(site, "raises", "increment/build raised %s: %s" % (type(e).__name__, str(e)[:120]), rp)
        return None
    X = np.vstack(chunks)
    m_ex, C_ex, rank = exact_cov(X, centred)
    ok = True
    ok &= ctx.check(inc["n"] == bat["n"] == X.shape[0], site, "count",
                    "n_samples after the increments is %r, the batch model on the stacked data has %r" % (inc["n"], bat["n"]), rp)
    if not (arr_close(inc["mean"], bat["mean"], tol) and arr_close(inc["mean"], m_ex, tol)):
        # classify: was a running mean exactly zero before an increment of a centred model?
        lo, zero_before = 0, False
        for c in chunks[:-1]:
            lo += c.shape[0]
            zero_before |= bool(np.all(X[:lo].mean(axis=0) == 0))
        stays = centred and zero_before and bool(np.all(inc["mean"] == 0))
        ctx.fail(site, "zero-mean-treated-as-uncentred" if stays else "mean",
                 "mean after the increments %r, batch mean %r%s" % (
                     inc["mean"].tolist(), bat["mean"].tolist(),
                     " (a centred model whose running mean was exactly zero is updated as if it were uncentred: "
                     "ipca tests np.all(m_a == 0) instead of the model's centred flag)" if stays else ""), rp)
        return inc
    if inc["l"].shape != bat["l"].shape or not arr_close(inc["l"], bat["l"], tol):
        ok = False
        ctx.fail(site, "eigenvalues", "eigenvalues after the increments %r, batch %r" % (inc["l"].tolist(), bat["l"].tolist()), rp)
    else:
        Pi, Pb = inc["U"].T.dot(inc["U"]), bat["U"].T.dot(bat["U"])
        ok &= ctx.check(arr_close(Pi, Pb, case_tol(dtypes, 1e-7) * (10 if has_single(dtypes) else 1)), site, "subspace",
                        "projector onto the principal subspace differs from the batch model's by %.2e" % float(np.abs(Pi - Pb).max()), rp)
    certificate(ctx, inc, X, centred, site, rp, tol8)
    return inc


def zero_mean_prefix(chunks):
    """is the running mean exactly zero in every feature before some increment?"""
    import numpy as np
    X = np.vstack(chunks)
    lo = 0
    for c in chunks[:-1]:
        lo += c.shape[0]
        if bool(np.all(X[:lo].mean(axis=0) == 0)):
            return True
    return False


def ipca_oracle(ctx, chunks, centred, centre_arg, rp, dtypes=None):
    """menpo.math.ipca called directly.  With centre=None and an all-zero mean the documented convention is the
    uncentred update, so the batch comparison applies only when no running mean is all-zero (or centre is given)."""
    import numpy as np
    site = SITE_IPCA + ("/centred" if centred else "/uncentred")
    try:
        inc = run_ipca_direct(chunks, centred, centre_arg, dtypes)
    except Exception as e:
        ctx.fail(site, "raises", "pca/ipca raised %s: %s" % (type(e).__name__, str(e)[:120]), rp)
        return None
    X = np.vstack(chunks)
    if centred and centre_arg is None and zero_mean_prefix(chunks):
        ctx.count("ipca:documented-zero-mean-convention")
        return inc
    m_ex, _, _ = exact_cov(X, centred)
    ctx.check(inc["n"] == X.shape[0], site, "count", "count %r" % inc["n"], rp)
    if ctx.check(arr_close(inc["mean"], m_ex, case_tol(dtypes)), site, "mean",
                 "mean returned by ipca %r, mean of the stacked data %r" % (inc["mean"].tolist(), m_ex.tolist()), rp):
        certificate(ctx, inc, X, centred, site, rp, case_tol(dtypes, 1e-8))
    return inc


def gmrf_oracle(ctx, chunks, cfg, rp):
    import numpy as np
    kind, edges, nv, k, mode, sparse, bias, backing = cfg[:8]
    variant = cfg[8] if len(cfg) > 8 else "plain"
    try:
        inc, bat = run_gmrf_impl(chunks, kind, edges, nv, k, mode, sparse, bias, backing, variant)
    except Exception as e:
        ctx.fail(SITE_GMRF, "raises", "increment/build raised %s: %s" % (type(e).__name__, str(e)[:120]), rp)
        return None, None
    X = np.vstack(chunks)
    dts = variant_dtypes(variant)
    ctx.check(inc["n"] == bat["n"] == X.shape[0], SITE_GMRF, "count",
              "n_samples after the increments is %r, the batch model has %r" % (inc["n"], bat["n"]), rp)
    ctx.check(arr_close(inc["mean"], bat["mean"], case_tol(dts)) and arr_close(inc["mean"], X.mean(axis=0), case_tol(dts)),
              SITE_GMRF, "mean",
              "mean after the increments %r, batch mean %r" % (inc["mean"].tolist(), bat["mean"].tolist()), rp)
    ctx.check(arr_close(inc["P"], bat["P"], case_tol(dts, 1e-8)), SITE_GMRF, "precision",
              "precision after the increments differs from the batch precision by %.3e (max entry %.3e)" % (
                  float(np.abs(inc["P"] - bat["P"]).max()) if inc["P"].shape == bat["P"].shape else float("nan"),
                  float(np.abs(bat["P"]).max())), rp)
    return inc, bat


# ------------------------------------------------------------------------------- cases

def wire_chunks(chunks):
    return "%d %s" % (len(chunks), " ".join(common.fmat(c.tolist()) for c in chunks))


def wire_clouds(chunks, k):
    """object level: every chunk is a list of point clouds (n_points x k)"""
    out = ["%d" % len(chunks)]
    for c in chunks:
        out.append("%d" % c.shape[0])
        for r in c.tolist():
            out.append(common.fmat([r[p * k:(p + 1) * k] for p in range(len(r) // k)]))
    return " ".join(out)


class Run:
    def __init__(self, ctx, with_model=True):
        self.ctx, self.with_model = ctx, with_model
        self.lines, self.pending = [], {}

    def ask(self, line, kind, inc, rp, **extra):
        if not self.with_model or inc is None:
            return
        cid = "q%d" % len(self.lines)
        self.lines.append("%s %s" % (cid, line))
        self.pending[cid] = (kind, inc, rp, extra)

    def settle(self):
        import numpy as np
        if not self.lines:
            return
        # a few driver processes side by side (each answers its own share of the request lines)
        from concurrent.futures import ThreadPoolExecutor
        shards = [self.lines[i::DRIVER_SHARDS] for i in range(DRIVER_SHARDS)]
        shards = [sh for sh in shards if sh]
        model = {}
        with ThreadPoolExecutor(max_workers=len(shards)) as ex:
            for part in ex.map(lambda sh: common.run_driver(PROP, sh), shards):
                model.update(part)
        for cid, (kind, inc, rp, extra) in self.pending.items():
            rep = model[cid]
            if not rep.startswith("ok "):
                self.ctx.mismatch(kind, "model answered %r" % rep[:80], rp)
                continue
            parts = [p.split() for p in rep[3:].split("|")]
            if kind == "keep":
                cnt, lm = int(parts[0][0]), np.array([float(F(x)) for x in parts[1]])
                if cnt != inc["l"].shape[0] or not arr_close(inc["l"], lm):
                    self.ctx.mismatch("ipca.keep", "eigenvalues kept by ipca %r, by the model %r" % (inc["l"].tolist(), lm.tolist()), rp)
                continue
            n = int(parts[0][0])
            mean = np.array([float(F(x)) for x in parts[1]])
            d = mean.shape[0]
            sq = np.array([float(F(x)) for x in parts[2]]).reshape(d, d)
            tol, tol8 = extra.get("tol", TOL), extra.get("tol8", 1e-8)
            if n != inc["n"]:
                self.ctx.mismatch(kind + ".count", "model %d vs implementation %r" % (n, inc["n"]), rp)
            if not arr_close(inc["mean"], mean, tol):
                self.ctx.mismatch(kind + ".mean", "model %r vs implementation %r" % (mean.tolist(), inc["mean"].tolist()), rp)
            if kind in ("pca", "ipca"):
                Ci = inc["U"].T.dot(np.diag(inc["l"])).dot(inc["U"])
                if not arr_close(Ci, sq, tol8):
                    self.ctx.mismatch(kind + ".covariance", "U^T diag(l) U differs from the model covariance by %.2e" %
                                      float(np.abs(Ci - sq).max()), rp)
                rank = int(parts[3][0])
                if rank != inc["U"].shape[0]:
                    self.ctx.mismatch(kind + ".n_components", "%d components, the model scatter has exact rank %d" % (
                        inc["U"].shape[0], rank), rp)
            elif kind == "pcaf":
                # guard on the exact model quantity: the non-zero part of the model spectrum must be far above eps
                ev = np.sort(np.linalg.eigvalsh((sq + sq.T) / 2.0))[::-1]
                kk = inc["U"].shape[0]
                if kk == 0 or kk > d or ev[kk - 1] < 1e-5 * max(ev[0], 1.0) or (kk < d and abs(ev[kk]) > 1e-9 * max(ev[0], 1.0)):
                    self.ctx.count("pcaf:guard-skipped")
                    continue
                Ci = inc["U"].T.dot(np.diag(inc["l"])).dot(inc["U"])
                if not arr_close(Ci, sq, 1e-8):
                    self.ctx.mismatch("pcaf.covariance", "forgetting factors %r: U^T diag(l) U differs from the model "
                                      "covariance by %.2e" % (rp.get("factors"), float(np.abs(Ci - sq).max())), rp)
            else:
                Pm = sq if not extra.get("sparse") else np.array([float(F(x)) for x in parts[4]]).reshape(d, d)
                if not arr_close(inc["P"], Pm, tol8):
                    self.ctx.mismatch("gmrf.precision", "implementation precision (%s storage) differs from the model's by "
                                      "%.2e" % ("sparse" if extra.get("sparse") else "dense", float(np.abs(inc["P"] - Pm).max())), rp)
                bat = extra.get("bat")
                if bat is not None and not arr_close(bat["P"], Pm, tol8):
                    self.ctx.mismatch("gmrf.batch-precision", "batch precision (%s storage) differs from the model's by "
                                      "%.2e" % ("sparse" if extra.get("sparse") else "dense", float(np.abs(bat["P"] - Pm).max())), rp)
                covs = np.array([float(F(x)) for x in parts[3]])
                if inc["covs"] is not None and not arr_close(inc["covs"].ravel(), covs, tol8):
                    self.ctx.mismatch("gmrf.covariances", "stored block covariances differ from the model's", rp)


def pca_case(run, X, split, centred, backing, tag, dtypes=None):
    """dtypes: storage dtype of every chunk (None = all float64)"""
    ctx = run.ctx
    chunks = cut(X, split)
    rp = {"model": "PCA", "centred": centred, "backing": backing, "split": list(split), "data": X.tolist(),
          "python": pca_python(chunks, centred, backing, dtypes)}
    if dtypes:
        rp["dtypes"] = list(dtypes)
    ctx.case(("pca", X.tobytes(), split, centred, backing, tuple(dtypes or ())), nontrivial=len(split) >= 2 and X.shape[0] >= 3,
             sample={"model": "PCA", "n": X.shape[0], "d": X.shape[1], "split": list(split), "centred": centred,
                     "backing": backing, "dtypes": list(dtypes or ())})
    ctx.count("pca:%s:%s:%s" % ("centred" if centred else "uncentred", backing,
                                "n<=d" if X.shape[0] <= X.shape[1] else "n>d"))
    ctx.count("pca:%s" % tag)
    ctx.count("increments:%d" % (len(split) - 1))
    if dtypes:
        ctx.count("pca:dtype:%s:initial=%s:increment=%s" % ("centred" if centred else "uncentred", dtypes[0],
                                                           "+".join(sorted(set(dtypes[1:])))))
    inc = pca_oracle(ctx, chunks, centred, backing, rp, dtypes)
    ex = dict(tol=case_tol(dtypes), tol8=case_tol(dtypes, 1e-8))
    if backing in ("vector", "vector-trimmed"):
        run.ask("pca %d spec %s" % (1 if centred else 0, wire_chunks(chunks)), "pca", inc, rp, **ex)
    else:
        run.ask("pcao %d 2 %s" % (1 if centred else 0, wire_clouds(chunks, 2)), "pca", inc, rp, **ex)


def ipca_case(run, X, split, centred, centre_arg, tag, dtypes=None):
    """menpo.math.ipca as a public entry point of its own"""
    ctx = run.ctx
    chunks = cut(X, split)
    rp = {"model": "ipca", "centred": centred, "centre_arg": centre_arg, "split": list(split), "data": X.tolist()}
    if dtypes:
        rp["dtypes"] = list(dtypes)
    ctx.case(("ipca", X.tobytes(), split, centred, centre_arg, tuple(dtypes or ())),
             nontrivial=len(split) >= 2 and X.shape[0] >= 3)
    ctx.count("ipca:%s:centre=%r" % ("centred" if centred else "uncentred", centre_arg))
    ctx.count("ipca:%s" % tag)
    if dtypes:
        ctx.count("ipca:dtype:%s:initial=%s:increment=%s" % ("centred" if centred else "uncentred", dtypes[0],
                                                            "+".join(sorted(set(dtypes[1:])))))
    inc = ipca_oracle(ctx, chunks, centred, centre_arg, rp, dtypes)
    # centre=None: the branch is inferred from the mean (`ipcaStepCoded`); centre given: the specified step
    variant = "coded" if centre_arg is None else "spec"
    run.ask("pca %d %s %s" % (1 if centred else 0, variant, wire_chunks(chunks)), "ipca", inc, rp,
            tol=case_tol(dtypes), tol8=case_tol(dtypes, 1e-8))


def forget_case(run, X, split, centred, backing, factors, tag):
    """forgetting factors: outside the property (no oracle); the step as coded is tied to the model"""
    ctx = run.ctx
    if not run.with_model:
        return
    chunks = cut(X, split)
    rp = {"model": "PCA-forget", "centred": centred, "backing": backing, "split": list(split), "data": X.tolist(),
          "factors": [str(f) for f in factors]}
    ctx.case(("pcaf", X.tobytes(), split, centred, backing, tuple(factors)), nontrivial=len(split) >= 2)
    ctx.count("pcaf:%s:%s" % ("centred" if centred else "uncentred", backing))
    ctx.count("pcaf:%s" % tag)
    try:
        inc, _ = run_pca_impl(chunks, centred, backing, [float(f) for f in factors])
    except Exception as e:
        ctx.mismatch("pcaf", "increment with forgetting factors %r raised %s: %s" % (
            [str(f) for f in factors], type(e).__name__, str(e)[:120]), rp)
        return
    run.ask("pcaf %d %s %d %s" % (1 if centred else 0, common.fmat(chunks[0].tolist()), len(chunks) - 1,
                                  " ".join("%d/%d %s" % (f.numerator, f.denominator, common.fmat(c.tolist()))
                                           for f, c in zip(factors, chunks[1:]))),
            "pcaf", inc, rp)


def keep_case(run, ka, la, na, brows, f, eps, tag):
    """`l = s~^2 / (n - 1); l = l[l > eps]; U[:len(l)]` with its threshold: axis-aligned input, so the squared singular
    values of R are known exactly: U_a = e_0..e_{ka-1}, eigenvalues la, new rows b_j e_{ka+j} (uncentred)"""
    import numpy as np
    from menpo.math import ipca
    ctx = run.ctx
    if not run.with_model:
        return
    d = ka + len(brows)
    U_a = np.eye(d)[:ka]
    B = np.zeros((len(brows), d))
    for j, b in enumerate(brows):
        B[j, ka + j] = float(b)
    nm1 = f * na + len(brows) - 1
    s2 = sorted([f * f * (na - 1) * l for l in la] + [b * b for b in brows], reverse=True)
    lex = [x / nm1 for x in s2]
    eff = DEFAULT_EPS if eps is None else eps
    if any(abs(float(x) - float(eff)) <= 1e-6 * float(eff) for x in lex):
        return          # too close to the threshold for float arithmetic to decide as the reals do
    rp = {"model": "ipca-keep", "n_a": na, "l_a": [str(x) for x in la], "rows": [str(b) for b in brows], "f": str(f),
          "eps": str(eps)}
    ctx.case(("keep", ka, tuple(la), na, tuple(brows), f, eps), nontrivial=True)
    ctx.count("keep:%s" % tag)
    kw = {} if eps is None else {"eps": float(eps)}
    try:
        U, l, m = ipca(B, U_a, np.array([float(x) for x in la]), na, m_a=None, f=float(f), **kw)
    except Exception as e:
        ctx.mismatch("ipca.keep", "ipca raised %s: %s" % (type(e).__name__, str(e)[:120]), rp)
        return
    inc = dict(l=np.array(l, dtype=float))
    # rows returned must be the axes of the kept eigenvalues (up to sign), in the same order
    q = lambda x: "%d/%d" % (F(x).numerator, F(x).denominator)
    # threshold as coded: max(eps, max(R.shape) * precision * max l); R is (ka + n_b) x (ka + q) with q = n_b here, the
    # operands are double precision
    run.ask("keep %s %s %d %s %d %s" % (q(eff), q(nm1), d, q(F(1, 2 ** 52)), len(s2), " ".join(q(x) for x in s2)),
            "keep", inc, rp)
    if U.shape[0] == len(l) and len(l) <= d:
        G = U.dot(U.T)
        if not arr_close(G, np.eye(len(l)), 1e-8):
            ctx.mismatch("ipca.keep", "kept rows are not orthonormal", rp)


DEFAULT_EPS = F(1, 10 ** 10)


def gmrf_case(run, X, split, cfg, tag):
    ctx = run.ctx
    kind, edges, nv, k, mode, sparse, bias, backing = cfg[:8]
    variant = cfg[8] if len(cfg) > 8 else "plain"
    chunks = cut(X, split)
    rp = {"model": "GMRF", "graph": kind, "edges": edges, "n_vertices": nv, "n_features_per_vertex": k, "mode": mode,
          "sparse": sparse, "bias": bias, "backing": backing, "variant": variant, "split": list(split), "data": X.tolist()}
    ctx.case(("gmrf", X.tobytes(), split, repr(cfg)), nontrivial=len(split) >= 2,
             sample={kk: rp[kk] for kk in ("model", "graph", "edges", "n_features_per_vertex", "mode", "sparse", "bias",
                                           "backing", "split")})
    ctx.count("gmrf:%s:%s:%s:bias%d" % (kind, mode if edges else "-", "sparse" if sparse else "dense", bias))
    ctx.count("gmrf:%s" % tag)
    ctx.count("gmrf:backing:%s" % backing)
    ctx.count("gmrf:input:%s" % variant)
    ctx.count("increments:%d" % (len(split) - 1))
    inc, bat = gmrf_oracle(ctx, chunks, cfg, rp)
    spec = "%d %s %d %d %d %s" % (bias, "c" if mode == "concatenation" else "s", nv, k, len(edges),
                                  " ".join("%d %d" % (a, b) for a, b in edges))
    dts = variant_dtypes(variant)
    ex = dict(sparse=sparse, bat=bat, tol=case_tol(dts), tol8=case_tol(dts, 1e-8))
    if backing == "vector":
        run.ask("gmrf %s %s" % (spec, wire_chunks(chunks)), "gmrf", inc, rp, **ex)
    else:
        run.ask("gmrfo %s %s" % (spec, wire_clouds(chunks, k)), "gmrf", inc, rp, **ex)


def pca_dataset(rng, n, d, centred, split_for_guard=None):
    """dyadic data whose every prefix (from 2 rows on) has a clean spectrum"""
    for _ in range(200):
        X = dyadic_matrix(rng, n, d)
        if pca_data_ok(X, tuple([2] + [1] * (n - 2)), centred):
            return X
    raise common.Infra("generator: no well-conditioned PCA data set found")


ZERO_MEAN_X = [[1.0, 2.0], [-1.0, -2.0], [2.0, -1.0], [-2.0, 1.0], [3.0, 1.0], [5.0, 2.0], [1.0, 7.0]]
ZERO_MEAN_Y = [[1.0, 2.0, 0.5], [3.0, -1.0, 1.5], [-4.0, -1.0, -2.0], [2.0, 2.0, 1.0], [0.0, 3.0, 4.0], [1.0, 1.0, -2.0]]
RANK_DEF_Z = [[1.0, 0.0, 2.0], [3.0, 1.0, 0.0], [1.0, 0.0, 2.0], [2.0, 0.5, 1.0], [0.0, 4.0, 1.0], [0.0, 4.0, 1.0],
              [5.0, 2.0, 2.0]]


def W8():
    import numpy as np
    return np.array([[1.0, 0.0, 0.5, 2.0], [0.0, 1.0, 0.0, 1.0], [2.0, -1.0, 0.0, 3.0], [1.0, 1.5, 0.0, 3.0],
                     [0.0, 0.0, 1.0, 0.5], [1.0, 0.25, 0.0, 2.0], [3.0, 2.0, 1.0, 0.0], [0.5, 0.25, 2.0, 1.0]])


def directed_pca(run):
    """fixed cases that are part of the quantifier and that random data never hit"""
    import numpy as np
    # a centred model whose mean is exactly zero (DESIGN section 7 item 9), 2-D and 3-D, one and two increments
    X = np.array(ZERO_MEAN_X)
    pca_case(run, X, (4, 3), True, "vector", "zero-mean-initial-batch")
    pca_case(run, X, (4, 1, 2), True, "vector", "zero-mean-initial-batch")
    pca_case(run, X, (4, 3), True, "pointcloud", "zero-mean-initial-batch")
    # the running mean becomes exactly zero after the first increment
    Y = np.array(ZERO_MEAN_Y)
    pca_case(run, Y, (2, 1, 3), True, "vector", "zero-mean-after-increment")
    # the same data, uncentred: the zero test is the documented convention there
    pca_case(run, X, (4, 3), False, "vector", "zero-mean-uncentred")
    # a model whose number of active components was lowered before the increments
    for split in ((3, 2, 3), (4, 4), (2, 1, 1, 4)):
        for centred in (True, False):
            pca_case(run, W8(), split, centred, "vector-trimmed", "active-components-lowered-before-increment")
    # duplicates / rank-deficient increments, single-row increments, an increment equal to the running mean
    Z = np.array(RANK_DEF_Z)
    for split in ((2, 2, 3), (3, 1, 1, 1, 1), (2, 5), (6, 1)):
        for centred in (True, False):
            pca_case(run, Z, split, centred, "vector", "rank-deficient-increments")
    # more new rows than unexplored dimensions, leading rows already inside the current eigenspace: [U_a; B~] cannot
    # have orthonormal rows (the case the full-rank QR contract excludes; theorem ipca_rows_orthonormal covers it)
    W = np.array([[1.0, 0.0, 0.0, 2.0], [0.0, 1.0, 0.0, 1.0], [2.0, -1.0, 0.0, 3.0], [1.0, 1.0, 0.0, 3.0],
                  [0.0, 0.0, 1.0, 0.5], [1.0, 0.0, 0.0, 2.0], [3.0, 2.0, 1.0, 0.0], [0.5, 0.25, 2.0, 1.0]])
    for split in ((2, 6), (3, 5), (2, 2, 4), (4, 4)):
        for centred in (True, False):
            pca_case(run, W, split, centred, "vector", "residual-rank-deficient-over-full")
            ipca_case(run, W, split, centred, True if centred else None, "residual-rank-deficient-over-full")
    # menpo.math.ipca itself: centre inferred from the mean (None) on zero-mean histories, and given explicitly
    ipca_case(run, X, (4, 3), True, None, "zero-mean-initial-batch")
    ipca_case(run, X, (4, 3), True, True, "zero-mean-initial-batch")
    ipca_case(run, Y, (2, 1, 3), True, None, "zero-mean-after-increment")
    ipca_case(run, Y, (2, 1, 3), True, True, "zero-mean-after-increment")
    ipca_case(run, X, (4, 3), False, None, "zero-mean-uncentred")
    ipca_case(run, X, (4, 3), False, False, "zero-mean-uncentred")


def directed_keep(run):
    """the eps discard with its threshold, default and explicit, with and without forgetting"""
    h = F(1, 2)
    keep_case(run, 2, [F(3), F(1, 2)], 5, [F(2), F(1, 4)], F(1), None, "default-eps")
    keep_case(run, 2, [F(3), F(1, 2)], 5, [F(2), F(1, 1024)], F(1), F(1, 100), "explicit-eps-drops-new-row")
    keep_case(run, 2, [F(3), F(1, 64)], 5, [F(2), F(1, 4)], F(1), F(1, 10), "explicit-eps-drops-old-component")
    keep_case(run, 3, [F(4), F(1), F(1, 256)], 9, [F(3)], F(1), F(1, 8), "explicit-eps")
    keep_case(run, 2, [F(3), F(1, 2)], 5, [F(2), F(1, 4)], h, F(1, 8), "forgetting-and-eps")
    keep_case(run, 1, [F(2)], 3, [F(1, 1024), F(1)], F(1), None, "default-eps-tiny-row-kept")
    keep_case(run, 1, [F(2)], 3, [F(1, 1024), F(1)], F(1), F(1, 10 ** 6), "explicit-eps-tiny-row-dropped")
    keep_case(run, 1, [F(2)], 3, [F(1, 1048576), F(1)], F(1), None, "default-eps-tiny-row-dropped")
    keep_case(run, 2, [F(3), F(1, 2)], 5, [F(0), F(1, 4)], F(1), None, "zero-row")


def explore_pca(run, scale):
    rng = run.ctx.rng
    # every composition of n for small n, on both sides of n = d
    for n, d in ((5, 2), (5, 7), (6, 3), (6, 6), (7, 4), (7, 9)) + (((8, 3), (8, 10)) if scale > 1 else ()):
        for centred in (True, False):
            for rep in range(1 if scale == 1 else 2):
                X = pca_dataset(rng, n, d, centred)
                backing = rng.choice(["pointcloud", "pointcloud-iter"]) if d % 2 == 0 and rng.random() < 0.5 else "vector"
                for split in compositions(n, 2):
                    pca_case(run, X, split, centred, backing, "every-composition-n%d" % n)
                if n <= 6:
                    # the public function on its own, every composition
                    for split in compositions(n, 2):
                        ipca_case(run, X, split, centred, rng.choice([None, centred]), "every-composition-n%d" % n)
    if scale > 1:
        X = pca_dataset(rng, 9, 4, True)
        for split in compositions(9, 2):
            pca_case(run, X, split, True, "vector", "every-composition-n9")
    # larger n: random compositions
    for _ in range(60 * scale):
        n, d = rng.randint(8, 14), rng.randint(2, 12)
        centred = rng.random() < 0.6
        X = pca_dataset(rng, n, d, centred)
        backing = "pointcloud" if d % 2 == 0 and rng.random() < 0.3 else rng.choice(["vector", "vector", "vector-trimmed"])
        for _ in range(2):
            pca_case(run, X, random_composition(rng, n, 2), centred, backing, "random-composition")
        ipca_case(run, X, random_composition(rng, n, 2), centred, rng.choice([None, centred]), "random-composition")
    # forgetting factors (as coded; correspondence only)
    for _ in range(30 * scale):
        n, d = rng.randint(5, 9), rng.randint(2, 6)
        centred = rng.random() < 0.6
        X = pca_dataset(rng, n, d, centred)
        split = random_composition(rng, n, 2)
        while len(split) > 4:
            split = random_composition(rng, n, 2)
        factors = [rng.choice([F(1, 2), F(3, 4), F(7, 8), F(1), F(1, 4)]) for _ in split[1:]]
        backing = "pointcloud" if d % 2 == 0 and rng.random() < 0.3 else "vector"
        forget_case(run, X, split, centred, backing, factors, "random-factors")


def typed_dataset(rng, n, d, centred, single):
    """values every storage dtype of the case holds exactly: small integers; when single precision takes part, small
    magnitudes and a well separated spectrum, so that float32 rounding (relative 6e-8 per operation, squared singular
    values of rounding noise included) stays orders of magnitude inside TOL32 and below ipca's absolute eps"""
    import numpy as np
    for _ in range(400):
        kmax = 2 if single else 12
        X = np.array([[float(rng.randint(-kmax, kmax)) for _ in range(d)] for _ in range(n)], dtype=float)
        if pca_data_ok(X, tuple([2] + [1] * (n - 2)), centred, 0.05 if single else 1e-3):
            return X
    raise common.Infra("generator: no well-conditioned integer PCA data set found")


def explore_pca_dtypes(run, scale):
    """storage dtypes (DESIGN 14.4 'storage dtypes'): initial batch and increments held as float64 / int64 / int32 /
    float32 arrays or as a list of int arrays, every ordered pair in every run, centred and uncentred, vector and
    PointCloud backed, through the model classes and through menpo.math.ipca itself"""
    rng = run.ctx.rng
    for centred in (True, False):
        for dt0 in DTYPES[:4]:
            for dt1 in DTYPES:
                single = "float32" in (dt0, dt1)
                for rep in range(scale):
                    n, d = rng.randint(5, 9), rng.randint(2, 5 if single else 7)
                    X = typed_dataset(rng, n, d, centred, single)
                    split = random_composition(rng, n, 2)
                    while len(split) > 4:
                        split = random_composition(rng, n, 2)
                    if rep % 3 == 2 and not single:
                        # every increment with a dtype of its own
                        dts = [dt0] + [rng.choice(["float64", "int64", "int32", "list-int"]) for _ in split[1:]]
                    else:
                        dts = [dt0] + [dt1] * (len(split) - 1)
                    pca_case(run, X, split, centred, "vector", "storage-dtypes", dts)
                    if rep == 0:
                        pca_case(run, X, (2, n - 2), centred, "vector", "storage-dtypes", [dt0, dt1])
                    if dt1 != "list-int":
                        if d % 2 == 0:
                            pca_case(run, X, split, centred, "pointcloud", "storage-dtypes", dts)
                        if rep == 0:
                            ipca_case(run, X, split, centred, rng.choice([None, centred]), "storage-dtypes",
                                      [dt0] + [dt1] * (len(split) - 1))


GMRF_DTYPE_PAIRS = [("float64", "int64"), ("int64", "int64"), ("int64", "float64"), ("int32", "int64"),
                    ("float64", "float32"), ("float32", "float32"), ("float32", "int64"), ("float64", "list-int")]


def explore_gmrf_dtypes(run, scale):
    """GMRF increments whose samples are stored as integers / single precision / a list of int arrays, vector and
    PointCloud backed, both storages: every dtype pair in every run on a rotating choice of graph configurations"""
    rng = run.ctx.rng
    cfgs = gmrf_configs()
    rng.shuffle(cfgs)
    i = 0
    for rnd in range(scale):
        for dt0, dt1 in GMRF_DTYPE_PAIRS:
            for backing in ("vector", "pointcloud"):
                if backing == "pointcloud" and dt1 == "list-int":
                    continue
                kind, mode, sparse, bias = cfgs[i % len(cfgs)]
                i += 1
                nv = rng.randint(3, 4)
                k = rng.choice([2, 3]) if backing == "pointcloud" else rng.choice([1, 2, 3])
                edges = [[int(a), int(b)] for a, b in build_graph(kind, make_graph(rng, kind, nv), nv).edges.tolist()]
                p = k if (not edges or mode == "subtraction") else 2 * k
                single = "float32" in (dt0, dt1)
                # single precision: more samples in the initial batch and a tight bound on the conditioning of every
                # block, so that float32 rounding (6e-8 relative, amplified by the block inverses) stays far inside TOL32
                n0 = p + (5 if single else 2)
                n = n0 + rng.randint(2, 4)
                X = gmrf_dataset(rng, n, n0, nv, k, edges, mode, bias, True, 4 if single else 12, 40.0 if single else None)
                cfg = (kind, edges, nv, k, mode, sparse, bias, backing, "%s>%s" % (dt0, dt1))
                gmrf_case(run, X, random_composition(rng, n, n0), cfg, "storage-dtypes")
                gmrf_case(run, X, (n0, n - n0), cfg, "storage-dtypes")


def gmrf_configs():
    out = []
    for kind in ("edgeless", "chain", "cycle", "tree", "Tree", "twoway-chain", "twoway-cycle", "chain-isolated"):
        for mode in (("concatenation",) if kind == "edgeless" else ("concatenation", "subtraction")):
            for sparse in (True, False):
                for bias in (0, 1):
                    out.append((kind, mode, sparse, bias))
    return out


def gmrf_dataset(rng, n, n0, nv, k, edges, mode, bias, integer, kmax=12, cond=None):
    import numpy as np
    for _ in range(3000 if cond else 300):
        if integer:
            X = np.array([[float(rng.randint(-kmax, kmax)) for _ in range(nv * k)] for _ in range(n)])
        else:
            X = dyadic_matrix(rng, n, nv * k, 16, 2)
        if gmrf_data_ok(X, tuple([n0] + [1] * (n - n0)), edges, mode, k, nv, bias, cond):
            return X
    raise common.Infra("generator: no well-conditioned GMRF data set found")


def explore_gmrf(run, scale):
    import numpy as np
    rng = run.ctx.rng
    for rnd in range(scale):
        for kind, mode, sparse, bias in gmrf_configs():
            nv = rng.randint(3, 5)
            k = rng.choice([1, 2, 3])
            if nv * k > 12:
                nv = 3
            # the edge list in the order (and orientation) the graph object reports it: this is what the code iterates
            edges = [[int(a), int(b)] for a, b in build_graph(kind, make_graph(rng, kind, nv), nv).edges.tolist()]
            p = k if (not edges or mode == "subtraction") else 2 * k
            n0 = p + 2
            backing = "pointcloud" if k >= 2 and rng.random() < 0.4 else "vector"
            if backing == "vector":
                variant = rng.choice(["plain", "plain", "int", "list"])
            else:
                variant = rng.choice(["plain", "iter"])
            cfg = (kind, edges, nv, k, mode, sparse, bias, backing, variant)
            extra = 3 if (rnd % 2 == 0) else 4
            n = n0 + extra
            X = gmrf_dataset(rng, n, n0, nv, k, edges, mode, bias, variant == "int")
            splits = compositions(n, n0)
            if scale == 1 and len(splits) > 7:
                splits = rng.sample(splits, 7)
            for split in splits:
                gmrf_case(run, X, split, cfg, "every-composition" if scale > 1 else "sampled-compositions")
            # a longer random history
            n2 = n0 + rng.randint(5, 9)
            X2 = gmrf_dataset(rng, n2, n0, nv, k, edges, mode, bias, variant == "int")
            gmrf_case(run, X2, random_composition(rng, n2, n0), cfg, "random-composition")


def case_from_replay(run, rp, tag):
    import numpy as np
    if rp.get("model") == "ipca-keep":
        eps = None if rp["eps"] in (None, "None") else F(rp["eps"])
        keep_case(run, len(rp["l_a"]), [F(x) for x in rp["l_a"]], int(rp["n_a"]), [F(x) for x in rp["rows"]], F(rp["f"]),
                  eps, tag)
        return
    X = np.array(rp["data"], dtype=float)
    split = tuple(rp["split"])
    if rp.get("model") == "PCA":
        pca_case(run, X, split, bool(rp["centred"]), rp.get("backing", "vector"), tag, rp.get("dtypes"))
    elif rp.get("model") == "ipca":
        ipca_case(run, X, split, bool(rp["centred"]), rp.get("centre_arg"), tag, rp.get("dtypes"))
    elif rp.get("model") == "PCA-forget":
        forget_case(run, X, split, bool(rp["centred"]), rp.get("backing", "vector"), [F(f) for f in rp["factors"]], tag)
    else:
        cfg = (rp["graph"], [list(e) for e in rp["edges"]], rp["n_vertices"], rp["n_features_per_vertex"], rp["mode"],
               bool(rp["sparse"]), int(rp["bias"]), rp.get("backing", "vector"), rp.get("variant", "plain"))
        gmrf_case(run, X, split, cfg, tag)


def corpus(run):
    """minimised past failures (replays/corpus/C11-*.json) are re-run first on every check"""
    import glob
    import os
    for path in sorted(glob.glob(os.path.join(common.ROOT, "replays", "corpus", "C11-*.json"))):
        case_from_replay(run, json.load(open(path))["replay"], "corpus-replay")


def directed_mixed_dtype(run):
    """object-level models whose first sample is an integer-typed PointCloud followed by float samples.  as_matrix
    allocates the data matrix with the dtype of the first sample and silently truncates the later ones, differently
    for the batch model (everything truncated) and the incremental one (only chunks whose first sample is
    integer-typed): found by this check, repaired in /repo 8a6024e (as_matrix widens the matrix).  The cases run on
    every check: should the truncation come back it is a violation."""
    import numpy as np
    ctx = run.ctx
    rng = common.random.Random(1100 + ctx.seed)
    for kind, mode, sparse in (("chain", "concatenation", True), ("cycle", "subtraction", False), ("edgeless", "concatenation", True)):
        nv, k = 3, 2
        edges = [[int(a), int(b)] for a, b in build_graph(kind, make_graph(rng, kind, nv), nv).edges.tolist()]
        p = k if (not edges or mode == "subtraction") else 2 * k
        n0 = p + 2
        for _ in range(300):
            X = dyadic_matrix(rng, n0 + 3, nv * k, 16, 2)
            X[0] = np.round(X[0])
            if gmrf_data_ok(X, tuple([n0] + [1] * 3), edges, mode, k, nv, 0):
                break
        else:
            raise common.Infra("generator: no well-conditioned GMRF data set found")
        cfg = (kind, edges, nv, k, mode, sparse, 0, "pointcloud", "int-template")
        for split in ((n0, 3), (n0 + 1, 1, 1)):
            gmrf_case(run, X, split, cfg, "integer-typed-first-sample")
    # the same for PCAModel: an initial batch of integer-typed point clouds, then float samples with fractional parts
    # (batch model: the template of as_matrix is integer-typed and everything after it is float)
    for centred in (True, False):
        for _ in range(300):
            X = dyadic_matrix(rng, 7, 4, 16, 2)
            X[:3] = np.round(X[:3])
            if pca_data_ok(X, (2, 1, 1, 1, 1, 1), centred):
                break
        else:
            raise common.Infra("generator: no well-conditioned PCA data set found")
        for split in ((3, 4), (3, 2, 2)):
            pca_case(run, X, split, centred, "pointcloud", "integer-typed-first-batch",
                     ["int64"] + ["float64"] * (len(split) - 1))


def as_matrix_narrows():
    """does menpo.math.as_matrix narrow WITHIN a kind (numpy's same_kind casting admits int64 -> int32 and
    float64 -> float32)?  Returns a description of the loss, or None."""
    import numpy as np
    from menpo.math import as_matrix
    from menpo.shape import PointCloud
    try:
        a = as_matrix([PointCloud(np.array([[1, 2]], dtype=np.int32)), PointCloud(np.array([[2 ** 40, 3]], dtype=np.int64))])
        b = as_matrix([PointCloud(np.array([[1, 2]], dtype=np.float32)), PointCloud(np.array([[16777217.0, 3]], dtype=np.float64))])
    except Exception:      # noqa: BLE001
        return None
    if int(a[1, 0]) != 2 ** 40:
        return "an int32 template followed by the int64 value 2**40 stores %d (dtype %s)" % (int(a[1, 0]), a.dtype)
    if float(b[1, 0]) != 16777217.0:
        return "a float32 template followed by the float64 value 16777217.0 stores %r (dtype %s)" % (float(b[1, 0]), b.dtype)
    return None


def directed_narrowing(run):
    """object-level models whose FIRST sample has a narrower dtype of the same kind than later ones that need the wider
    type (int32 then int64 values beyond 2**31, float32 then float64 values with more than 24 significant bits).
    as_matrix allocates in the template's dtype and numpy's `same_kind` casting lets the later samples wrap / round:
    the batch model (one template for everything) then differs from the incremental one (a template per chunk).
    Found by this check (notes/fixes/C11-as-matrix-narrowing-within-kind.diff, applied to /repo): the cases run on every
    check, a regression is a violation."""
    import numpy as np
    ctx = run.ctx
    w = as_matrix_narrows()
    if w is not None:
        # repaired in /repo (casting="safe"); should it come back the cases below report it with their own replays, the
        # probe only adds the smallest witness to the evidence
        ctx.notes["as_matrix_narrowing"] = "menpo.math.as_matrix narrows within a kind: " + w
    rng = common.random.Random(1300 + ctx.seed)
    for centred in (True, False):
        # int32 template, then int64 values outside the int32 range: every value is a small integer times 2**28 (a pure
        # scaling, so the conditioning is that of the small integers and float64 arithmetic on them is exact); the
        # initial batch stays below 2**31, the later samples reach +-12 * 2**28.  Wrapped around by a narrowing
        # as_matrix in the batch model only: eigenvalues off by orders of magnitude.
        for _ in range(300):
            K = np.array([[float(rng.randint(-6, 6)) for _ in range(4)] for _ in range(7)], dtype=float)
            K[3:] = np.array([[float(rng.choice([-12, -10, -9, 9, 10, 12, rng.randint(-7, 7)])) for _ in range(4)]
                              for _ in range(4)])
            if np.abs(K[3:]).max() >= 9 and pca_data_ok(K, (3, 1, 1, 1, 1), centred):
                break
        else:
            raise common.Infra("generator: no well-conditioned narrow-template data set found")
        pca_case(run, K * float(2 ** 28), (3, 4), centred, "pointcloud", "narrow-template-then-wide-samples", ["int32", "int64"])
        pca_case(run, K * float(2 ** 28), (3, 2, 2), centred, "pointcloud", "narrow-template-then-wide-samples",
                 ["int32", "int64", "int64"])
        # float32 template, then float64 samples with more than 24 significant bits: the loss (6e-8 relative) is inside
        # the tolerance granted to single precision participants, so these cases only exercise the path
        for _ in range(300):
            X = np.array([[float(rng.randint(-6, 6)) for _ in range(4)] for _ in range(7)], dtype=float)
            X[3:] = X[3:] + 1.0 / 2 ** 30
            if pca_data_ok(X, (3, 1, 1, 1, 1), centred, 0.05):
                break
        else:
            continue
        pca_case(run, X, (3, 4), centred, "pointcloud", "narrow-template-then-wide-samples", ["float32", "float64"])


def ipca_single_precision_noise():
    """does an increment on single precision data of pixel magnitude keep a rounding-noise eigenpair?  `ipca` discards
    with the absolute `l > eps` (1e-10); the exactly-zero singular value of R comes out of a float32 computation as
    ~1e-6 * largest, i.e. an eigenvalue far above eps (the batch routine was repaired for the same reason,
    /repo 62dd167).  Returns a description of the first witness, or None."""
    import numpy as np
    from menpo.model import PCAVectorModel
    rs = np.random.RandomState(3)
    for _ in range(60):
        n, d = rs.randint(5, 10), rs.randint(2, 9)
        X = rs.randint(-255, 256, size=(n, d)).astype(np.float64)
        for centred in (True, False):
            try:
                m = PCAVectorModel(X[:3].astype(np.float32), centre=centred)
                m.increment(X[3:].astype(np.float32))
                b = PCAVectorModel(X.copy(), centre=centred)
            except Exception:      # noqa: BLE001 - the typed cases report it
                return None
            if m.n_components > b.n_components:
                return ("%d float32 samples of dimension %d (integers in [-255, 255], centre=%r, initial batch of 3 + one "
                        "increment): %d components, smallest eigenvalue %.3g, the batch model has %d" % (
                            n, d, centred, m.n_components, float(m.eigenvalues[-1]), b.n_components))
    return None


def directed_single_precision(run):
    """single precision data of pixel magnitude (the magnitude the typed cases of every run avoid on purpose).  Before
    /repo db6ef6e (notes/fixes/C11-ipca-single-precision-noise.diff, found by this check) `ipca` kept rounding-noise
    eigenpairs there (more components than the batch model, even more than dimensions)."""
    ctx = run.ctx
    w = ipca_single_precision_noise()
    if w is not None:
        # repaired in /repo db6ef6e; should it come back the cases below report it with their own replays, the probe
        # only adds the smallest witness to the evidence
        ctx.notes["ipca_single_precision_noise"] = "menpo.math.ipca keeps rounding-noise eigenpairs of single precision data: " + w
    import numpy as np
    rng = common.random.Random(1200 + ctx.seed)
    for centred in (True, False):
        for rep in range(4):
            n, d = rng.randint(5, 9), rng.randint(2, 6)
            for _ in range(400):
                X = np.array([[float(rng.randint(-255, 255)) for _ in range(d)] for _ in range(n)], dtype=float)
                if pca_data_ok(X, tuple([2] + [1] * (n - 2)), centred, 0.05):
                    break
            else:
                raise common.Infra("generator: no well-conditioned pixel-magnitude data set found")
            split = random_composition(rng, n, 2)
            pca_case(run, X, split, centred, "vector", "single-precision-pixel-magnitude",
                     [rng.choice(["float32", "float64"])] + ["float32"] * (len(split) - 1))


def explore(run, scale):
    corpus(run)
    directed_pca(run)
    directed_keep(run)
    directed_mixed_dtype(run)
    directed_single_precision(run)
    directed_narrowing(run)
    explore_pca_dtypes(run, scale)
    explore_gmrf_dtypes(run, scale)
    explore_pca(run, scale)
    explore_gmrf(run, scale)


def search(ctx):
    """directed search after a broken tie: oracle only, the directed cases and a larger exploration"""
    r = Run(ctx, with_model=False)
    before = ctx.evaluations
    explore(r, 3)
    ctx.searched += ctx.evaluations - before
    return bool(ctx.failures)


def run(ctx):
    gen_ok = generated(ctx)
    src_ok = generated_src(ctx)
    # a regenerated obligation that no longer checks: audit what still builds, then let the oracle search
    imports = IMPORTS + ([GEN_IMPORT] if gen_ok else []) + ([SRC_IMPORT] if src_ok else [])
    theorems = THEOREMS + (GEN_THEOREMS if gen_ok else []) + (SRC_THEOREMS if src_ok else [])
    common.prepare_lean(ctx, PROP, imports, theorems,
                        targets=["MenpoModel.Props.C11", "MenpoModel.Props.C11Src", "MenpoModel.Props.C11SrcPca",
                                 "MenpoModel.Drive.C11"] + imports[3:])
    ctx.trusted += ["contract parameters: np.linalg.qr/svd/inv, np.sqrt, np.cov, np.mean (certificate-checked per case); "
                    "scipy.sparse.bsr_matrix sums duplicate blocks (checked by the correspondence on two-way graphs)",
                    "table extraction: inspect.signature / ast of PCAVectorModel.increment / wrapped GMRF routines",
                    "the source-to-Lean translator harness/py2lean2.py + harness/py2lean2numpy.py and the C11 vocabulary "
                    "harness/trans_c11.py (which numpy expression stands for which operation of Core/C11Src.lean `NP`; "
                    "arrays are exact rationals with shapes, dtypes are dropped except for `lib.precision`)"]
    r = Run(ctx)
    explore(r, ctx.n(1, 12))
    r.settle()
    return ctx.finish(search)


def replay(ctx, path):
    """re-execute the recorded case against the current tree and the model, then report"""
    data = json.load(open(path))
    rp = data.get("replay") or (data.get("broken_correspondence") or [{}])[0].get("case") or {}
    print(json.dumps({k: v for k, v in data.items() if k != "replay"}, indent=1)[:1500])
    if not (rp.get("data") or rp.get("model") == "ipca-keep"):
        print("no recorded case in this replay file; re-running the quick exploration with seed %r" % data.get("seed"))
        return run(common.Ctx(PROP, "quick", int(data.get("seed", 0))))
    common.prepare_lean(ctx, PROP, IMPORTS, THEOREMS)
    r = Run(ctx)
    case_from_replay(r, rp, "replay")
    r.settle()
    print("replayed case: %s split=%s -> %d oracle failure(s), %d model mismatch(es)" % (
        rp.get("model"), list(rp.get("split", [])), len(ctx.failures), len(ctx.mismatches)))
    return ctx.finish(None)
