"""C11 — incremental model updates equal the batch model on the concatenated data (DESIGN.md section 6, C11).

Parties: the real `PCAVectorModel` / `PCAModel` (`increment` -> `menpo.math.ipca`) and `GMRFVectorModel` /
`GMRFModel` (`increment` -> `_increment_*_precision`, `_increment_multivariate_gaussian_mean/_cov`);
the oracle (model state after the increments against the batch model built by the same class from the
stacked data, and against the exact covariance of the stacked data computed with Fractions); the Lean
model (exact running statistics in Q folded over the same chunks; exact block inverses; dense precision).
"""
import json
from fractions import Fraction as F

from . import common
from .common import fq, close

PROP = "C11"
INFO = dict(
    technique="Lean 4 proof (the transcribed mean / covariance update formulas and ipca's mean, centring and "
              "mean-shift pseudo-sample reproduce the statistics of the concatenated data by induction over any list "
              "of increments; ipca's R-matrix construction under QR/SVD contracts over Mathlib matrices) + "
              "model/implementation correspondence on every composition of small sample sequences",
    level_text="Theorems over an executable rational model: `_increment_multivariate_gaussian_mean/_cov` give mean and "
               "np.cov (bias 0 and 1) of the concatenated data; an incremental GMRF after any list of increments holds "
               "the count, mean and every per-edge / per-vertex covariance of the batch model, for every graph, both "
               "edge modes and the edgeless case, hence the same precision for any block-inverse routine, "
               "independently of the chunking; the (n, mean, scatter) statistics ipca maintains equal those of batch "
               "PCA after any list of increments, centred and uncentred; under the sqrt/QR/SVD contracts the pair "
               "(U, l) returned by one ipca step represents the scatter of the concatenated data, has orthonormal rows "
               "(full-rank QR), is therefore an eigen-decomposition, and two such decompositions span the same "
               "principal subspace.  The zero-mean branch test coded in ipca is refuted by a kernel-checked witness "
               "and proved harmless exactly when no running mean is all-zero.  Tied to /repo by running every "
               "composition of small sample sequences (and random ones for larger n) through the real classes, "
               "diffing count / mean / covariance / precision against the Lean driver; an independent oracle "
               "(incremental vs batch model of the same class, and vs the exact covariance) decides the property.",
    level_note="Trusted: Lean kernel; axioms propext/Classical.choice/Quot.sound; Python harness; driver parser.  "
               "Contract parameters (not verified; checked numerically on every case through the certificate "
               "U U^T = 1, U^T diag(l) U = exact covariance): np.linalg.qr, np.linalg.svd, np.sqrt, np.linalg.inv, "
               "np.cov, np.mean.  Float rounding is absorbed by a 1e-9 relative tolerance on inputs whose "
               "conditioning is bounded by the generator.",
    rule="a case = one data set + one way of cutting it into an initial batch and >= 1 increments + one model "
         "configuration (PCA: centred/uncentred, vector or PointCloud backed; GMRF: graph, mode, storage, bias, "
         "vector or PointCloud backed); distinct = distinct (data, split, configuration); non-trivial = at least one "
         "increment and data of rank >= 2",
    partial=["orthonormality of the rows returned by ipca is proved under the full-rank QR contract (B~ U_a^T = 0); "
             "for a rank-deficient residual the scatter identity is still a theorem, orthonormality is decided by "
             "the certificate check on every case",
             "discarding eigenvalues <= eps is modelled as discarding exactly-zero eigenvalues "
             "(representation_drop_zero); the generator keeps non-zero eigenvalues far above eps",
             "forgetting factors other than 1 are outside the property and not modelled",
             "sparse (BSR) storage is compared against the dense meaning of the model; duplicate-summing of BSR "
             "triplets is C12's theorem, the generator uses simple graphs"],
    assumptions=["numpy/LAPACK qr, svd, inv, eigh accurate to 1e-12 relative on matrices with condition number <= 1e6"],
    design_ref="DESIGN.md section 6, C11; section 7 item 9")
IMPORTS = ["MenpoModel.Props.C11"]
THEOREMS = [
    "MenpoModel.C11.mean_update_exact",
    "MenpoModel.C11.cov_update_exact",
    "MenpoModel.C11.gmrf_increment_refines_stats",
    "MenpoModel.C11.gmrf_chunking_independent",
    "MenpoModel.C11.gmrf_precision_eq_batch",
    "MenpoModel.C11.gmrf_block_cov",
    "MenpoModel.C11.scatter_union_identity",
    "MenpoModel.C11.ipca_mean_exact",
    "MenpoModel.C11.ipca_spec_refines_batch",
    "MenpoModel.C11.pca_chunking_independent",
    "MenpoModel.C11.ipca_count_mean",
    "MenpoModel.C11.ipca_coded_uncentred",
    "MenpoModel.C11.ipca_coded_centred",
    "MenpoModel.C11.ipca_coded_refuted",
    "MenpoModel.C11.pseudo_sample_gram",
    "MenpoModel.C11.qr_contract",
    "MenpoModel.C11.svd_contract",
    "MenpoModel.C11.ipca_scatter_exact",
    "MenpoModel.C11.ipca_components_orthonormal",
    "MenpoModel.C11.eigen_of_representation",
    "MenpoModel.C11.representation_drop_zero",
    "MenpoModel.C11.ipca_covariance_exact",
    "MenpoModel.C11.principal_subspace_unique",
    "MenpoModel.C11.ipca_step_represents",
]
TOL = 1e-9
SITE_PCA = "C11/PCA.increment"
SITE_GMRF = "C11/GMRF.increment"


# ------------------------------------------------------------------------------- generators

def compositions(n, first_min, min_parts=2):
    """every way of writing n = c0 + c1 + ... + ck with c0 >= first_min, ci >= 1, at least `min_parts` parts"""
    out = []

    def rec(rest, acc):
        if rest == 0:
            if len(acc) >= min_parts:
                out.append(tuple(acc))
            return
        for c in range(1, rest + 1):
            rec(rest - c, acc + [c])

    for c0 in range(first_min, n + 1):
        rec(n - c0, [c0])
    return out


def random_composition(rng, n, first_min):
    c0 = rng.randint(first_min, n - 1)
    parts, rest = [c0], n - c0
    while rest > 0:
        c = rng.randint(1, rest)
        parts.append(c)
        rest -= c
    return tuple(parts)


def cut(X, split):
    out, lo = [], 0
    for c in split:
        out.append(X[lo:lo + c])
        lo += c
    return out


def dyadic_matrix(rng, n, d, kmax=24, mexp=2):
    import numpy as np
    return np.array([[common.dyadic(rng, kmax, mexp) for _ in range(d)] for _ in range(n)], dtype=float)


def exact_rank(rows):
    """rank of a list of Fraction rows (Gaussian elimination)"""
    rows = [list(r) for r in rows]
    rank, ncol = 0, len(rows[0]) if rows else 0
    for c in range(ncol):
        piv = next((r for r in range(rank, len(rows)) if rows[r][c] != 0), None)
        if piv is None:
            continue
        rows[rank], rows[piv] = rows[piv], rows[rank]
        pv = rows[rank][c]
        for r in range(rank + 1, len(rows)):
            f = rows[r][c] / pv
            if f != 0:
                rows[r] = [a - f * b for a, b in zip(rows[r], rows[rank])]
        rank += 1
    return rank


def exact_cov(X, centred, ddof=1):
    """(mean, covariance) of the rows of X in exact arithmetic, returned as float arrays plus the exact rank"""
    import numpy as np
    n, d = X.shape
    fx = [[F(v) for v in row] for row in X.tolist()]
    m = [sum(r[j] for r in fx) / n if centred else F(0) for j in range(d)]
    cx = [[r[j] - m[j] for j in range(d)] for r in fx]
    C = [[sum(r[i] * r[j] for r in cx) / (n - ddof) for j in range(d)] for i in range(d)]
    return (np.array([float(v) for v in m]), np.array([[float(v) for v in row] for row in C]), exact_rank(cx))


def pca_data_ok(X, split, centred):
    """conditioning bounded on the input: on every prefix the non-zero part of the spectrum of the exact covariance
    is far from the code's thresholds (eps = 1e-10) and from zero"""
    import numpy as np
    lo = 0
    for c in split:
        lo += c
        m, C, rank = exact_cov(X[:lo], centred)
        if rank == 0:
            return False
        ev = np.sort(np.linalg.eigvalsh(C))[::-1]
        if ev[rank - 1] < 1e-3 * max(ev[0], 1.0) or ev[rank - 1] < 1e-2:
            return False
    return True


def make_graph(rng, kind, nv):
    """edge list of a simple graph on nv vertices"""
    if kind == "edgeless":
        return []
    if kind == "chain":
        return [[i, i + 1] for i in range(nv - 1)]
    if kind == "cycle":
        return [[i, (i + 1) % nv] for i in range(nv)]
    if kind in ("tree", "Tree"):
        return [[rng.randrange(i), i] for i in range(1, nv)]
    if kind == "twoway-chain":      # a directed graph given by a symmetric adjacency: every link in both directions
        return [e for i in range(nv - 1) for e in ([i, i + 1], [i + 1, i])]
    if kind == "twoway-cycle":
        return [e for i in range(nv) for e in ([i, (i + 1) % nv], [(i + 1) % nv, i])]
    raise ValueError(kind)


def build_graph(kind, edges, nv):
    import numpy as np
    from menpo.shape import UndirectedGraph, Tree
    e = np.array(edges, dtype=int).reshape(-1, 2)
    if kind == "Tree":
        return Tree.init_from_edges(e, nv, root_vertex=0)
    if kind.startswith("twoway"):
        from menpo.shape import DirectedGraph
        return DirectedGraph.init_from_edges(e, nv)
    return UndirectedGraph.init_from_edges(e, nv)


def block_columns(edges, mode, k, nv):
    """column index lists of the data of every block (independent transcription for the conditioning guard)"""
    if not edges:
        return [("v", list(range(v * k, (v + 1) * k)), None) for v in range(nv)]
    out = []
    for a, b in edges:
        ca, cb = list(range(a * k, (a + 1) * k)), list(range(b * k, (b + 1) * k))
        out.append(("c", ca + cb, None) if mode == "concatenation" else ("s", ca, cb))
    return out


def gmrf_data_ok(X, split, edges, mode, k, nv, bias):
    import numpy as np
    lo = 0
    for idx, c in enumerate(split):
        lo += c
        last = idx == len(split) - 1
        for kind, ca, cb in block_columns(edges, mode, k, nv):
            D = X[:lo][:, ca] if cb is None else X[:lo][:, ca] - X[:lo][:, cb]
            C = np.atleast_2d(np.cov(D, rowvar=0, bias=bias))
            if not np.all(np.isfinite(C)) or np.linalg.cond(C) > (1e4 if last else 1e6):
                return False
    return True


# ------------------------------------------------------------------------------- implementation runners

def as_pointclouds(M, k):
    import numpy as np
    from menpo.shape import PointCloud
    return [PointCloud(np.array(r, dtype=float).reshape(-1, k)) for r in M]


def run_pca_impl(chunks, centred, backing):
    """state of the incrementally fed model and of the batch model: dicts n, mean, U, l"""
    import numpy as np
    from menpo.model import PCAVectorModel, PCAModel
    X = np.vstack(chunks)

    def state(m):
        mean = m.mean()
        mean = mean.as_vector() if hasattr(mean, "as_vector") else mean
        return dict(n=m.n_samples, mean=np.array(mean, dtype=float), U=np.array(m.components, dtype=float),
                    l=np.array(m.eigenvalues, dtype=float))

    if backing == "vector":
        inc = PCAVectorModel(chunks[0].copy(), centre=centred)
        for c in chunks[1:]:
            inc.increment(c.copy())
        bat = PCAVectorModel(X.copy(), centre=centred)
    else:
        inc = PCAModel(as_pointclouds(chunks[0], 2), centre=centred)
        for c in chunks[1:]:
            inc.increment(as_pointclouds(c, 2))
        bat = PCAModel(as_pointclouds(X, 2), centre=centred)
    return state(inc), state(bat)


def run_gmrf_impl(chunks, kind, edges, nv, k, mode, sparse, bias, backing):
    import numpy as np
    from menpo.model import GMRFVectorModel, GMRFModel
    X = np.vstack(chunks)

    def dense(p):
        return np.array(p.toarray() if hasattr(p, "toarray") else p, dtype=float)

    def state(m):
        mean = m.mean()
        mean = mean.as_vector() if hasattr(mean, "as_vector") else mean
        covs = m._covariance_matrices
        return dict(n=m.n_samples, mean=np.array(mean, dtype=float), P=dense(m.precision),
                    covs=None if covs is None else np.array(covs, dtype=float))

    kw = dict(mode=mode, sparse=sparse, bias=bias, dtype=np.float64)
    if backing == "vector":
        inc = GMRFVectorModel(chunks[0].copy(), build_graph(kind, edges, nv), incremental=True, **kw)
        for c in chunks[1:]:
            inc.increment(c.copy())
        bat = GMRFVectorModel(X.copy(), build_graph(kind, edges, nv), incremental=False, **kw)
    else:
        inc = GMRFModel(as_pointclouds(chunks[0], k), build_graph(kind, edges, nv), incremental=True, **kw)
        for c in chunks[1:]:
            inc.increment(as_pointclouds(c, k))
        bat = GMRFModel(as_pointclouds(X, k), build_graph(kind, edges, nv), incremental=False, **kw)
    return state(inc), state(bat)


# ------------------------------------------------------------------------------- oracle

def arr_close(a, b, tol=TOL):
    import numpy as np
    a, b = np.asarray(a, dtype=float), np.asarray(b, dtype=float)
    if a.shape != b.shape:
        return False
    if a.size == 0:
        return True
    if not (np.all(np.isfinite(a)) and np.all(np.isfinite(b))):
        return False
    scale = max(float(np.abs(b).max()), 1.0)
    return bool(np.abs(a - b).max() <= tol * (1.0 + scale))


def pca_python(chunks, centred, backing):
    return ("import numpy as np\nfrom menpo.model import PCAVectorModel\nchunks = %r\n"
            "m = PCAVectorModel(np.array(chunks[0]), centre=%r)\n"
            "for c in chunks[1:]:\n    m.increment(np.array(c))\n"
            "b = PCAVectorModel(np.vstack([np.array(c) for c in chunks]), centre=%r)\n"
            "print(m.n_samples, m.mean(), m.eigenvalues)\nprint(b.n_samples, b.mean(), b.eigenvalues)\n" % (
                [c.tolist() for c in chunks], centred, centred))


def pca_oracle(ctx, chunks, centred, backing, rp):
    """the property on the real code.  Returns the incremental state (or None when the call raised)."""
    import numpy as np
    site = SITE_PCA + ("/centred" if centred else "/uncentred")
    try:
        inc, bat = run_pca_impl(chunks, centred, backing)
    except Exception as e:
        ctx.fail(site, "raises", "increment/build raised %s: %s" % (type(e).__name__, str(e)[:120]), rp)
        return None
    X = np.vstack(chunks)
    m_ex, C_ex, rank = exact_cov(X, centred)
    ok = True
    ok &= ctx.check(inc["n"] == bat["n"] == X.shape[0], site, "count",
                    "n_samples after the increments is %r, the batch model on the stacked data has %r" % (inc["n"], bat["n"]), rp)
    if not (arr_close(inc["mean"], bat["mean"]) and arr_close(inc["mean"], m_ex)):
        # classify: was a running mean exactly zero before an increment of a centred model?
        lo, zero_before = 0, False
        for c in chunks[:-1]:
            lo += c.shape[0]
            zero_before |= bool(np.all(X[:lo].mean(axis=0) == 0))
        stays = centred and zero_before and bool(np.all(inc["mean"] == 0))
        ctx.fail(site, "zero-mean-treated-as-uncentred" if stays else "mean",
                 "mean after the increments %r, batch mean %r%s" % (
                     inc["mean"].tolist(), bat["mean"].tolist(),
                     " (a centred model whose running mean was exactly zero is updated as if it were uncentred: "
                     "ipca tests np.all(m_a == 0) instead of the model's centred flag)" if stays else ""), rp)
        return inc
    if inc["l"].shape != bat["l"].shape or not arr_close(inc["l"], bat["l"]):
        ok = False
        ctx.fail(site, "eigenvalues", "eigenvalues after the increments %r, batch %r" % (inc["l"].tolist(), bat["l"].tolist()), rp)
    else:
        Pi, Pb = inc["U"].T.dot(inc["U"]), bat["U"].T.dot(bat["U"])
        ok &= ctx.check(arr_close(Pi, Pb, 1e-7), site, "subspace",
                        "projector onto the principal subspace differs from the batch model's by %.2e" % float(np.abs(Pi - Pb).max()), rp)
    # against the definition, independent of batch `pca`: certificate of the returned factors
    k = inc["U"].shape[0]
    Ci = inc["U"].T.dot(np.diag(inc["l"])).dot(inc["U"])
    ok &= ctx.check(arr_close(inc["U"].dot(inc["U"].T), np.eye(k), 1e-8), site, "not-orthonormal",
                    "rows of the components after the increments are not orthonormal", rp)
    ok &= ctx.check(arr_close(Ci, C_ex, 1e-8) and k == rank, site, "covariance",
                    "U^T diag(l) U after the increments differs from the exact covariance of the stacked data by %.2e "
                    "(components %d, exact rank %d)" % (float(np.abs(Ci - C_ex).max()), k, rank), rp)
    return inc


def gmrf_oracle(ctx, chunks, cfg, rp):
    import numpy as np
    kind, edges, nv, k, mode, sparse, bias, backing = cfg
    try:
        inc, bat = run_gmrf_impl(chunks, kind, edges, nv, k, mode, sparse, bias, backing)
    except Exception as e:
        ctx.fail(SITE_GMRF, "raises", "increment/build raised %s: %s" % (type(e).__name__, str(e)[:120]), rp)
        return None
    X = np.vstack(chunks)
    ctx.check(inc["n"] == bat["n"] == X.shape[0], SITE_GMRF, "count",
              "n_samples after the increments is %r, the batch model has %r" % (inc["n"], bat["n"]), rp)
    ctx.check(arr_close(inc["mean"], bat["mean"]) and arr_close(inc["mean"], X.mean(axis=0)), SITE_GMRF, "mean",
              "mean after the increments %r, batch mean %r" % (inc["mean"].tolist(), bat["mean"].tolist()), rp)
    ctx.check(arr_close(inc["P"], bat["P"], 1e-8), SITE_GMRF, "precision",
              "precision after the increments differs from the batch precision by %.3e (max entry %.3e)" % (
                  float(np.abs(inc["P"] - bat["P"]).max()) if inc["P"].shape == bat["P"].shape else float("nan"),
                  float(np.abs(bat["P"]).max())), rp)
    return inc


# ------------------------------------------------------------------------------- cases

def wire_chunks(chunks):
    return "%d %s" % (len(chunks), " ".join(common.fmat(c.tolist()) for c in chunks))


class Run:
    def __init__(self, ctx, with_model=True):
        self.ctx, self.with_model = ctx, with_model
        self.lines, self.pending = [], {}

    def ask(self, line, kind, inc, rp):
        if not self.with_model or inc is None:
            return
        cid = "q%d" % len(self.lines)
        self.lines.append("%s %s" % (cid, line))
        self.pending[cid] = (kind, inc, rp)

    def settle(self):
        import numpy as np
        if not self.lines:
            return
        model = common.run_driver(PROP, self.lines)
        for cid, (kind, inc, rp) in self.pending.items():
            rep = model[cid]
            if not rep.startswith("ok "):
                self.ctx.mismatch(kind, "model answered %r" % rep[:80], rp)
                continue
            parts = [p.split() for p in rep[3:].split("|")]
            n = int(parts[0][0])
            mean = np.array([float(F(x)) for x in parts[1]])
            d = mean.shape[0]
            sq = np.array([float(F(x)) for x in parts[2]]).reshape(d, d)
            if n != inc["n"]:
                self.ctx.mismatch(kind + ".count", "model %d vs implementation %r" % (n, inc["n"]), rp)
            if not arr_close(inc["mean"], mean):
                self.ctx.mismatch(kind + ".mean", "model %r vs implementation %r" % (mean.tolist(), inc["mean"].tolist()), rp)
            if kind == "pca":
                Ci = inc["U"].T.dot(np.diag(inc["l"])).dot(inc["U"])
                if not arr_close(Ci, sq, 1e-8):
                    self.ctx.mismatch("pca.covariance", "U^T diag(l) U differs from the model covariance by %.2e" %
                                      float(np.abs(Ci - sq).max()), rp)
            else:
                if not arr_close(inc["P"], sq, 1e-8):
                    self.ctx.mismatch("gmrf.precision", "implementation precision differs from the model's by %.2e" %
                                      float(np.abs(inc["P"] - sq).max()), rp)
                covs = np.array([float(F(x)) for x in parts[3]])
                if inc["covs"] is not None and not arr_close(inc["covs"].ravel(), covs, 1e-8):
                    self.ctx.mismatch("gmrf.covariances", "stored block covariances differ from the model's", rp)


def pca_case(run, X, split, centred, backing, tag):
    ctx = run.ctx
    chunks = cut(X, split)
    rp = {"model": "PCA", "centred": centred, "backing": backing, "split": list(split), "data": X.tolist(),
          "python": pca_python(chunks, centred, backing)}
    ctx.case(("pca", X.tobytes(), split, centred, backing), nontrivial=len(split) >= 2 and X.shape[0] >= 3,
             sample={"model": "PCA", "n": X.shape[0], "d": X.shape[1], "split": list(split), "centred": centred,
                     "backing": backing})
    ctx.count("pca:%s:%s:%s" % ("centred" if centred else "uncentred", backing,
                                "n<=d" if X.shape[0] <= X.shape[1] else "n>d"))
    ctx.count("pca:%s" % tag)
    ctx.count("increments:%d" % (len(split) - 1))
    inc = pca_oracle(ctx, chunks, centred, backing, rp)
    run.ask("pca %d spec %s" % (1 if centred else 0, wire_chunks(chunks)), "pca", inc, rp)


def gmrf_case(run, X, split, cfg, tag):
    ctx = run.ctx
    kind, edges, nv, k, mode, sparse, bias, backing = cfg
    chunks = cut(X, split)
    rp = {"model": "GMRF", "graph": kind, "edges": edges, "n_vertices": nv, "n_features_per_vertex": k, "mode": mode,
          "sparse": sparse, "bias": bias, "backing": backing, "split": list(split), "data": X.tolist()}
    ctx.case(("gmrf", X.tobytes(), split, repr(cfg)), nontrivial=len(split) >= 2,
             sample={kk: rp[kk] for kk in ("model", "graph", "edges", "n_features_per_vertex", "mode", "sparse", "bias",
                                           "backing", "split")})
    ctx.count("gmrf:%s:%s:%s:bias%d" % (kind, mode if edges else "-", "sparse" if sparse else "dense", bias))
    ctx.count("gmrf:%s" % tag)
    ctx.count("gmrf:backing:%s" % backing)
    ctx.count("increments:%d" % (len(split) - 1))
    inc = gmrf_oracle(ctx, chunks, cfg, rp)
    if kind.startswith("twoway"):
        # antiparallel edge pairs: how duplicated blocks are assembled (dense overwrite vs sparse sum) is C12's
        # subject and outside the Lean assembly model; incremental = batch is decided by the oracle on the real code
        ctx.count("gmrf:model-skipped:antiparallel-edges")
        return
    run.ask("gmrf %d %s %d %d %d %s %s" % (bias, "c" if mode == "concatenation" else "s", nv, k, len(edges),
                                            " ".join("%d %d" % (a, b) for a, b in edges), wire_chunks(chunks)),
            "gmrf", inc, rp)


def pca_dataset(rng, n, d, centred, split_for_guard=None):
    """dyadic data whose every prefix (from 2 rows on) has a clean spectrum"""
    for _ in range(200):
        X = dyadic_matrix(rng, n, d)
        if pca_data_ok(X, tuple([2] + [1] * (n - 2)), centred):
            return X
    raise common.Infra("generator: no well-conditioned PCA data set found")


def directed_pca(run):
    """fixed cases that are part of the quantifier and that random data never hit"""
    import numpy as np
    # a centred model whose mean is exactly zero (DESIGN section 7 item 9), 2-D and 3-D, one and two increments
    X = np.array([[1.0, 2.0], [-1.0, -2.0], [2.0, -1.0], [-2.0, 1.0], [3.0, 1.0], [5.0, 2.0], [1.0, 7.0]])
    pca_case(run, X, (4, 3), True, "vector", "zero-mean-initial-batch")
    pca_case(run, X, (4, 1, 2), True, "vector", "zero-mean-initial-batch")
    pca_case(run, X, (4, 3), True, "pointcloud", "zero-mean-initial-batch")
    # the running mean becomes exactly zero after the first increment
    Y = np.array([[1.0, 2.0, 0.5], [3.0, -1.0, 1.5], [-4.0, -1.0, -2.0], [2.0, 2.0, 1.0], [0.0, 3.0, 4.0], [1.0, 1.0, -2.0]])
    pca_case(run, Y, (2, 1, 3), True, "vector", "zero-mean-after-increment")
    # the same data, uncentred: the zero test is the documented convention there
    pca_case(run, X, (4, 3), False, "vector", "zero-mean-uncentred")
    # duplicates / rank-deficient increments, single-row increments, an increment equal to the running mean
    Z = np.array([[1.0, 0.0, 2.0], [3.0, 1.0, 0.0], [1.0, 0.0, 2.0], [2.0, 0.5, 1.0], [0.0, 4.0, 1.0], [0.0, 4.0, 1.0],
                  [5.0, 2.0, 2.0]])
    for split in ((2, 2, 3), (3, 1, 1, 1, 1), (2, 5), (6, 1)):
        for centred in (True, False):
            pca_case(run, Z, split, centred, "vector", "rank-deficient-increments")


def explore_pca(run, scale):
    rng = run.ctx.rng
    # every composition of n for small n, on both sides of n = d
    for n, d in ((5, 2), (5, 7), (6, 3), (6, 6), (7, 4), (7, 9)) + (((8, 3), (8, 10)) if scale > 1 else ()):
        for centred in (True, False):
            for rep in range(1 if scale == 1 else 2):
                X = pca_dataset(rng, n, d, centred)
                backing = "pointcloud" if d % 2 == 0 and rng.random() < 0.5 else "vector"
                for split in compositions(n, 2):
                    pca_case(run, X, split, centred, backing, "every-composition-n%d" % n)
    if scale > 1:
        X = pca_dataset(rng, 9, 4, True)
        for split in compositions(9, 2):
            pca_case(run, X, split, True, "vector", "every-composition-n9")
    # larger n: random compositions
    for _ in range(60 * scale):
        n, d = rng.randint(8, 14), rng.randint(2, 12)
        centred = rng.random() < 0.6
        X = pca_dataset(rng, n, d, centred)
        backing = "pointcloud" if d % 2 == 0 and rng.random() < 0.3 else "vector"
        for _ in range(2):
            pca_case(run, X, random_composition(rng, n, 2), centred, backing, "random-composition")


def gmrf_configs():
    out = []
    for kind in ("edgeless", "chain", "cycle", "tree", "Tree", "twoway-chain", "twoway-cycle"):
        for mode in (("concatenation",) if kind == "edgeless" else ("concatenation", "subtraction")):
            for sparse in (True, False):
                for bias in (0, 1):
                    out.append((kind, mode, sparse, bias))
    return out


def explore_gmrf(run, scale):
    import numpy as np
    rng = run.ctx.rng
    for rnd in range(scale):
        for kind, mode, sparse, bias in gmrf_configs():
            nv = rng.randint(3, 5)
            k = rng.choice([1, 2, 3])
            if nv * k > 12:
                nv = 3
            # the edge list in the order (and orientation) the graph object reports it: this is what the code iterates
            edges = [[int(a), int(b)] for a, b in build_graph(kind, make_graph(rng, kind, nv), nv).edges.tolist()]
            p = k if (not edges or mode == "subtraction") else 2 * k
            n0 = p + 2
            backing = "pointcloud" if k >= 2 and rng.random() < 0.4 else "vector"
            cfg = (kind, edges, nv, k, mode, sparse, bias, backing)
            extra = 3 if (rnd % 2 == 0) else 4
            n = n0 + extra
            for _ in range(200):
                X = dyadic_matrix(rng, n, nv * k, 16, 2)
                if gmrf_data_ok(X, tuple([n0] + [1] * extra), edges, mode, k, nv, bias):
                    break
            else:
                raise common.Infra("generator: no well-conditioned GMRF data set found")
            splits = compositions(n, n0)
            if scale == 1 and len(splits) > 7:
                splits = rng.sample(splits, 7)
            for split in splits:
                gmrf_case(run, X, split, cfg, "every-composition" if scale > 1 else "sampled-compositions")
            # a longer random history
            n2 = n0 + rng.randint(5, 9)
            for _ in range(200):
                X2 = dyadic_matrix(rng, n2, nv * k, 16, 2)
                if gmrf_data_ok(X2, tuple([n0] + [1] * (n2 - n0)), edges, mode, k, nv, bias):
                    break
            else:
                raise common.Infra("generator: no well-conditioned GMRF data set found")
            gmrf_case(run, X2, random_composition(rng, n2, n0), cfg, "random-composition")


def case_from_replay(run, rp, tag):
    import numpy as np
    X = np.array(rp["data"], dtype=float)
    split = tuple(rp["split"])
    if rp.get("model") == "PCA":
        pca_case(run, X, split, bool(rp["centred"]), rp.get("backing", "vector"), tag)
    else:
        cfg = (rp["graph"], [list(e) for e in rp["edges"]], rp["n_vertices"], rp["n_features_per_vertex"], rp["mode"],
               bool(rp["sparse"]), int(rp["bias"]), rp.get("backing", "vector"))
        gmrf_case(run, X, split, cfg, tag)


def corpus(run):
    """minimised past failures (replays/corpus/C11-*.json) are re-run first on every check"""
    import glob
    import os
    for path in sorted(glob.glob(os.path.join(common.ROOT, "replays", "corpus", "C11-*.json"))):
        case_from_replay(run, json.load(open(path))["replay"], "corpus-replay")


def explore(run, scale):
    corpus(run)
    directed_pca(run)
    explore_pca(run, scale)
    explore_gmrf(run, scale)


def search(ctx):
    """directed search after a broken tie: oracle only, the directed cases and a larger exploration"""
    r = Run(ctx, with_model=False)
    before = ctx.evaluations
    explore(r, 3)
    ctx.searched += ctx.evaluations - before
    return bool(ctx.failures)


def run(ctx):
    common.prepare_lean(ctx, PROP, IMPORTS, THEOREMS)
    ctx.trusted += ["contract parameters: np.linalg.qr/svd/inv, np.sqrt, np.cov, np.mean (certificate-checked per case)"]
    r = Run(ctx)
    explore(r, ctx.n(1, 12))
    r.settle()
    return ctx.finish(search)


def replay(ctx, path):
    """re-execute the recorded case against the current tree and the model, then report"""
    data = json.load(open(path))
    rp = data.get("replay") or (data.get("broken_correspondence") or [{}])[0].get("case") or {}
    print(json.dumps({k: v for k, v in data.items() if k != "replay"}, indent=1)[:1500])
    if not rp.get("data"):
        print("no recorded case in this replay file; re-running the quick exploration with seed %r" % data.get("seed"))
        return run(common.Ctx(PROP, "quick", int(data.get("seed", 0))))
    common.prepare_lean(ctx, PROP, IMPORTS, THEOREMS)
    r = Run(ctx)
    case_from_replay(r, rp, "replay")
    r.settle()
    print("replayed case: %s split=%s -> %d oracle failure(s), %d model mismatch(es)" % (
        rp.get("model"), list(rp["split"]), len(ctx.failures), len(ctx.mismatches)))
    return ctx.finish(None)
