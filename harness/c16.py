"""C16 — export then import returns the same data; files are never clobbered unasked (DESIGN.md section 6, C16).

Parties of every case: the real menpo.io (export_* then import_* on files under tempfile.mkdtemp(), removed per
case); the property oracle (the property text on the real objects / the real bytes, independent of the Lean
model); the Lean model (LJSON value tree, points format, IEEE eight-bit conversion, exact float quantisation,
path normalisation + extension parsing + overwrite guard), asked through one driver run.

Every case is a JSON-able parameter dictionary (`params`) built by a generator and executed by `run_case`; a
replay file stores the dictionary, `./check C16 --replay <file>` executes it again.
"""
import hashlib
import json
import os
import shutil
import tempfile
from fractions import Fraction as F

from . import common
from .common import fq

PROP = "C16"
INFO = dict(
    technique="Lean 4 proof (LJSON encode/decode round trip on a JSON value tree with all three version parsers and a "
              "fixed point over any number of cycles; points-format rounding bound in any dimension with NaN; binary64 "
              "error analysis of the integer range conversion for every bit depth up to 48 (all 65 536 sixteen-bit values "
              "without enumeration) next to the kernel-decided IEEE evaluation of all 256 eight-bit values; exact "
              "quantisation bound; exporter and importer agree on (format, compressed) for EVERY file name; the overwrite "
              "guard as an invariant of a file-system model over every export history and every spelling _norm_path "
              "understands (~, $VAR, ${VAR}, ./.., str/Path); menpo's code around Python's serialiser) + regenerated "
              "extension dictionaries with decide obligations + 25 functions of the anchored code TRANSLATED FROM THE "
              "SOURCE TEXT of the working tree on every run (harness/trans_c16.py over harness/py2lean2.py) and proved "
              "equal, for all arguments, to the specifications the guard / agreement / round-trip theorems are about + "
              "model/implementation correspondence and a bytes-level oracle on real files",
    level_text="Theorems over an executable model of ljson_exporter/tojson/ljson_importer with all three parsers "
               "(identical coordinates incl. missing values, symmetrised edge set, labels in order, group names, version "
               "dispatch; the first import is a fixed point of any number of further export/import cycles; every "
               "import THE MODEL decodeDoc accepts - any tree of the typed schema (the real importer also accepts trees "
               "outside it: negative mask indices, numbers given as strings, a Boolean version) - returns well-formed "
               "groups; version-1/2 documents "
               "yield one group LJSON that is a plain point cloud or a labelled graph with distinct labels covering "
               "every point; a version-2 document of a group imports to what the version-3 export of that group imports "
               "to; a version-1 document imports to the concatenated points, offset-shifted edges and one slice label "
               "per group, and re-exporting it as version 3 loses nothing), of export_landmark_file's own check (a "
               "dictionary / LandmarkManager is only ever handed to the LJSON writer), of pts_exporter/pts_importer (axis swap, 1-based offset, three decimals; any dimension >= 2 and NaN "
               "coordinates, axes beyond the second are dropped), of normalize_pixels_range / denormalize_pixels_range "
               "in binary64 (general lemma: any rounding with relative error <= 2^-53 returns every level k <= N for "
               "N <= 2^48, instantiated at an executable 53-bit round-to-nearest-even, so all 65 536 sixteen-bit and all "
               "256 eight-bit values; also all 256 eight-bit values decided by the kernel on Lean's Float; the truncating "
               "cast of the earlier code refuted by witness at both depths), of the float quantisation (< one level), "
               "of the extension parsers of exporters and importers and the gzip decision of export_pickle (for every "
               "file name - any number of dots, any case, extension-like components anywhere in the stem - the importer "
               "parses the extension the exporter parsed and gunzips iff the exporter gzipped; a pickle is gzipped iff "
               "the lower-cased name ends in .gz), of _norm_path (str(Path), expanduser, expandvars, normpath, abspath) / "
               "_parse_and_validate_extension / _validate_filepath / _export / _export_paths_only / export_pickle "
               "(a refused export through _export / _export_paths_only / export_pickle raises OverwriteError and changes no "
               "file - for export_landmark_file that is proved of the guard-first code of notes/fixes/"
               "C16-landmark-dict-guard-first.diff (landmark_guard_first), while the code as it stood answers a "
               "dictionary aimed at an existing x.pts with ValueError (landmark_coded_value_error, refutation by "
               "witness; file intact either way: landmarkV_guard); an accepted export changes only its own "
               "file; after ANY history every path holds the bytes of the last accepted export that targeted it; no "
               "history without overwrite=True changes an existing file - for every exporter kind, spelling and "
               "environment; the earlier _export_paths_only that checked one spelling of a str path and wrote another "
               "refuted by witness), and of pickle_paths_as_pure + _import around Python's serialiser (an object comes "
               "back with the same attributes in the same order up to Path -> PurePath, nothing attached below the top "
               "level, path attached only if missing; dictionaries and lists of n != 1 objects member-wise; "
               "that Path.__reduce__ is restored after an export is how the model transcribes the `finally`, not a "
               "theorem with content).  Tied to /repo by exporting and re-importing "
               "real files (all shape classes and managers, 2-D/3-D, NaN, unicode ordered labels, repeated cycles; "
               "hand-written version 1/2 documents incl. the failing ones; points files of 1..4-D shapes with NaN; every "
               "lossless PIL codec of the sandbox x grey/RGB/RGBA/binary/boolean sources with all 256 values; all 65 536 "
               "sixteen-bit and 256 eight-bit levels through normalize/denormalize and Image.as_PILImage; float64/float32 "
               "images in C / Fortran / strided layouts; every picklable menpo object plain and gzipped and random "
               "object trees; multi-dot names with extension-like stems in four spellings of the case for every "
               "exporter; export histories with str/Path, relative/absolute, redundant, ~ and $VAR spellings, a directory "
               "literally called ~ holding bait files, the directory hashed before and after every call) and by six "
               "decide obligations over tables regenerated from the live code on every run: the exporter / importer "
               "dictionaries (observed through the public export_* / import_* entry points; the agreement theorem is "
               "instantiated at them), _ljson_parser_for_version (ljson_importer = lookup in that table) and the "
               "version number the live ljson_exporter writes.  TRANSLATED rather than transcribed (source text of the "
               "working tree -> Lean on every run, Generated/C16Src{Pure,IO,Fmt}.lean; GenProps/C16Src*.lean prove "
               "translated = specification for all arguments): menpo.io.utils._normalize_extension, "
               "_possible_extensions_from_filepath, _norm_path; menpo.io.output.base._parse_and_validate_extension, "
               "_enforce_only_paths_supported, _validate_filepath, _extension_to_export_function, "
               "_validate_and_get_export_func (both values of return_extension), _export (str, Path and file-object "
               "branches), _export_paths_only, export_pickle, export_landmark_file, export_image, export_video; "
               "menpo.io.input.base.importer_for_filepath; menpo.io.output.landmark.ljson_exporter, pts_exporter; "
               "menpo.io.input.landmark.pts_importer, ljson_importer (version dispatch), _ljson_parse_null_values, "
               "_parse_ljson_v3, _parse_ljson_v2, _parse_ljson_v1 (on the typed form of a schema-valid document); "
               "menpo.image.base.normalize_pixels_range, denormalize_pixels_range.  The obligation for "
               "export_landmark_file is `translated = one of the two documented variants` (dictionary check before the "
               "guard, as coded / guard first, the repair).  The guard (refusal = OverwriteError "
               "and an untouched file system, frame; every history over export_image / export_landmark_file / "
               "export_pickle / export_video: an existing file never targeted with overwrite keeps its content and the "
               "call is answered with OverwriteError - for export_landmark_file in the check-first variant possibly with "
               "the ValueError of its own earlier check), the exporter/importer agreement with the live dictionaries, the LJSON "
               "round trip (translated writer -> translated version dispatch -> translated version-3 parser), the "
               "points-file round trip at file level and the eight-bit round trip are stated FOR THE TRANSLATED "
               "FUNCTIONS (GenProps/C16SrcGuard.lean, C16SrcFmt.lean).  _norm_path is modelled as the code composes it, "
               "string by string (str(Path), expanduser, expandvars, os.path.normpath incl. the two-leading-slashes "
               "rule, os.path.abspath) and PROVED to name the file of the direct component model (key_normPathSpec); "
               "each of these library functions is compared with Python on generated strings on every run, the "
               "document the exporter writes is compared as a value tree with the file on disk, and hand-written "
               "version 1 / 2 / 3 documents (ragged rows, indices outside the point set, repeated labels, unlabelled "
               "points) go through the real importer and the specifications of the translated parsers.",
    level_note="The translation is value level: it does not see object identity, in-place mutation of an argument or "
               "copies (none of the translated io functions relies on them; that an export leaves the exported object "
               "alone is observed by the harness, not proved).  Exception classes are the vocabulary EXC with the "
               "subclass relation OverwriteError < ValueError, IndexError / KeyError < LookupError (a handler for a class "
               "catches its known subclasses).  Rules that are contracts rather than translations: the header text of a "
               "points file (ptsHeader ignores n_points), np.array(strings, dtype=float) (number parsing) as the identity "
               "on parsed numbers, string literals without a rule as the unit value (they only occur in messages), "
               "pointcloud.tojson() / init_from_edges as the hand-written tojson / initFromEdges.  Library semantics "
               "assumed and compared on every run: Python 3.12 PurePath.suffixes / suffix / name, os.path, numpy >= 2 "
               "promotion (float32 * python float stays binary32: see partial), open('wb') succeeds (directories and "
               "permissions are not modelled).  Trusted: Lean kernel; axioms propext/Classical.choice/Quot.sound; harness; driver parser; the source-to-Lean "
               "translator (harness/py2lean2.py + Translator16 and the rule tables of harness/trans_c16.py: each rule maps "
               "one Python expression of the io code to the model operation of the same name; the operations that stand "
               "for library calls are compared with the library on every run).  That rn53 (the "
               "rational model of binary64 round-to-nearest-even), Lean's Float and numpy's float64 agree is not "
               "assumed: checked on every run on all 65 536 + 256 levels (sets of lost levels under truncation and "
               "under rounding).  Contract parameters (not verified, checked on every run): json (value tree written = "
               "value tree read, repr round-trips doubles), '%.3f' (correctly rounded, ties on the exact value to "
               "even), PIL lossless codecs (probed per run with PIL alone), pickle/gzip (the object tree written is the "
               "object tree read), os.path / pathlib / pwd (no user called c16nosuchuser; HOME set), ffmpeg (replaced "
               "during video histories by a stub that writes bytes to the path it is handed).",
    rule="a case = one export/import round trip of one object through one file format (plus 0..2 further cycles for "
         "LJSON), or one hand-written LJSON v1/v2 document, or one export history (<= 6 exports, mixed spellings and "
         "overwrite flags) on one exporter, or one file name through one exporter and its importer, or one "
         "name/spelling for the extension parser / path normaliser, or one integer range; distinct = distinct "
         "parameter dictionary; non-trivial = more than one point / pixel value / operation, or a name with more "
         "than one dot",
    partial=["pickle: pickle.dump / pickle.load / gzip themselves are a contract parameter (the object tree written is the "
             "tree read); what menpo's own code does around them is proved (which opener and which importer for every "
             "file name: export_import_agree; paths pickled pure, path attached, unwrapping: Props/C16Pickle.lean) and "
             "the clause as a whole is decided by the state-equality oracle on real .pkl / .pkl.gz files of every "
             "menpo object family; a pickled ONE-element list comes back as its element (_import unwraps it) - a list "
             "is not a menpo object, modelled and checked as the code is",
             "sixteen-bit data: proved for normalize_pixels_range -> denormalize_pixels_range (the only place menpo "
             "handles uint16: the importer rejects 16-bit PIL modes and the exporter always writes uint8), tied by the "
             "exhaustive correspondence of all 65 536 levels; float images are quantised to 8 bits only",
             "path spellings: '~user' for an existing user and HOME unset (both consult the password database) are not "
             "modelled; symbolic links are not modelled",
             "export_pickle validates the name of the handle it has just opened a second time (inside _export): that the "
             "second normalisation of the already normalised path parses to the same extension is a hypothesis of "
             "pickle_written (hstable: true whenever the normalised path holds no $VAR that is set), not a theorem; "
             "the guard and frame theorems for export_pickle do not need it",
             "the LJSON parsers are translated on the TYPED form of a schema-valid document (a group has points, optional "
             "connectivity, labels with label / mask): which keys they subscript in the tree json.load returns is part "
             "of the rules, so a tree that lacks a key or holds a value of another JSON type is covered by the "
             "hand-transcribed decodeDoc (Core/C16.lean) and the correspondence only; pickle_exporter / "
             "pickle_paths_as_pure / _import's attach_path (a generator context manager and a nested def that "
             "mutates aliased objects) remain hand-transcribed (Core/C16Pickle.lean)",
             "sixteen-bit levels pass the [0, 1] range check of denormalize_pixels_range: proved for every eight-bit "
             "level by kernel evaluation (normQ_255_le_one) and a hypothesis of pixels_roundtrip_translated for "
             "N = 65535 (checked on all 65 536 levels by the correspondence)",
             "the points format holds two axes: a 3-D shape exported as .pts comes back 2-D (ptsN_drops_higher_axes "
             "models it; the property's three-decimal clause is checked on the two axes the format has)",
             "shape object -> tojson() (edges = upper-triangular non-zeros of the adjacency matrix, mask.nonzero(), "
             "TriMesh.as_pointgraph) and init_from_edges / the label checks of the constructors are hand-transcribed "
             "(tojson, initFromEdges, symEdges); no translated function or theorem relates an object's adjacency matrix "
             "to the model's Shape: tied by the oracle and the document-level correspondence only (the place where "
             "seeded C16-4 lived)",
             "float32 pixels: denormalizeSpec rounds the product in binary64 for every dtype whereas numpy >= 2 keeps "
             "float32 * 255.0 in binary32, so for float32 inputs within one binary32 ulp of a half-level the real "
             "function may store the neighbouring level (63 such values exist); the property's bound (< one level) is "
             "unaffected and is proved in exact arithmetic only (float_export_error_lt_one_level), no binary32 / "
             "binary64 bound is proved; the correspondence uses float32 values whose product is exact",
             "export_landmark_file(dictionary or LandmarkManager, existing non-LJSON name or X.LJSON) raised ValueError "
             "before the overwrite guard ran (file intact, but not the OverwriteError the property names): genuine "
             "defect, notes/fixes/C16-landmark-dict-guard-first.diff; until it is applied the check reports it "
             "(site C16/guard/landmark, pattern not-refused); the history theorem keeps the weaker disjunct for the "
             "check-first variant",
             "not generated: infinite coordinates (the real exporter raises ValueError and leaves a partial NEW file), "
             "file objects as export targets in guard histories (modelled and proved: exportHandleSpec, "
             "exportHandle_frame, but not exercised), nested attributes called `path` (the state comparison skips the "
             "name at any depth, the text exempts the recorded file path)",
             "JPEG and other lossy codecs are covered by the overwrite guard and the name/importer agreement only; "
             "EPS/GIF/DCX/PCD/PSD/XBM/XPM cannot be written or read back in this sandbox (no Ghostscript/ffmpeg/PIL "
             "writer) and are covered by the guard (refusal happens before the codec is reached) only; video export "
             "runs with a stub in place of ffmpeg (paths and guard only)"],
    assumptions=["temporary directories are on a POSIX file system without symbolic links below the scratch root",
                 "no user called c16nosuchuser exists; the harness sets HOME, C16ROOT, C16SUB for the duration of a "
                 "guard / normalisation case and restores them"],
    design_ref="DESIGN.md section 6, C16")
IMPORTS = ["MenpoModel.Props.C16", "MenpoModel.Props.C16V1", "MenpoModel.Props.C16Src", "MenpoModel.Lemmas.C16NormStr"]
TARGETS = ["MenpoModel.Props.C16", "MenpoModel.Props.C16V1", "MenpoModel.Props.C16Src", "MenpoModel.Lemmas.C16NormStr",
           "MenpoModel.Drive.C16"]
THEOREMS = [
    "MenpoModel.C16.ljson_roundtrip", "MenpoModel.C16.ljson_group_names", "MenpoModel.C16.ljson_group_content",
    "MenpoModel.C16.ljson_edges_stable", "MenpoModel.C16.ljson_cycle_fixed_point", "MenpoModel.C16.ljson_version_dispatch",
    "MenpoModel.C16.ljson_empty_points_error", "MenpoModel.C16.ljson_other_dims_dropped",
    "MenpoModel.C16.pts_roundtrip_3dp", "MenpoModel.C16.pts_roundtrip_exact",
    "MenpoModel.C16.u8_roundtrip_round", "MenpoModel.C16.u8_trunc_failures", "MenpoModel.C16.u8_trunc_off_by_one",
    "MenpoModel.C16.u8_trunc_refuted", "MenpoModel.C16.quant_exact_levels",
    "MenpoModel.C16.float_export_error_lt_one_level",
    "MenpoModel.C16.export_guard_refuses", "MenpoModel.C16.export_guard_history", "MenpoModel.C16.export_guard_frame",
    "MenpoModel.C16.normpath_redundant_spellings",
    "MenpoModel.C16.normpath_fixed", "MenpoModel.C16.extension_parse_longest_known",
    # exporter and importer agree on (format, compressed) for every file name (Props/C16Ext.lean)
    "MenpoModel.C16.export_import_agree", "MenpoModel.C16.decisions_agree_of_tables",
    "MenpoModel.C16.export_reader_matches", "MenpoModel.C16.pickle_compressed_iff_name_ends_gz",
    "MenpoModel.C16.pickle_extension_cases", "MenpoModel.C16.tables_ok", "MenpoModel.C16.exporterTable_keys",
    "MenpoModel.C16.dict_export_reaches_ljson_only", "MenpoModel.C16.single_export_is_parse",
    # the importers of LJSON versions 1 and 2 (Props/C16Legacy.lean)
    "MenpoModel.C16.ljson_import_wellformed", "MenpoModel.C16.ljson_legacy_wellformed",
    "MenpoModel.C16.ljson_v2_reads_v3_group", "MenpoModel.C16.ljson_v2_edges_need_labels",
    "MenpoModel.C16.ljson_version_dispatch_legacy", "MenpoModel.C16.ljson_dispatch_is_table",
    "MenpoModel.C16.exported_version_has_parser",
    # version 1 in closed form and its upgrade to version 3 (Props/C16V1.lean)
    "MenpoModel.C16.ljson_v1_import", "MenpoModel.C16.ljson_v1_upgrade",
    # integer image data of any bit depth up to 16, by error analysis (Props/C16Soft.lean)
    "MenpoModel.C16.range_roundtrip_of_rounding", "MenpoModel.C16.range_roundtrip_round",
    "MenpoModel.C16.u16_roundtrip_round", "MenpoModel.C16.u8_roundtrip_round_arith",
    "MenpoModel.C16.u16_trunc_refuted", "MenpoModel.C16.rn53_err", "MenpoModel.C16.roundHalfEven_near",
    # the guard as an invariant of a file-system model, every spelling _norm_path understands (Props/C16Paths.lean)
    "MenpoModel.C16.export_history_final", "MenpoModel.C16.export_history_never_clobbers",
    "MenpoModel.C16.export_accepted_changes_only_target", "MenpoModel.C16.export_refused_changes_nothing",
    "MenpoModel.C16.expand_noop", "MenpoModel.C16.expandUser_home", "MenpoModel.C16.coded_eq_repaired",
    "MenpoModel.C16.runHistoryCoded_eq", "MenpoModel.C16.video_str_tilde_clobbers",
    "MenpoModel.C16.video_str_tilde_repaired", "MenpoModel.C16.coded_guard_refuted",
    # the points format in any dimension, with NaN (Props/C16PtsN.lean)
    "MenpoModel.C16.ptsN_roundtrip", "MenpoModel.C16.ptsN_drops_higher_axes", "MenpoModel.C16.ptsN_extends_2d",
    # what menpo does around Python's serialiser (Props/C16Pickle.lean)
    "MenpoModel.C16.pickle_roundtrip_object", "MenpoModel.C16.pickle_state_equal", "MenpoModel.C16.purify_idem",
    "MenpoModel.C16.purify_noop", "MenpoModel.C16.purify_pathFree", "MenpoModel.C16.pickle_roundtrip_dict",
    "MenpoModel.C16.pickle_roundtrip_list", "MenpoModel.C16.pickle_singleton_list_unwrapped",
    # the guard and the agreement for the SPECIFICATIONS the translated export plumbing is proved equal to
    # (Props/C16Src.lean; restated for the translated functions themselves in GenProps/C16SrcGuard.lean)
    "MenpoModel.C16.validateAndGet_reads_only", "MenpoModel.C16.validateAndGet_overwriteError_iff",
    "MenpoModel.C16.validateAndGetSpec_ne_attr", "MenpoModel.C16.export_refused", "MenpoModel.C16.export_refused_iff",
    "MenpoModel.C16.export_frame", "MenpoModel.C16.export_failed_untouched", "MenpoModel.C16.export_written",
    "MenpoModel.C16.pathsOnly_refused", "MenpoModel.C16.pathsOnly_frame", "MenpoModel.C16.pickle_refused",
    "MenpoModel.C16.pickle_refused_iff", "MenpoModel.C16.pickle_frame", "MenpoModel.C16.exportHandle_ne_over",
    "MenpoModel.C16.exportHandle_frame", "MenpoModel.C16.landmark_multi_reaches_export", "MenpoModel.C16.landmark_guard",
    "MenpoModel.C16.landmark_frame", "MenpoModel.C16.landmark_guard_first", "MenpoModel.C16.landmark_coded_value_error",
    "MenpoModel.C16.landmarkV_guard", "MenpoModel.C16.landmarkV_frame", "MenpoModel.C16.video_refused", "MenpoModel.C16.video_frame",
    "MenpoModel.C16.pickle_written", "MenpoModel.C16.pickle_reader_agrees", "MenpoModel.C16.export_reader_agrees",
    "MenpoModel.C16.keysNormal_tables", "MenpoModel.C16.history_never_clobbers", "MenpoModel.C16.history_frame",
    # `_norm_path` as the code composes it, string by string, names the file of the direct model (Lemmas/C16NormStr.lean)
    "MenpoModel.C16.resolve_osNormpath", "MenpoModel.C16.resolve_osAbspath", "MenpoModel.C16.resolve_pathStr",
    "MenpoModel.C16.key_normPathSpec",
]

TRUNC24 = [33, 37, 41, 45, 49, 53, 57, 61, 66, 74, 82, 90, 98, 106, 114, 122, 132, 148, 164, 180, 196, 212, 228, 244]
LOSSLESS_CANDIDATES = [".bmp", ".dib", ".im", ".pbm", ".pcx", ".pgm", ".png", ".ppm", ".tif", ".tiff"]
SITE_U8 = "C16/image8/denormalize_pixels_range"
PAT_U8 = "truncation-one-lower-24-values"
UNICODE_NAMES = ["left eye", "größe", "眼", "b", "a", "Z", "nose.tip", "été", "_", "0"]


# --------------------------------------------------------------------------------------------- regenerated tables

GEN_IMPORT = "MenpoModel.GenProps.C16"
GEN_TARGETS = ["MenpoModel.Generated.C16Tables", GEN_IMPORT]
GEN_THEOREMS = ["MenpoModel.GenProps.C16.exporterLive_ok", "MenpoModel.GenProps.C16.importerLive_ok",
                "MenpoModel.GenProps.C16.live_tables_ok", "MenpoModel.GenProps.C16.export_import_agree_live",
                "MenpoModel.GenProps.C16.ljsonParsers_ok", "MenpoModel.GenProps.C16.ljsonExportedVersion_ok"]
KINDS = ("landmark", "image", "pickle", "video")


def callable_name(f):
    import functools
    while isinstance(f, functools.partial):
        f = f.func
    return getattr(f, "__name__", type(f).__name__)


def live_tables():
    """the dictionaries the PUBLIC export_* / import_* functions hand to the shared machinery, observed by calling
    them with the shared helper replaced by a recorder (nothing is written or read); falls back to the module-level
    dictionaries of menpo.io.{output,input}.extensions if the helpers are no longer there"""
    import menpo.io as mio
    import menpo.io.output.base as ob
    import menpo.io.input.base as ib
    from menpo.io.output import extensions as ox
    from menpo.io.input import extensions as ix
    seen = {}

    class Stop(Exception):
        pass

    def rec_export(obj, fp, extensions_map, *a, **k):
        seen["ex"] = extensions_map
        raise Stop()

    def rec_parse(filepath, extension, extensions_map):
        seen["ex"] = extensions_map
        raise Stop()

    def rec_import(filepath, extensions_map, *a, **k):
        seen["im"] = extensions_map
        raise Stop()

    def observe(key, fn, *args):
        seen.pop(key, None)
        try:
            fn(*args)
        except Stop:
            pass
        except Exception:       # noqa: BLE001 - the fallback below is used
            pass
        return seen.get(key)

    how = "observed through export_* / import_*"
    saved = {}
    ex, im = {}, {}
    try:
        for mod, nm, repl in ((ob, "_export", rec_export), (ob, "_export_paths_only", rec_export),
                              (ob, "_parse_and_validate_extension", rec_parse), (ib, "_import", rec_import)):
            saved[(mod, nm)] = getattr(mod, nm)
            setattr(mod, nm, repl)
        nowhere = "/nonexistent-c16/x"
        ex["landmark"] = observe("ex", mio.export_landmark_file, None, nowhere + ".ljson")
        ex["image"] = observe("ex", mio.export_image, None, nowhere + ".png")
        ex["pickle"] = observe("ex", mio.export_pickle, None, nowhere + ".pkl")
        ex["video"] = observe("ex", mio.export_video, [], nowhere + ".mp4")
        im["landmark"] = observe("im", mio.import_landmark_file, nowhere + ".ljson")
        im["image"] = observe("im", mio.import_image, nowhere + ".png")
        im["pickle"] = observe("im", mio.import_pickle, nowhere + ".pkl")
        im["video"] = observe("im", mio.import_video, nowhere + ".mp4")
    except AttributeError:
        pass
    finally:
        for (mod, nm), f in saved.items():
            setattr(mod, nm, f)
    fb_ex = {"landmark": ox.landmark_types, "image": ox.image_types, "pickle": ox.pickle_types, "video": ox.video_types}
    fb_im = {"landmark": ix.image_landmark_types, "image": ix.image_types, "pickle": ix.pickle_types,
             "video": ix.ffmpeg_video_types}
    for k in KINDS:
        if not isinstance(ex.get(k), dict):
            ex[k] = fb_ex[k]
            how = "module-level dictionaries (a public entry point could not be observed)"
        if not isinstance(im.get(k), dict):
            im[k] = fb_im[k]
            how = "module-level dictionaries (a public entry point could not be observed)"
    t = {"how": how}
    try:
        import io
        import numpy as np
        from menpo.shape import PointCloud
        import menpo.io.input.landmark as il
        from menpo.io.output.landmark import ljson_exporter
        t["ljsonParsers"] = sorted((int(v), callable_name(f)) for v, f in il._ljson_parser_for_version.items())
        buf = io.BytesIO()
        ljson_exporter(PointCloud(np.zeros((1, 2))), buf)
        t["ljsonExportedVersion"] = int(json.loads(buf.getvalue().decode("utf8"))["version"])
    except Exception as e:                          # noqa: BLE001 - reported through the obligation
        t.setdefault("ljsonParsers", [])
        t.setdefault("ljsonExportedVersion", 0)
        t["ljson_table_error"] = "%s: %s" % (type(e).__name__, e)
    for k in KINDS:
        t[k + "Exporters"] = sorted((str(e), callable_name(f)) for e, f in ex[k].items())
        t[k + "Importers"] = sorted((str(e), callable_name(f)) for e, f in im[k].items())
    return t


def generated_text(t):
    def st(x):
        return '"%s"' % str(x).replace("\\", "\\\\").replace('"', '\\"')

    body = []
    for k in KINDS:
        for side in ("Exporters", "Importers"):
            rows = t[k + side]
            body.append("def %s%s : List (String × String) :=\n  [%s]\n" % (
                k, side, ",\n   ".join("(%s, %s)" % (st(e), st(f)) for e, f in rows)))
    body.append("def ljsonParsers : List (Nat × String) :=\n  [%s]\n" % ", ".join(
        "(%d, %s)" % (v, st(f)) for v, f in t["ljsonParsers"]))
    body.append("def ljsonExportedVersion : Nat := %d\n" % t["ljsonExportedVersion"])
    return ("/- REGENERATED by harness/c16.py from the live menpo code on every run: the extension dictionaries the public\n"
            "   export_landmark_file / export_image / export_pickle / export_video and import_landmark_file / import_image /\n"
            "   import_pickle / import_video hand to the shared export / import machinery, as (extension, name of the\n"
            "   callable) sorted by extension; `_ljson_parser_for_version` (version, parser) and the version number a file\n"
            "   written by `ljson_exporter` carries.  Do not edit. -/\n"
            "namespace MenpoModel.Generated.C16\n\n" + "\n".join(body) + "\nend MenpoModel.Generated.C16\n")


def generated(ctx):
    t = live_tables()
    ctx.notes["live_tables"] = t
    ok = common.build_generated(ctx, {"MenpoModel/Generated/C16Tables.lean": generated_text(t)}, GEN_TARGETS,
                                len(GEN_THEOREMS))
    if not ok and ctx.broken_obligations:
        ctx.broken_obligations[-1]["obligation"] = "MenpoModel.GenProps.C16 (exporterLive_ok / importerLive_ok / " \
                                                   "live_tables_ok / export_import_agree_live / ljsonParsers_ok / " \
                                                   "ljsonExportedVersion_ok)"
        ctx.broken_obligations[-1]["observed"] = t
    return ok


def generated_src(ctx):
    """the io plumbing TRANSLATED from the source text of the working tree (harness/trans_c16.py) and proved equal to
    its specification (GenProps/C16Src*.lean); returns (modules to audit, theorems to audit) of the units that check"""
    from . import trans_c16
    mods, thms = [], []
    notes = ctx.notes.setdefault("translated_from_source", {})
    broken = False
    for u in trans_c16.units():
        if "text" not in u:                           # theorems about the translated functions of the units before
            if broken:                                # already reported with the unit that broke
                ctx.gen_obligations += len(u["theorems"])
                notes[u["name"]] = {"status": "not built: a unit it is about no longer checks"}
                continue
            ok = common.build_generated(ctx, {}, u["targets"], len(u["theorems"]))
            notes[u["name"]] = {"status": "ok" if ok else "broken"}
            if ok:
                mods.append(u["targets"][-1])
                thms += u["theorems"]
            elif ctx.broken_obligations:
                ctx.broken_obligations[-1]["obligation"] = "theorems about the translated functions: " + ", ".join(
                    t.split(".")[-1] for t in u["theorems"])
            continue
        try:
            text, why = u["text"]()
        except Exception as e:                       # noqa: BLE001 - the source no longer has the shape of a function
            text, why = None, ["%s: %s" % (type(e).__name__, e)]
        notes[u["name"]] = {"functions": u["functions"], "status": "ok" if not why else "untranslatable: " + "; ".join(why)}
        if text is None:
            broken = broken or not u.get("independent")
            ctx.gen_obligations += len(u["theorems"])
            ctx.broken_obligations.append({"targets": u["targets"], "errors": why, "obligation": "translation of " +
                                           ", ".join(u["functions"])})
            continue
        if broken and not u.get("independent"):      # it imports a unit that no longer checks
            common.write_if_changed(os.path.join(common.LEAN, u["rel"]), text)
            ctx.gen_obligations += len(u["theorems"])
            notes[u["name"]]["status"] += " (not built: it imports a unit that no longer checks)"
            continue
        ok = common.build_generated(ctx, {u["rel"]: text}, u["targets"], len(u["theorems"]))
        if ok:
            mods.append(u["targets"][1])
            thms += u["theorems"]
        else:
            broken = broken or not u.get("independent")
            if ctx.broken_obligations:
                ctx.broken_obligations[-1]["obligation"] = "translated = specification for " + ", ".join(u["functions"])
                ctx.broken_obligations[-1]["untranslatable"] = why
    return mods, thms


# --------------------------------------------------------------------------------------------- scratch

class Scratch:
    """a temporary directory outside /verif and /repo; cwd restored and directory removed on exit"""

    def __enter__(self):
        self.old = os.getcwd()
        self.d = os.path.realpath(tempfile.mkdtemp(prefix="c16-"))
        return self.d

    def __exit__(self, *exc):
        os.chdir(self.old)
        shutil.rmtree(self.d, ignore_errors=True)
        return False


def snapshot(d):
    """{relative path: sha256 of the bytes} of every file below d"""
    out = {}
    for root, _, files in os.walk(d):
        for fn in files:
            p = os.path.join(root, fn)
            with open(p, "rb") as f:
                out[os.path.relpath(p, d)] = hashlib.sha256(f.read()).hexdigest()
    return out


# --------------------------------------------------------------------------------------------- run

class Run:
    def __init__(self, ctx, model=True):
        self.ctx = ctx
        self.model = model
        self.lines = []
        self.pending = {}
        self.u8_obs = {}       # eight-bit value -> set of values that came back after normalise -> export -> import
        self.q8_obs = {}       # m (pixel = m/1024) -> set of stored levels
        self.guard_variants = set()   # which of the two modelled `_export_paths_only` a discriminating history matched
        self.landmark_variants = set()  # export_landmark_file: dictionary check before the guard / guard first
        self.codecs = None

    def ask(self, op, args, expect, replay):
        """queue a model query; `expect` = the reply the implementation's behaviour corresponds to"""
        if not self.model:
            return
        cid = "q%d" % len(self.lines)
        self.lines.append("%s %s %s" % (cid, op, args))
        self.pending[cid] = (op, expect, replay)

    def settle(self):
        if not self.model:
            return
        ctx = self.ctx
        ks = sorted(self.u8_obs)
        ms = sorted(self.q8_obs)
        for k in ks:
            self.lines.append("u8_%d u8 %d" % (k, k))
        for m in ms:
            self.lines.append("q8_%d q8 %s" % (m, fq(F(m, 1024))))
        if not self.lines:
            return
        model = common.run_driver(PROP, self.lines)
        for cid, (op, expect, rp) in self.pending.items():
            rep = model[cid]
            if callable(expect):
                msg = expect(rep)
                if msg:
                    ctx.mismatch(op, msg, rp)
            elif rep != expect:
                ctx.mismatch(op, "model %r vs implementation %r" % (rep[:400], expect[:400]), rp)
        # the range conversion: the implementation must be one of the two modelled conversions, uniformly
        variants = set()
        for k in ks:
            t, r = [int(x) for x in model["u8_%d" % k].split()[1:]]
            got = self.u8_obs[k]
            if got == {r}:
                variants.add("round" if t != r else "either")
            elif got == {t}:
                variants.add("trunc")
            else:
                ctx.mismatch("u8", "eight-bit value %d came back as %r; model: coded %d, repaired %d" % (k, sorted(got), t, r),
                             {"case": {"kind": "u8", "k": k}})
        for m in ms:
            t, r = [int(x) for x in model["q8_%d" % m].split()[1:]]
            got = self.q8_obs[m]
            if got == {r}:
                variants.add("round" if t != r else "either")
            elif got == {t}:
                variants.add("trunc")
            else:
                ctx.mismatch("q8", "float pixel %d/1024 stored as %r; model: coded %d, repaired %d" % (m, sorted(got), t, r),
                             {"case": {"kind": "q8", "m": m}})
        variants.discard("either")
        # both repairs have landed in /repo: the earlier variants are a regression of the correspondence
        if "trunc" in variants:
            ctx.mismatch("u8", "the range conversion matches the earlier truncating model, not np.round", {"variants": sorted(variants)})
        if "coded" in self.guard_variants:
            ctx.mismatch("guard", "_export_paths_only matches the earlier model (checked one spelling, wrote another)",
                         {"variants": sorted(self.guard_variants)})
        if len(variants) > 1:
            ctx.mismatch("u8", "the range conversion is neither uniformly the coded (truncating) nor uniformly the "
                               "repaired (rounding) model", {"variants": sorted(variants)})
        if len(self.guard_variants) > 1:
            ctx.mismatch("guard", "export histories match neither uniformly the coded nor uniformly the repaired "
                                  "`_export_paths_only`", {"variants": sorted(self.guard_variants)})
        if len(self.landmark_variants) > 1:
            ctx.mismatch("guard", "export histories match neither uniformly the check-first nor uniformly the guard-first "
                                  "`export_landmark_file`", {"variants": sorted(self.landmark_variants)})
        ctx.notes["export_landmark_file_variant_observed"] = sorted(self.landmark_variants)[0] if len(
            self.landmark_variants) == 1 else ("undetermined" if not self.landmark_variants else "mixed")
        ctx.notes["export_paths_only_variant_observed"] = sorted(self.guard_variants)[0] if len(
            self.guard_variants) == 1 else ("undetermined" if not self.guard_variants else "mixed")
        ctx.notes["denormalize_variant_observed"] = sorted(variants)[0] if len(variants) == 1 else (
            "undetermined" if not variants else "mixed")


def rp_of(params):
    return {"case": params, "rerun": "cd /verif && ./check C16 --replay <this file>"}


# --------------------------------------------------------------------------------------------- shapes

def und_edges(g):
    """the undirected edge set of a generated group, as sorted pairs (independent of menpo)"""
    if g["cls"] == "PointCloud":
        return set()
    if g["cls"] == "TriMesh":
        s = set()
        for a, b, c in g["trilist"]:
            for u, v in ((a, b), (b, c), (a, c)):
                s.add((min(u, v), max(u, v)))
        return s
    return {(min(a, b), max(a, b)) for a, b in g["edges"]}


def build_shape(g):
    import numpy as np
    from collections import OrderedDict
    import menpo.shape as ms
    n, d = len(g["points"]), g["dim"]
    pts = np.array([[np.nan if v is None else v for v in row] for row in g["points"]], dtype=float).reshape(n, d)
    E = np.array(g.get("edges", []), dtype=int).reshape(-1, 2)
    cls = g["cls"]
    if cls == "PointCloud":
        return ms.PointCloud(pts)
    if g.get("removed") and cls in ("PointUndirectedGraph", "LabelledPointUndirectedGraph"):
        import warnings
        R = np.array(g["removed"], dtype=int).reshape(-1, 2)
        if cls == "PointUndirectedGraph":
            o = ms.PointUndirectedGraph.init_from_edges(pts, np.vstack([E, R]))
        else:
            o = ms.LabelledPointUndirectedGraph.init_from_edges(
                pts, np.vstack([E, R]), OrderedDict((l, np.array(m, dtype=bool)) for l, m in g["labels"]))
        with warnings.catch_warnings():
            warnings.simplefilter("ignore")
            for a, b in g["removed"]:
                o.adjacency_matrix[a, b] = 0
                o.adjacency_matrix[b, a] = 0
        return o
    if cls == "PointUndirectedGraph":
        return ms.PointUndirectedGraph.init_from_edges(pts, E)
    if cls == "PointDirectedGraph":
        return ms.PointDirectedGraph.init_from_edges(pts, E)
    if cls == "PointTree":
        return ms.PointTree.init_from_edges(pts, E, root_vertex=g["root"])
    if cls == "TriMesh":
        return ms.TriMesh(pts, trilist=np.array(g["trilist"], dtype=int).reshape(-1, 3))
    if cls == "LabelledPointUndirectedGraph":
        return ms.LabelledPointUndirectedGraph.init_from_edges(
            pts, E, OrderedDict((l, np.array(m, dtype=bool)) for l, m in g["labels"]))
    raise ValueError(cls)


def gen_coord(rng):
    r = rng.random()
    if r < 0.12:
        return None
    if r < 0.7:
        return common.dyadic(rng, 4096, 6)
    if r < 0.8:
        return rng.choice([0.1, -0.2, 1e-17, 1.7976931348623157e308, 5e-324, 123456.789, -0.0, 1 / 3.0])
    return rng.uniform(-1000, 1000)


def gen_group(rng, name, d=None, cls=None):
    d = d or rng.choice([2, 2, 3])
    cls = cls or rng.choice(["PointCloud", "PointUndirectedGraph", "PointDirectedGraph", "PointTree", "TriMesh",
                             "LabelledPointUndirectedGraph", "LabelledPointUndirectedGraph"])
    n = rng.randint(1, 8)
    if cls == "TriMesh":
        n = max(n, 3)
    if cls == "PointTree":
        n = max(n, 2)                              # a tree cannot have isolated vertices
    g = {"name": name, "cls": cls, "dim": d, "points": [[gen_coord(rng) for _ in range(d)] for _ in range(n)]}
    if cls in ("PointUndirectedGraph", "PointDirectedGraph", "LabelledPointUndirectedGraph"):
        pairs = [(a, b) for a in range(n) for b in range(n) if a != b]
        k = 0 if (not pairs or rng.random() < 0.25) else rng.randint(1, min(len(pairs), 7))
        g["edges"] = [list(p) for p in rng.sample(pairs, k)]
        if cls != "PointDirectedGraph" and pairs and rng.random() < 0.3:
            # edges that existed and were removed in place (adjacency_matrix[i, j] = 0 leaves an explicitly stored
            # zero in the sparse matrix): not edges of the exported object (seeded C16-4 wrote them to the file)
            have = {(min(a, b), max(a, b)) for a, b in g["edges"]}
            cand = sorted({(min(a, b), max(a, b)) for a, b in pairs} - have)
            if cand:
                g["removed"] = [list(p) for p in rng.sample(cand, rng.randint(1, min(3, len(cand))))]
    if cls == "PointTree":
        order = list(range(n))
        rng.shuffle(order)
        g["root"] = order[0]
        g["edges"] = [[order[rng.randrange(i)], order[i]] for i in range(1, n)]
    if cls == "TriMesh":
        g["trilist"] = [rng.sample(range(n), 3) for _ in range(rng.randint(1, 4))]
    if cls == "LabelledPointUndirectedGraph":
        nl = rng.randint(1, 4)
        names = rng.sample(UNICODE_NAMES, nl)      # not sorted: the order is part of the data
        masks = [[1 if rng.random() < 0.5 else 0 for _ in range(n)] for _ in range(nl)]
        for i in range(n):                         # every point must carry a label
            if not any(m[i] for m in masks):
                masks[rng.randrange(nl)][i] = 1
        g["labels"] = [[l, m] for l, m in zip(names, masks)]
    return g


def gen_ljson(rng):
    container = rng.choice(["single", "dict", "manager", "manager"])
    if container == "single":
        groups = [gen_group(rng, "LJSON")]
    else:
        d = rng.choice([2, 2, 3])
        names = rng.sample(UNICODE_NAMES, rng.randint(1, 4))
        groups = [gen_group(rng, nm, d=d) for nm in names]
    # an upper-case suffix is accepted for a single shape only (export_landmark_file compares `Path(fp).suffix`
    # with '.ljson' literally when given a dictionary / manager): outside the property's quantifier, not generated
    files = ["lm.ljson", "a.b.ljson", ".hidden.ljson", "x.tar.ljson", "x.pkl.copy.ljson", "a.gz.b.ljson",
             "scan.tar.gz.v2.ljson", "y.pts.ljson", "z.PKL.GZ.ljson", "w..ljson"]
    if container == "single":
        files += ["x.tar.LJSON", "x.PKL.GZ.LJson", "a.pts.gz.lJSON"]
    return {"kind": "ljson", "container": container, "groups": groups, "file": rng.choice(files),
            "as_path": rng.random() < 0.5, "cycles": rng.choice([0, 0, 1, 2])}


def label_masks(shape):
    """ordered [(label, [bits])] of an imported shape (empty for unlabelled classes)"""
    labels = list(getattr(shape, "labels", []))
    if not labels:
        return []
    n = shape.n_points
    by = {e["label"]: e["mask"] for e in shape.tojson()["labels"]}
    return [[l, [1 if i in set(by[l]) else 0 for i in range(n)]] for l in labels]


def fcoord(v):
    import math
    return "nan" if (v is None or (isinstance(v, float) and math.isnan(v))) else fq(v)


def case_ljson(run, p):
    import numpy as np
    import menpo.io as mio
    from menpo.shape import PointCloud
    from pathlib import Path
    ctx = run.ctx
    site = "C16/ljson"
    groups = p["groups"]
    rp = rp_of(p)
    ctx.case(("ljson", json.dumps(p, sort_keys=True)), nontrivial=sum(len(g["points"]) for g in groups) > 1,
             sample={"kind": "ljson", "container": p["container"], "classes": [g["cls"] for g in groups],
                     "names": [g["name"] for g in groups]})
    for g in groups:
        ctx.count("ljson:%s:%dD" % (g["cls"], g["dim"]))
    ctx.count("ljson:container:" + p["container"])
    shapes = {g["name"]: build_shape(g) for g in groups}
    with Scratch() as d:
        fp = os.path.join(d, p["file"])
        fp = Path(fp) if p.get("as_path") else fp
        try:
            if p["container"] == "single":
                obj = shapes["LJSON"]
            elif p["container"] == "dict":
                obj = dict(shapes)
            else:
                holder = PointCloud(np.zeros((1, groups[0]["dim"])))
                for k, v in shapes.items():
                    holder.landmarks[k] = v
                obj = holder.landmarks
            mio.export_landmark_file(obj, fp)
            back = mio.import_landmark_file(fp)
        except Exception as e:
            ctx.fail(site, "raises", "export/import of a valid landmark dictionary raised %s: %s" % (type(e).__name__, e), rp)
            return
        # ---- further cycles: the first import is a fixed point (ljson_cycle_fixed_point)
        prev = back
        for c in range(p.get("cycles", 0)):
            ctx.count("ljson:further-cycle")
            try:
                fp2 = os.path.join(d, "cycle%d.%s" % (c, os.path.basename(str(fp))))
                mio.export_landmark_file(dict(prev) if len(prev) != 1 or p["container"] != "single" else
                                         list(prev.values())[0], fp2)
                nxt = mio.import_landmark_file(fp2)
            except Exception as e:
                ctx.fail(site + "/cycle", "raises", "re-exporting the imported groups raised %s: %s" % (type(e).__name__, e), rp)
                break
            same = list(nxt.keys()) == list(prev.keys())
            for k in prev:
                a, b2 = prev[k], nxt.get(k)
                same = same and b2 is not None and type(a) is type(b2) and a.points.shape == b2.points.shape and bool(
                    np.array_equal(a.points, b2.points, equal_nan=True)) and a.edges.tolist() == b2.edges.tolist() and \
                    label_masks(a) == label_masks(b2)
            ctx.check(same, site + "/cycle", "not-a-fixed-point",
                      "cycle %d: importing the re-exported groups returned something else than the previous import" % (c + 2), rp)
            prev = nxt
        # ---- oracle: the property text
        ctx.check(set(back.keys()) == set(shapes.keys()), site + "/groups", "names-differ",
                  "group names %r came back as %r" % (sorted(shapes), sorted(back.keys())), rp)
        for g in groups:
            b = back.get(g["name"])
            if b is None:
                continue
            want = np.array([[np.nan if v is None else v for v in row] for row in g["points"]], dtype=float)
            want = want.reshape(len(g["points"]), g["dim"])
            ctx.check(b.points.shape == want.shape and bool(np.array_equal(b.points, want, equal_nan=True)),
                      site + "/points", "coordinates-differ",
                      "group %r (%s): coordinates %r came back as %r" % (g["name"], g["cls"], want.tolist(), b.points.tolist()), rp)
            be = [tuple(sorted(e)) for e in getattr(b, "edges", np.zeros((0, 2), int)).tolist()]
            ctx.check(set(be) == und_edges(g) and len(be) == len(set(be)), site + "/edges", "edge-set-differs",
                      "group %r (%s): undirected edges %r came back as %r" % (g["name"], g["cls"], sorted(und_edges(g)), sorted(be)), rp)
            want_l = [[l, list(m)] for l, m in g.get("labels", [])]
            ctx.check(label_masks(b) == want_l, site + "/labels", "labels-differ",
                      "group %r: ordered labels %r came back as %r" % (g["name"], want_l, label_masks(b)), rp)
        # ---- model
        gid = {nm: "g%03d" % i for i, nm in enumerate(sorted(shapes))}
        lid = {}
        req, exp = [str(len(groups))], [str(len(back))]
        for g in sorted(groups, key=lambda x: x["name"]):
            n = len(g["points"])
            req += [gid[g["name"]], str(n), str(g["dim"])] + [fcoord(v) for row in g["points"] for v in row]
            if g["cls"] == "PointCloud":
                req.append("-1")
            else:
                es = sorted(und_edges(g)) if g["cls"] == "TriMesh" else [tuple(e) for e in g["edges"]]
                req += [str(len(es))] + [str(x) for e in es for x in e]
            labs = g.get("labels", [])
            req.append(str(len(labs)))
            for l, m in labs:
                req += [lid.setdefault(l, "l%d" % len(lid))] + [str(int(x)) for x in m]
        for nm in sorted(back.keys()):
            b = back[nm]
            be = sorted(tuple(e) for e in getattr(b, "edges", np.zeros((0, 2), int)).tolist())
            lm = label_masks(b)
            exp += [gid.get(nm, "g???"), type(b).__name__, str(b.n_points), str(b.n_dims)]
            exp += [fcoord(float(v)) for v in b.points.ravel()]
            exp += [str(len(be))] + [str(x) for e in be for x in e]
            exp += [str(len(lm))]
            for l, m in lm:
                exp += [lid.get(l, "l???")] + [str(int(x)) for x in m]
        run.ask("ljson", " ".join(req), "ok " + " ".join(exp), rp)
        # the specification of the TRANSLATED _parse_ljson_v3 on the typed form of the exported document
        run.ask("v3parse", " ".join(req), "ok " + " ".join(exp), rp)
        # the DOCUMENT the translated ljson_exporter writes (value tree of the file, keys in file order, exact numbers);
        # the connectivity handed to the model is what tojson() of the real shape holds
        try:
            with open(str(fp), "rb") as fh:
                from collections import OrderedDict
                doc = json.loads(fh.read().decode("utf8"), object_pairs_hook=OrderedDict)
            req2 = [str(len(groups))]
            for g in sorted(groups, key=lambda x: x["name"]):
                n = len(g["points"])
                req2 += [gid[g["name"]], str(n), str(g["dim"])] + [fcoord(v) for row in g["points"] for v in row]
                conn = shapes[g["name"]].tojson()["landmarks"].get("connectivity")
                req2 += ["-1"] if conn is None else [str(len(conn))] + [str(int(x)) for e in conn for x in e]
                labs = g.get("labels", [])
                req2.append(str(len(labs)))
                for l, m in labs:
                    req2 += [lid.setdefault(l, "l%d" % len(lid))] + [str(int(x)) for x in m]
        except Exception:                            # noqa: BLE001 - the oracle above has already judged the round trip
            doc = None
        if doc is not None:
            def canon(x, where=()):
                if isinstance(x, dict):
                    items = []
                    for k, v in x.items():
                        kk = gid.get(k, "g???") if where[-1:] == ("groups",) else k
                        items.append("%s:%s" % (kk, canon(v, where + (k,))))
                    return "{" + ",".join(items) + "}"
                if isinstance(x, list):
                    return "[" + ",".join(canon(v, where) for v in x) + "]"
                if x is None:
                    return "null"
                if isinstance(x, str):
                    return '"%s"' % lid.get(x, "l???")
                return fq(x)
            run.ask("ljsondoc", " ".join(req2), "ok " + canon(doc), rp)
        else:
            ctx.count("ljsondoc:skipped")


def case_ljson_empty(run, p):
    """outside the property's quantifier (no point at all): correspondence of the modelled error branch only"""
    import numpy as np
    import menpo.io as mio
    from menpo.shape import PointCloud
    ctx = run.ctx
    ctx.case(("ljson-empty", p["dim"]), nontrivial=False)
    ctx.count("ljson:empty-pointcloud(correspondence only)")
    with Scratch() as d:
        fp = os.path.join(d, "e.ljson")
        try:
            mio.export_landmark_file(PointCloud(np.zeros((0, p["dim"]))), fp)
            mio.import_landmark_file(fp)
            obs = "ok 1 g000 PointUndirectedGraph 0 %d 0 0" % p["dim"]
        except IndexError:
            obs = "err empty-points"
        except Exception as e:
            obs = "err " + type(e).__name__
    run.ask("ljson", "1 g000 0 %d -1 0" % p["dim"], obs, rp_of(p))


# --------------------------------------------------------------------------------------------- LJSON v1 / v2 (import only)

ERR_CLASSES = {"empty-points": ("IndexError",), "edge-out-of-range": ("ValueError",), "empty-labels": ("ValueError",),
               "unlabelled-point": ("ValueError",), "unknown-version": ("ValueError",),
               "malformed": ("ValueError", "IndexError", "KeyError", "TypeError")}


def gen_rows(rng, n, d):
    return [[gen_coord(rng) for _ in range(d)] for _ in range(n)]


def gen_legacy(rng):
    """a version-1 or version-2 LJSON document (the exporter cannot write them: the harness writes the file).
    `defect` names the one thing wrong with it (None = a valid document)"""
    v = rng.choice([1, 2])
    d = rng.choice([2, 2, 3, 1, 4])
    defect = rng.choice([None] * 6 + ["unlabelled", "edge-oob", "dup-label", "empty", "ragged"] +
                        (["edges-no-label"] if v == 2 else []))
    names = rng.sample(UNICODE_NAMES, rng.randint(1, 4))
    if v == 2:
        n = rng.randint(1, 7)
        rows = gen_rows(rng, n, d)
        pairs = [(a, b) for a in range(n) for b in range(n)]
        conn = rng.choice([None, "null", "list", "list"])
        edges = None if conn is None else ("null" if conn == "null" else [list(e) for e in rng.sample(
            pairs, rng.randint(0, min(len(pairs), 5)))])
        plain = rng.random() < 0.25
        labels = []
        if not plain:
            masks = [[i for i in range(n) if rng.random() < 0.5] for _ in names]
            for i in range(n):
                if not any(i in m for m in masks):
                    masks[rng.randrange(len(names))].append(i)     # unsorted, repeated indices are fine
            labels = [[l, m] for l, m in zip(names, masks)]
        elif edges not in (None, "null"):
            edges = rng.choice([None, "null"])
        if defect == "unlabelled" and labels:
            k = rng.randrange(n)
            labels = [[l, [i for i in m if i != k]] for l, m in labels]
        elif defect == "edge-oob" and labels:
            edges = [[0, n + rng.randint(0, 2)]]
        elif defect == "dup-label" and len(labels) > 1:
            labels[-1][0] = labels[0][0]
        elif defect == "empty":
            rows = []
        elif defect == "ragged" and n > 1 and d > 1:
            rows[-1] = rows[-1][:-1]
        elif defect == "edges-no-label":
            labels, edges = [], [[0, n - 1]]
        else:
            defect = None
        return {"kind": "legacy", "version": 2, "rows": rows, "edges": edges, "labels": labels, "defect": defect}
    groups = []
    for l in names:
        n = rng.randint(0 if rng.random() < 0.1 else 1, 4)
        pairs = [(a, b) for a in range(n) for b in range(n)]
        conn = rng.choice([None, "null", "list", "list"])
        edges = None if conn is None else ("null" if conn == "null" else [list(e) for e in rng.sample(
            pairs, rng.randint(0, min(len(pairs), 4)))])
        groups.append({"label": l, "rows": gen_rows(rng, n, d), "edges": edges})
    total = sum(len(g["rows"]) for g in groups)
    if defect == "edge-oob" and total:
        groups[-1]["edges"] = [[0, len(groups[-1]["rows"]) + rng.randint(0, 1)]]
    elif defect == "dup-label" and len(groups) > 1 and groups[0]["rows"]:
        groups[-1]["label"] = groups[0]["label"]
    elif defect == "empty":
        groups = [dict(g, rows=[], edges=None) for g in groups][:rng.randint(0, 2)]
    elif defect == "ragged" and total > 1 and d > 1:
        g = [g for g in groups if g["rows"]][-1]
        g["rows"][-1] = g["rows"][-1][:-1]
    else:
        defect = None
    if total == 0:
        defect = "empty"
    return {"kind": "legacy", "version": 1, "groups": groups, "defect": defect}


def legacy_document(p):
    def pt(row):
        return [None if v is None else v for v in row]
    if p["version"] == 2:
        lm = {"points": [pt(r) for r in p["rows"]]}
        if p["edges"] is not None:
            lm["connectivity"] = None if p["edges"] == "null" else p["edges"]
        return {"version": 2, "labels": [{"label": l, "mask": m} for l, m in p["labels"]], "landmarks": lm}
    gs = []
    for g in p["groups"]:
        o = {"label": g["label"], "landmarks": [{"point": pt(r)} for r in g["rows"]]}
        if g["edges"] is not None:
            o["connectivity"] = None if g["edges"] == "null" else g["edges"]
        gs.append(o)
    return {"version": 1, "groups": gs}


def legacy_expected(p):
    """what the document says, independent of menpo and of the model: (rows, undirected edge set, ordered masks)"""
    if p["version"] == 2:
        rows = p["rows"]
        n = len(rows)
        edges = [] if p["edges"] in (None, "null") else p["edges"]
        labels = [[l, [1 if i in m else 0 for i in range(n)]] for l, m in p["labels"]]
    else:
        rows, edges, labels, off = [], [], [], 0
        total = sum(len(g["rows"]) for g in p["groups"])
        for g in p["groups"]:
            k = len(g["rows"])
            rows += g["rows"]
            if g["edges"] not in (None, "null"):
                edges += [[a + off, b + off] for a, b in g["edges"]]
            labels.append([g["label"], [1 if off <= i < off + k else 0 for i in range(total)]])
            off += k
    return rows, {(min(a, b), max(a, b)) for a, b in edges}, labels


def legacy_request(p, lid):
    def rows_tok(rows):
        out = [str(len(rows))]
        for r in rows:
            out += [str(len(r))] + [fcoord(v) for v in r]
        return out

    def edges_tok(e):
        if e is None:
            return ["-2"]
        if e == "null":
            return ["-1"]
        return [str(len(e))] + [str(x) for pr in e for x in pr]
    if p["version"] == 2:
        req = rows_tok(p["rows"]) + edges_tok(p["edges"]) + [str(len(p["labels"]))]
        for l, m in p["labels"]:
            req += [lid.setdefault(l, "l%d" % len(lid)), str(len(m))] + [str(i) for i in m]
        return "ljson2", " ".join(req)
    req = [str(len(p["groups"]))]
    for g in p["groups"]:
        req += [lid.setdefault(g["label"], "l%d" % len(lid))] + rows_tok(g["rows"]) + edges_tok(g["edges"])
    return "ljson1", " ".join(req)


def case_legacy(run, p):
    import numpy as np
    import menpo.io as mio
    ctx = run.ctx
    rp = rp_of(p)
    site = "C16/ljson-v%d" % p["version"]
    rows, want_edges, want_labels = legacy_expected(p)
    ctx.case(("legacy", json.dumps(p, sort_keys=True)), nontrivial=len(rows) > 1,
             sample={"kind": "legacy", "version": p["version"], "defect": p["defect"], "n": len(rows)})
    ctx.count("legacy:v%d:%s" % (p["version"], p["defect"] or "valid"))
    exc = None
    with Scratch() as d:
        fp = os.path.join(d, "old.v%d.ljson" % p["version"])
        with open(fp, "w") as f:
            json.dump(legacy_document(p), f)
        try:
            back = mio.import_landmark_file(fp)
        except Exception as e:                            # noqa: BLE001
            exc = e
    lid = {}
    op, req = legacy_request(p, lid)
    if exc is not None:
        ctx.check(p["defect"] is not None, site, "raises",
                  "import of a valid version-%d document raised %s: %s" % (p["version"], type(exc).__name__, exc), rp)

        def cmp_err(rep, exc=exc):
            parts = rep.split()
            if parts[0] != "err" or type(exc).__name__ not in ERR_CLASSES.get(parts[1], ()):
                return "model %r vs implementation %s: %s" % (rep[:200], type(exc).__name__, exc)
            return None
        run.ask(op, req, cmp_err, rp)
        return
    # ---- oracle: what the document says is what is imported, and every imported group is well formed
    ctx.check(list(back.keys()) == ["LJSON"], site + "/groups", "names-differ",
              "a version-%d document came back with groups %r" % (p["version"], list(back.keys())), rp)
    b = list(back.values())[0]
    want = np.array([[np.nan if v is None else v for v in r] for r in rows], dtype=float)
    ctx.check(p["defect"] in (None, "dup-label"), site, "accepted-defective-document",
              "a version-%d document with defect %r was imported" % (p["version"], p["defect"]), rp)
    ctx.check(b.points.shape == want.shape and bool(np.array_equal(b.points, want, equal_nan=True)), site + "/points",
              "coordinates-differ", "coordinates %r came back as %r" % (want.tolist(), b.points.tolist()), rp)
    be = [tuple(sorted(e)) for e in getattr(b, "edges", np.zeros((0, 2), int)).tolist()]
    ctx.check(set(be) == want_edges and len(be) == len(set(be)), site + "/edges", "edge-set-differs",
              "undirected edges %r came back as %r" % (sorted(want_edges), sorted(be)), rp)
    if p["defect"] is None:
        ctx.check(label_masks(b) == want_labels, site + "/labels", "labels-differ",
                  "ordered labels %r came back as %r" % (want_labels, label_masks(b)), rp)
    lm = label_masks(b)
    exp = ["1", "LJSON", type(b).__name__, str(b.n_points), str(b.n_dims)] + [fcoord(float(v)) for v in b.points.ravel()]
    bes = sorted(tuple(e) for e in getattr(b, "edges", np.zeros((0, 2), int)).tolist())
    exp += [str(len(bes))] + [str(x) for e in bes for x in e] + [str(len(lm))]
    for l, m in lm:
        exp += [lid.get(l, "l???")] + [str(int(x)) for x in m]
    run.ask(op, req, "ok " + " ".join(exp), rp)


# --------------------------------------------------------------------------------------------- pts

def gen_pts(rng):
    n = rng.randint(1, 10)
    pts = []
    for _ in range(n):
        row = []
        for _ in range(2):
            r = rng.random()
            if r < 0.6:
                row.append(common.dyadic(rng, 4096, 6))
            elif r < 0.8:   # exact ties of the third decimal: k + 1/16, k + 3/16, ...
                row.append(rng.randint(-50, 500) + rng.choice([1, 3, 5, 7, 9, 11, 13, 15]) / 16.0)
            else:
                row.append(float(rng.randint(-3, 600)))
        pts.append(row)
    cls = rng.choice(["PointCloud", "PointCloud", "PointUndirectedGraph", "TriMesh"])
    return {"kind": "pts", "cls": cls, "points": pts, "file": rng.choice(["s.pts", "img.v2.pts", "x.PTS", "s.ljson.pts", "a.gz.b.pts", "x.pkl.gz.PTS", "m.tar.Pts"]),
            "as_path": rng.random() < 0.5}


def case_pts(run, p):
    import numpy as np
    import menpo.io as mio
    from pathlib import Path
    ctx = run.ctx
    site = "C16/pts"
    rp = rp_of(p)
    pts = p["points"]
    n = len(pts)
    ctx.case(("pts", json.dumps(p, sort_keys=True)), nontrivial=n > 1, sample={"kind": "pts", "cls": p["cls"], "points": pts[:3]})
    ctx.count("pts:" + p["cls"])
    g = {"cls": p["cls"], "dim": 2, "points": pts, "edges": [[0, n - 1]] if n > 1 else [],
         "trilist": [[0, 1 % n, 2 % n]] if n >= 3 else []}
    if p["cls"] == "TriMesh" and n < 3:
        g["cls"] = "PointCloud"
    with Scratch() as d:
        fp = os.path.join(d, p["file"])
        fp = Path(fp) if p.get("as_path") else fp
        try:
            mio.export_landmark_file(build_shape(g), fp)
            back = mio.import_landmark_file(fp)
            b = back["PTS"].points
        except Exception as e:
            ctx.fail(site, "raises", "points-format round trip raised %s: %s" % (type(e).__name__, e), rp)
            return
    want = np.array(pts, dtype=float)
    ok = b.shape == want.shape and bool(np.all(np.abs(b - want) < 0.001))
    ctx.check(ok, site, "beyond-three-decimals",
              "points %r came back as %r (more than 0.0005 away, or another shape/axis order)" % (want.tolist(), b.tolist()), rp)

    def cmp(rep, b=b, n=n):
        parts = rep.split()
        if parts[0] != "ok" or len(parts) != 1 + 2 * n or b.shape != (n, 2):
            return "model %r vs implementation %r" % (rep[:200], b.tolist())
        mv = [float(F(x)) for x in parts[1:]]
        iv = [float(x) for x in b.ravel()]
        if not all(common.close(a, c, max(abs(c), 1.0), 1e-9) for a, c in zip(iv, mv)):
            return "model %r vs implementation %r" % (mv, iv)
        return None
    run.ask("pts", "%d %s" % (n, " ".join(fq(v) for row in pts for v in row)), cmp, rp)


def gen_ptsn(rng):
    d = rng.choice([2, 2, 3, 3, 4, 1])
    n = rng.randint(1, 8)
    rows = []
    for _ in range(n):
        row = []
        for _ in range(d):
            r = rng.random()
            row.append(None if r < 0.15 else common.dyadic(rng, 4096, 6) if r < 0.7 else
                       rng.randint(-50, 500) + rng.choice([1, 3, 5, 7, 9, 11, 13, 15]) / 16.0)
        rows.append(row)
    return {"kind": "ptsn", "dim": d, "rows": rows, "file": rng.choice(["s.pts", "a.gz.b.PTS", "x.ljson.pts"]),
            "cls": rng.choice(["PointCloud", "PointCloud", "PointUndirectedGraph"])}


def case_ptsn(run, p):
    """points format of 2-D / 3-D / n-D shapes with NaN coordinates (the format holds two axes: further axes are not
    written - correspondence only; the property's clause is checked on the axes the format has)"""
    import numpy as np
    import menpo.io as mio
    ctx = run.ctx
    rp = rp_of(p)
    site = "C16/pts"
    rows, d = p["rows"], p["dim"]
    n = len(rows)
    ctx.case(("ptsn", json.dumps(p, sort_keys=True)), nontrivial=n > 1, sample={"kind": "ptsn", "dim": d, "n": n})
    ctx.count("pts:%dD:%s" % (d, "with-nan" if any(v is None for r in rows for v in r) else "complete"))
    g = {"cls": p["cls"], "dim": d, "points": rows, "edges": [[0, n - 1]] if n > 1 else []}
    exc = None
    file_lines = None
    with Scratch() as sd:
        fp = os.path.join(sd, p["file"])
        try:
            mio.export_landmark_file(build_shape(g), fp)
            with open(fp) as fh:
                file_lines = [l.strip() for l in fh.readlines()]
            b = mio.import_landmark_file(fp)["PTS"].points
        except Exception as e:                      # noqa: BLE001
            exc = e
    if exc is not None:
        ctx.check(d < 2, site, "raises", "points-format round trip of a %d-D shape raised %s: %s" % (d, type(exc).__name__, exc), rp)
        run.ask("ptsn", " ".join(legacy_rows_tok(rows)), "err", rp)
        return
    want = np.array([[np.nan if v is None else v for v in r[:2]] for r in rows], dtype=float)
    ok = b.shape == want.shape and bool(np.array_equal(np.isnan(b), np.isnan(want))) and bool(
        np.all(np.abs(np.nan_to_num(b) - np.nan_to_num(want)) < 0.001))
    ctx.check(ok, site, "beyond-three-decimals",
              "the first two axes %r came back as %r (NaN moved, more than 0.0005 away, or another shape)" % (
                  want.tolist(), b.tolist()), rp)

    def cmp(rep, b=b, n=n):
        parts = rep.split()
        if parts[0] != "ok" or int(parts[1]) != n or len(parts) != 2 + 2 * n or b.shape != (n, 2):
            return "model %r vs implementation %r" % (rep[:200], b.tolist())
        for a, c in zip(parts[2:], b.ravel().tolist()):
            if (a == "nan") != (c != c):
                return "NaN pattern: model %r vs implementation %r" % (parts[2:], b.tolist())
            if a != "nan" and not common.close(float(F(a)), c, max(abs(c), 1.0), 1e-9):
                return "model %r vs implementation %r" % (parts[2:], b.tolist())
        return None
    run.ask("ptsn", " ".join(legacy_rows_tok(rows)), cmp, rp)
    # the FILE the translated pts_exporter writes, line by line, and what the translated pts_importer makes of it
    if file_lines is not None:
        toks = []
        for l in file_lines:
            if l.startswith("{"):
                toks.append("{")
            elif l.startswith("}"):
                toks.append("}")
            else:
                try:
                    vals = [None if t == "nan" else F(t) for t in l.split()]
                    toks.append("r%d %s" % (len(vals), " ".join("nan" if v is None else fq(v) for v in vals)))
                except (ValueError, ZeroDivisionError):
                    toks.append("H")
        back = "ok %d %s" % (n, " ".join("nan" if c != c else fq(c) for c in b.ravel().tolist()))

        def cmpf(rep, toks=toks, b=b, n=n):
            lines, _, bk = rep.partition(" | ")
            if lines != "ok " + " ".join(toks):
                return "lines of the points file: model %r vs implementation %r" % (lines[:300], " ".join(toks)[:300])
            parts = bk.split()
            if parts[:2] != ["ok", str(n)] or len(parts) != 2 + 2 * n:
                return "re-import of the model's file: %r vs implementation %r" % (bk[:200], b.tolist())
            for a, c in zip(parts[2:], b.ravel().tolist()):
                if (a == "nan") != (c != c) or (a != "nan" and not common.close(float(F(a)), c, max(abs(c), 1.0), 1e-9)):
                    return "re-import of the model's file: %r vs implementation %r" % (parts[2:], b.tolist())
            return None
        run.ask("ptsfile", " ".join(legacy_rows_tok(rows)), cmpf, rp)


def legacy_rows_tok(rows):
    out = [str(len(rows))]
    for r in rows:
        out += [str(len(r))] + [fcoord(v) for v in r]
    return out


# --------------------------------------------------------------------------------------------- pickle

def pickle_recipes():
    """name -> builder(np.random.RandomState) of a menpo object (every family the property names)"""
    import numpy as np
    from functools import partial
    import menpo.transform as mt
    import menpo.shape as ms
    from menpo.image import Image, MaskedImage, BooleanImage
    from menpo.model import PCAModel, PCAVectorModel, LinearVectorModel, MeanLinearVectorModel
    from menpo.base import LazyList
    from collections import OrderedDict
    from pathlib import Path

    def pc(rs, n=6, d=2):
        return ms.PointCloud(np.round(rs.rand(n, d) * 64) / 4.0)

    def lab(rs):
        p = pc(rs, 5)
        return ms.LabelledPointUndirectedGraph.init_from_edges(
            p.points, np.array([[0, 1], [1, 2], [3, 4]]),
            OrderedDict([("zeta", np.array([1, 1, 1, 0, 0], bool)), ("größe 眼", np.array([0, 0, 1, 1, 1], bool))]))

    def with_lm(obj, rs):
        obj.landmarks["grp b"] = lab(rs)
        obj.landmarks["a"] = pc(rs, 5)
        return obj

    def grid_mesh(rs):
        pts = np.array([[i + rs.randint(-1, 2) / 8.0, j + rs.randint(-1, 2) / 8.0] for i in range(3) for j in range(3)], float)
        tl = []
        for i in range(2):
            for j in range(2):
                a = 3 * i + j
                tl += [[a, a + 1, a + 3], [a + 1, a + 4, a + 3]]
        return ms.TriMesh(pts, trilist=np.array(tl))

    R = OrderedDict()
    R["PointCloud"] = lambda rs: with_lm(pc(rs, 7, 3), rs)
    R["PointCloud-nan"] = lambda rs: ms.PointCloud(np.array([[np.nan, 1.0], [2.0, np.nan]]))
    R["PointUndirectedGraph"] = lambda rs: ms.PointUndirectedGraph.init_from_edges(pc(rs).points, np.array([[0, 1], [2, 5]]))
    R["PointDirectedGraph"] = lambda rs: ms.PointDirectedGraph.init_from_edges(pc(rs).points, np.array([[0, 1], [1, 0], [4, 2]]))
    R["PointTree"] = lambda rs: ms.PointTree.init_from_edges(pc(rs).points, np.array([[0, 1], [0, 2], [2, 3], [2, 4], [4, 5]]), root_vertex=0)
    R["LabelledPointUndirectedGraph"] = lab
    R["TriMesh"] = lambda rs: with_lm(grid_mesh(rs), rs)
    R["ColouredTriMesh"] = lambda rs: ms.ColouredTriMesh(rs.rand(4, 3), trilist=np.array([[0, 1, 2], [1, 2, 3]]), colours=rs.rand(4, 3))
    R["TexturedTriMesh"] = lambda rs: ms.TexturedTriMesh(rs.rand(4, 3), rs.rand(4, 2), Image(rs.rand(3, 4, 4)), trilist=np.array([[0, 1, 2], [1, 2, 3]]))
    R["Image"] = lambda rs: with_lm(Image(rs.rand(2, 4, 5)), rs)
    R["Image-uint8"] = lambda rs: Image(rs.randint(0, 256, (3, 3, 4)).astype(np.uint8))
    R["MaskedImage"] = lambda rs: with_lm(MaskedImage(rs.rand(1, 4, 5), mask=rs.rand(4, 5) > 0.3), rs)
    R["BooleanImage"] = lambda rs: BooleanImage(rs.rand(4, 5) > 0.3)
    R["Homogeneous"] = lambda rs: mt.Homogeneous(np.array([[1, 2, 3], [0, 1, 4], [0.5, 0, 1.0]]))
    R["Affine"] = lambda rs: mt.Affine(np.array([[1, 2, 3], [0, 1, 4], [0, 0, 1.0]]) + np.pad(rs.rand(2, 3), ((0, 1), (0, 0))))
    R["Similarity"] = lambda rs: mt.Similarity(np.array([[0, -2, 3], [2, 0, 4], [0, 0, 1.0]]))
    R["Rotation"] = lambda rs: mt.Rotation.init_from_2d_ccw_angle(float(rs.randint(1, 359)))
    R["Rotation3D"] = lambda rs: mt.Rotation.init_from_3d_ccw_angle_around_y(float(rs.randint(1, 359)))
    R["Translation"] = lambda rs: mt.Translation(rs.rand(3))
    R["UniformScale"] = lambda rs: mt.UniformScale(1.5 + rs.rand(), 3)
    R["NonUniformScale"] = lambda rs: mt.NonUniformScale(1.0 + rs.rand(2))
    R["AlignmentAffine"] = lambda rs: mt.AlignmentAffine(pc(rs), pc(rs))
    R["AlignmentSimilarity"] = lambda rs: mt.AlignmentSimilarity(pc(rs), pc(rs), rotation=bool(rs.randint(2)))
    R["AlignmentRotation"] = lambda rs: mt.AlignmentRotation(pc(rs), pc(rs))
    R["AlignmentTranslation"] = lambda rs: mt.AlignmentTranslation(pc(rs), pc(rs))
    R["AlignmentUniformScale"] = lambda rs: mt.AlignmentUniformScale(pc(rs), pc(rs))
    R["ThinPlateSplines"] = lambda rs: mt.ThinPlateSplines(pc(rs), pc(rs))
    R["PiecewiseAffine"] = lambda rs: mt.PiecewiseAffine(grid_mesh(rs), grid_mesh(rs))
    R["TransformChain"] = lambda rs: mt.TransformChain([mt.Translation(rs.rand(2)), mt.UniformScale(2.0, 2),
                                                        mt.Rotation.init_from_2d_ccw_angle(30.0)])
    R["PCAModel"] = lambda rs: PCAModel([pc(rs, 5) for _ in range(6)])
    R["PCAModel-trimmed"] = lambda rs: (lambda m: (m.trim_components(2), m)[1])(PCAModel([pc(rs, 5) for _ in range(6)]))
    R["PCAVectorModel"] = lambda rs: PCAVectorModel(rs.rand(6, 8))
    R["LinearVectorModel"] = lambda rs: LinearVectorModel(rs.rand(3, 8))
    R["MeanLinearVectorModel"] = lambda rs: MeanLinearVectorModel(rs.rand(3, 8), rs.rand(8))
    R["LazyList-of-partials"] = lambda rs: LazyList([partial(ms.PointCloud, rs.rand(3, 2)) for _ in range(3)])
    R["dict-of-objects"] = lambda rs: {"shape": pc(rs), "t": mt.Translation(rs.rand(2)), "n": 3, "path": Path("/some/where.png"),
                                       "list": [Image(rs.rand(1, 2, 2)), None, (1, "ü")]}
    R["list-of-images"] = lambda rs: [with_lm(Image(rs.rand(1, 3, 3)), rs), BooleanImage(rs.rand(3, 3) > 0.5)]
    return R


def same_state(a, b, memo=None, where="obj"):
    """None if equal state (apart from attributes called `path`), else a description of the first difference"""
    import numpy as np
    import scipy.sparse as sp
    import functools
    import types
    from pathlib import PurePath
    memo = memo if memo is not None else set()
    key = (id(a), id(b))
    if key in memo:
        return None
    memo.add(key)
    if isinstance(a, PurePath) or isinstance(b, PurePath):
        ok = isinstance(a, PurePath) and isinstance(b, PurePath) and a.parts == b.parts   # pickled as PurePath by design
        return None if ok else "%s: path %r vs %r" % (where, a, b)
    if type(a) is not type(b):
        return "%s: type %s vs %s" % (where, type(a).__name__, type(b).__name__)
    if isinstance(a, np.ndarray):
        if a.dtype != b.dtype or a.shape != b.shape:
            return "%s: array %s%s vs %s%s" % (where, a.dtype, a.shape, b.dtype, b.shape)
        eq = np.array_equal(a, b, equal_nan=True) if a.dtype.kind in "fc" else np.array_equal(a, b)
        return None if eq else "%s: array values differ" % where
    if sp.issparse(a):
        if a.shape != b.shape or a.dtype != b.dtype or (a != b).nnz != 0:
            return "%s: sparse matrices differ" % where
        return None
    if isinstance(a, np.generic):
        return None if (a == b or (a != a and b != b)) else "%s: %r vs %r" % (where, a, b)
    if isinstance(a, float):
        return None if (a == b or (a != a and b != b)) else "%s: %r vs %r" % (where, a, b)
    if isinstance(a, (int, str, bytes, bool, type(None), complex, type, np.dtype)):
        return None if a == b else "%s: %r vs %r" % (where, a, b)
    if isinstance(a, dict):
        if list(a.keys()) != list(b.keys()):
            return "%s: keys %r vs %r" % (where, list(a.keys()), list(b.keys()))
        for k in a:
            r = same_state(a[k], b[k], memo, "%s[%r]" % (where, k))
            if r:
                return r
        return None
    if isinstance(a, (list, tuple)):
        if len(a) != len(b):
            return "%s: length %d vs %d" % (where, len(a), len(b))
        for i, (x, y) in enumerate(zip(a, b)):
            r = same_state(x, y, memo, "%s[%d]" % (where, i))
            if r:
                return r
        return None
    if isinstance(a, (set, frozenset)):
        return None if a == b else "%s: sets differ" % where
    if isinstance(a, functools.partial):
        for nm in ("func", "args", "keywords"):
            r = same_state(getattr(a, nm), getattr(b, nm), memo, "%s.%s" % (where, nm))
            if r:
                return r
        return None
    if isinstance(a, types.MethodType):
        r = same_state(a.__self__, b.__self__, memo, where + ".__self__")
        return r or (None if a.__func__ is b.__func__ else "%s: bound function differs" % where)
    if isinstance(a, (types.FunctionType, types.BuiltinFunctionType)):
        return None if a is b else "%s: function %r vs %r" % (where, a, b)
    da, db = getattr(a, "__dict__", None), getattr(b, "__dict__", None)
    if da is None:
        return None if a == b else "%s: %r vs %r" % (where, a, b)
    ka = [k for k in da if k != "path"]
    kb = [k for k in db if k != "path"]
    if sorted(ka) != sorted(kb):
        return "%s: attributes %r vs %r" % (where, sorted(ka), sorted(kb))
    for k in ka:
        r = same_state(da[k], db[k], memo, "%s.%s" % (where, k))
        if r:
            return r
    return None


PICKLE_STEMS = ["m", "model.v1", "a.b", ".hidden", "scan.tar.gz.v2", "a.gz.b", "x.pkl.gz.copy", "y.PKL", "z.Gz.1", "w.pkl",
                "q.tar.gz", "GZ.gz.Gz", "r..gz.s"]


def recase(ext, k):
    """one of four spellings of an extension: lower, upper, capitalised components, alternating"""
    if k == 0:
        return ext
    if k == 1:
        return ext.upper()
    if k == 2:
        return ".".join(c.capitalize() for c in ext.split("."))
    return "".join(c.upper() if i % 2 else c for i, c in enumerate(ext))


def gen_pickle(rng, recipe=None):
    names = list(pickle_recipes().keys())
    return {"kind": "pickle", "recipe": recipe or rng.choice(names), "seed": rng.randrange(10 ** 6),
            "gz": rng.random() < 0.5, "protocol": rng.choice([2, 2, 3, 4]),
            "file": rng.choice(PICKLE_STEMS), "case": rng.randrange(4), "as_path": rng.random() < 0.5}


def case_pickle(run, p):
    import numpy as np
    import menpo.io as mio
    from pathlib import Path
    ctx = run.ctx
    site = "C16/pickle"
    rp = rp_of(p)
    ctx.case(("pickle", json.dumps(p, sort_keys=True)), nontrivial=True,
             sample={"kind": "pickle", "recipe": p["recipe"], "gz": p["gz"], "protocol": p["protocol"]})
    ctx.count("pickle:" + p["recipe"])
    ctx.count("pickle:" + ("gz" if p["gz"] else "plain"))
    try:
        obj = pickle_recipes()[p["recipe"]](np.random.RandomState(p["seed"]))
        ref = pickle_recipes()[p["recipe"]](np.random.RandomState(p["seed"]))
    except Exception as e:
        ctx.count("pickle:construction-failed:" + p["recipe"])
        ctx.notes.setdefault("pickle_construction_failed", {})[p["recipe"]] = "%s: %s" % (type(e).__name__, e)
        return
    with Scratch() as d:
        fp = os.path.join(d, p["file"] + recase(".pkl.gz" if p["gz"] else ".pkl", p.get("case", 0)))
        fpa = Path(fp) if p.get("as_path") else fp
        ctx.count("pickle:name:" + ("stem-with-extension-like-components" if any(
            c.lower() in ("gz", "pkl", "tar") for c in p["file"].split(".")[1:]) else "plain-stem"))
        try:
            mio.export_pickle(obj, fpa, protocol=p["protocol"])
            raw = open(fp, "rb").read(2)
            back = mio.import_pickle(fpa)
        except Exception as e:
            ctx.fail(site, "raises", "pickle round trip of %s raised %s: %s" % (p["recipe"], type(e).__name__, e), rp)
            return
    ctx.check((raw == b"\x1f\x8b") == bool(p["gz"]), site + "/gzip", "compression-flag",
              "file %s starts with %r" % (os.path.basename(fp), raw), rp)
    diff = same_state(obj, back)
    ctx.check(diff is None, site, "state-differs", "%s came back with different state: %s" % (p["recipe"], diff), rp)
    diff2 = same_state(ref, obj)
    if diff2 is not None:          # not a demand of the property text: an observation, followed up by the search
        ctx.mismatch("pickle/source", "exporting %s changed the exported object itself: %s" % (p["recipe"], diff2), rp)


# --------------------------------------------------------------------------------------------- pickle: object trees

def _ident(x):
    return x


PT_CLASSES = ["PointCloud", "Image", "Translation", "LazyList"]


def gen_ptree(rng, depth=0, top=None):
    """a random object tree in the prefix form of the model (nested lists): menpo objects with extra attributes
    (a concrete or pure `path` among them), paths, lists / tuples / dicts of them"""
    kind = top or rng.choice(["A", "A", "P", "O", "O", "L", "T", "D"] if depth < 3 else ["A", "P"])
    if kind == "A":
        return ["A", rng.randrange(1000)]
    if kind == "P":
        return ["P", int(rng.random() < 0.6), (["/"] if rng.random() < 0.5 else []) + rng.sample(
            ["a", "b.png", "x", "c.d", "model.pkl"], rng.randint(1, 3))]
    if kind in ("L", "T"):
        return [kind, [gen_ptree(rng, depth + 1) for _ in range(rng.choice([0, 1, 1, 2, 3]))]]
    if kind == "D":
        return ["D", [[k, gen_ptree(rng, depth + 1)] for k in rng.sample(["k", "a", "z", "path", "q"], rng.randint(0, 3))]]
    names = rng.sample(["c16_a", "path", "c16_b"], rng.randint(0, 3))
    cls = rng.choice(PT_CLASSES)
    fields = [[n, gen_ptree(rng, depth + 1, top=("P" if n == "path" and rng.random() < 0.8 else None))] for n in names]
    if cls == "LazyList":
        fields = [["c16_items", ["L", [gen_ptree(rng, depth + 1) for _ in range(rng.randint(0, 2))]]]] + fields
    return ["O", cls, fields]


def ptree_build(t):
    import numpy as np
    from functools import partial
    from pathlib import Path, PurePosixPath
    from menpo.shape import PointCloud
    from menpo.image import Image
    from menpo.transform import Translation
    from menpo.base import LazyList
    k = t[0]
    if k == "A":
        return np.array([t[1]]) if t[1] % 2 else t[1]
    if k == "P":
        return (Path if t[1] else PurePosixPath)(*t[2])
    if k == "L":
        return [ptree_build(x) for x in t[1]]
    if k == "T":
        return tuple(ptree_build(x) for x in t[1])
    if k == "D":
        return {kk: ptree_build(v) for kk, v in t[1]}
    cls, fields = t[1], t[2]
    if cls == "LazyList":
        o = LazyList([partial(_ident, ptree_build(x)) for x in fields[0][1][1]])
        fields = fields[1:]
    else:
        o = {"PointCloud": lambda: PointCloud(np.zeros((2, 2))), "Image": lambda: Image(np.zeros((1, 2, 2))),
             "Translation": lambda: Translation(np.array([1.0, 2.0]))}[cls]()
    for n, v in fields:
        setattr(o, n, ptree_build(v))
    return o


def ptree_abstract(x):
    """the tree of a real object, in the model's prefix form"""
    import numpy as np
    from pathlib import Path, PurePath
    from menpo.base import LazyList
    if isinstance(x, np.ndarray):
        return ["A", int(x.ravel()[0])]
    if isinstance(x, (int, np.integer)):
        return ["A", int(x)]
    if isinstance(x, PurePath):
        return ["P", int(isinstance(x, Path)), list(x.parts)]
    if isinstance(x, list):
        return ["L", [ptree_abstract(v) for v in x]]
    if isinstance(x, tuple):
        return ["T", [ptree_abstract(v) for v in x]]
    if isinstance(x, dict):
        return ["D", [[k, ptree_abstract(v)] for k, v in x.items()]]
    fields = []
    if isinstance(x, LazyList):
        fields.append(["c16_items", ["L", [ptree_abstract(v) for v in x]]])
    fields += [[k, ptree_abstract(v)] for k, v in x.__dict__.items() if k == "path" or k.startswith("c16_")]
    return ["O", type(x).__name__, fields]


def ptree_tokens(t):
    k = t[0]
    if k == "A":
        return ["A", str(t[1])]
    if k == "P":
        return ["P", str(t[1]), str(len(t[2]))] + list(t[2])
    if k in ("L", "T"):
        return [k, str(len(t[1]))] + [y for x in t[1] for y in ptree_tokens(x)]
    if k == "D":
        return ["D", str(len(t[1]))] + [y for kk, v in t[1] for y in [kk] + ptree_tokens(v)]
    return ["O", t[1], str(len(t[2]))] + [y for kk, v in t[2] for y in [kk] + ptree_tokens(v)]


def case_ptree(run, p):
    """export_pickle -> import_pickle of a random object tree: the tree that comes back against the model of
    pickle_paths_as_pure + _import (attach_path, unwrapping); oracle on top-level menpo objects: equal state apart from
    the recorded path; Path.__reduce__ restored"""
    import pathlib
    import menpo.io as mio
    ctx = run.ctx
    rp = rp_of(p)
    site = "C16/pickle"
    t = p["tree"]
    ctx.case(("ptree", json.dumps(p, sort_keys=True)), nontrivial=len(json.dumps(t)) > 30,
             sample={"kind": "ptree", "top": t[0], "gz": p["gz"]})
    ctx.count("ptree:top:" + (t[1] if t[0] == "O" else t[0]))
    default_reduce = pathlib.Path.__reduce__
    obj = ptree_build(t)
    with Scratch() as d:
        fp = os.path.join(d, "a.gz.tree" + (".pkl.gz" if p["gz"] else ".PKL"))
        try:
            mio.export_pickle(obj, fp, protocol=p["protocol"])
            back = mio.import_pickle(fp)
        except Exception as e:                                   # noqa: BLE001
            ctx.fail(site, "raises", "pickle round trip of an object tree raised %s: %s" % (type(e).__name__, e), rp)
            return
        finally:
            ctx.check(pathlib.Path.__reduce__ is default_reduce, site + "/reduce-hook", "not-restored",
                      "pathlib.Path.__reduce__ is still patched after export_pickle", rp)
            pathlib.Path.__reduce__ = default_reduce
        file_tree = ["P", 1, list(pathlib.Path(fp).parts)]
    if t[0] == "O":                 # the property's quantifier: a menpo object
        diff = same_state(obj, back)
        ctx.check(diff is None, site, "state-differs", "an object tree came back with different state: %s" % diff, rp)
    got = ptree_abstract(back)
    run.ask("ptree", " ".join(ptree_tokens(file_tree) + ptree_tokens(t)), "ok " + " ".join(ptree_tokens(got)), rp)


# --------------------------------------------------------------------------------------------- images

def lossless_codecs(run):
    """extensions whose PIL codec writes and reads an 8-bit grey and RGB array unchanged in this sandbox
    (probed with PIL alone - menpo is not involved, so a menpo defect cannot hide a format)"""
    if run.codecs is not None:
        return run.codecs
    import numpy as np
    import PIL.Image as PILImage
    PILImage.preinit()
    PILImage.init()
    ok, rejected = [], {}
    grey = np.arange(256, dtype=np.uint8).reshape(16, 16)
    probes = [grey, np.stack([grey, grey[::-1], grey.T], axis=-1)]
    for h, w in ((1, 1), (7, 1), (2, 3), (5, 5), (1, 7), (3, 12), (11, 9)):     # odd sizes: row padding of the codec
        rs = np.random.RandomState(100 * h + w)
        probes += [rs.randint(0, 256, (h, w)).astype(np.uint8), rs.randint(0, 256, (h, w, 3)).astype(np.uint8)]
    with Scratch() as d:
        for ext in LOSSLESS_CANDIDATES:
            try:
                fmt = PILImage.EXTENSION[ext]
                for i, arr in enumerate(probes):
                    fp = os.path.join(d, "probe%d%s" % (i, ext))
                    with open(fp, "wb") as f:
                        PILImage.fromarray(arr).save(f, format=fmt)
                    if not np.array_equal(np.asarray(PILImage.open(fp)), arr):
                        raise ValueError("PIL alone does not return the %s array it wrote" % (arr.shape,))
                ok.append(ext)
            except Exception as e:
                rejected[ext] = "%s: %s" % (type(e).__name__, e)
    run.ctx.notes["codecs_rejected_by_pil_only_probe"] = rejected
    run.codecs = ok
    run.ctx.notes["lossless_codecs_in_sandbox"] = ok
    return ok


def gen_image8(rng, fmts, source=None, all256=None):
    source = source or rng.choice(["L", "L", "RGB", "RGB", "RGBA", "1", "mem-u8", "mem-bool"])
    all256 = (rng.random() < 0.4) if all256 is None else all256
    h, w = (16, 16) if all256 else (rng.randint(1, 12), rng.randint(1, 12))
    return {"kind": "image8", "source": source, "all256": bool(all256), "h": h, "w": w, "seed": rng.randrange(10 ** 6),
            "fmt": rng.choice(fmts), "src_fmt": rng.choice([f for f in fmts if f in (".png", ".bmp", ".tif")] or fmts),
            "as_path": rng.random() < 0.5, "copy_between": rng.random() < 0.3,
            "stem": rng.choice(["out.v2", "y.jpg", "a.gz.b", "scan.tar.gz", "x.pkl.copy", "UP.JPG", "i"]), "case": rng.randrange(4)}


def image8_pixels(p):
    import numpy as np
    rs = np.random.RandomState(p["seed"])
    nch = {"L": 1, "1": 1, "RGB": 3, "RGBA": 3, "mem-u8": rs.choice([1, 3]), "mem-bool": 1}[p["source"]]
    h, w = p["h"], p["w"]
    if p["source"] in ("1", "mem-bool"):
        return (rs.rand(1, h, w) > 0.5).astype(np.uint8) * 255
    if p["all256"]:
        return np.stack([rs.permutation(256).reshape(16, 16) for _ in range(nch)]).astype(np.uint8)
    return rs.randint(0, 256, (nch, h, w)).astype(np.uint8)


def case_image8(run, p):
    import numpy as np
    import menpo.io as mio
    import PIL.Image as PILImage
    from menpo.image import Image
    from pathlib import Path
    ctx = run.ctx
    rp = rp_of(p)
    px = image8_pixels(p)
    nch = px.shape[0]
    ctx.case(("image8", json.dumps(p, sort_keys=True)), nontrivial=px.size > 1,
             sample={"kind": "image8", "source": p["source"], "format": p["fmt"], "shape": list(px.shape), "all256": p["all256"]})
    ctx.count("image8:source:" + p["source"])
    ctx.count("image8:format:" + p["fmt"])
    site = "C16/image8"
    through_float = p["source"] not in ("mem-u8", "mem-bool")
    with Scratch() as d:
        try:
            if p["source"] == "mem-u8":
                im = Image(px.copy())
            elif p["source"] == "mem-bool":
                from menpo.image import BooleanImage
                im = BooleanImage(px[0] > 0)
            else:
                src = os.path.join(d, "src" + (".png" if p["source"] in ("RGBA", "1") else p["src_fmt"]))
                if p["source"] == "L":
                    pil = PILImage.fromarray(px[0])
                elif p["source"] == "RGB":
                    pil = PILImage.fromarray(np.ascontiguousarray(np.moveaxis(px, 0, -1)))
                elif p["source"] == "RGBA":
                    alpha = (np.random.RandomState(p["seed"] + 1).rand(p["h"], p["w"]) > 0.3).astype(np.uint8) * 255
                    pil = PILImage.fromarray(np.ascontiguousarray(np.dstack([np.moveaxis(px, 0, -1), alpha])))
                else:
                    pil = PILImage.fromarray(px[0]).convert("1")
                pil.save(src)
                im = mio.import_image(src, landmark_resolver=None)
            ctx.count("image8:class:" + type(im).__name__)
            if p.get("copy_between"):
                im = im.copy()
            out = os.path.join(d, p.get("stem", "out.v2") + recase(p["fmt"], p.get("case", 0)))
            mio.export_image(im, Path(out) if p.get("as_path") else out)
            back = mio.import_image(out, landmark_resolver=None, normalize=False)
            got = np.asarray(back.pixels)
            if got.dtype == bool:
                got = got.astype(np.uint8) * 255
        except Exception as e:
            ctx.fail(site, "raises", "import -> export -> re-import of an 8-bit image raised %s: %s" % (type(e).__name__, e), rp)
            return
    if got.shape != px.shape or got.dtype != np.uint8:
        ctx.fail(site, "shape-or-dtype", "8-bit data %s %s came back as %s %s" % (px.dtype, px.shape, got.dtype, got.shape), rp)
        return
    if through_float:
        for a, b in zip(px.ravel().tolist(), got.ravel().tolist()):
            run.u8_obs.setdefault(a, set()).add(b)
    if not np.array_equal(got, px):
        bad = sorted({(int(a), int(b)) for a, b in zip(px.ravel(), got.ravel()) if a != b})
        trunc = through_float and all(a - b == 1 and a in TRUNC24 for a, b in bad)
        if trunc:
            ctx.fail(SITE_U8, PAT_U8,
                     "8-bit pixel values do not survive import -> export -> re-import: %d value(s) come back one lower, "
                     "e.g. %r (the float image is converted with a truncating cast, k*(1/255)*255 < k in binary64 for "
                     "24 of the 256 values)" % (len(bad), bad[:6]), dict(rp, changed=bad[:24]))
        else:
            ctx.fail(site, "pixels-differ", "8-bit pixel values changed: (original, re-imported) %r" % (bad[:12],),
                     dict(rp, changed=bad[:24]))


def gen_imagef(rng, fmts):
    return {"kind": "imagef", "dtype": rng.choice(["float64", "float64", "float32"]), "channels": rng.choice([1, 3]),
            "h": rng.randint(1, 10), "w": rng.randint(1, 10), "seed": rng.randrange(10 ** 6), "fmt": rng.choice(fmts),
            "masked": rng.random() < 0.25, "layout": rng.choice(["C", "C", "F", "view", "view-nocopy"])}


def case_imagef(run, p):
    import numpy as np
    import menpo.io as mio
    from menpo.image import Image, MaskedImage
    ctx = run.ctx
    rp = rp_of(p)
    site = "C16/imagef"
    rs = np.random.RandomState(p["seed"])
    if p.get("all_levels"):       # every pixel value m/1024, m = 0..1024, once
        m = rs.permutation(1025).reshape(1, 25, 41)
    else:
        m = rs.randint(0, 1025, (p["channels"], p["h"], p["w"]))
        m.ravel()[rs.randint(m.size)] = rs.choice([0, 1024])
    x = (m / 1024.0).astype(p["dtype"])
    ctx.case(("imagef", json.dumps(p, sort_keys=True)), nontrivial=m.size > 1,
             sample={"kind": "imagef", "dtype": p["dtype"], "format": p["fmt"], "shape": list(m.shape)})
    ctx.count("imagef:%s:%dch" % (p["dtype"], p["channels"]))
    ctx.count("imagef:format:" + p["fmt"])
    with Scratch() as d:
        try:
            lay = p.get("layout", "C")
            if lay == "F":
                arr = np.asfortranarray(x)
            elif lay.startswith("view"):       # a strided, reversed view into a larger array
                big = np.full((x.shape[0], 2 * x.shape[1] + 1, 3 * x.shape[2] + 2), 0.5, dtype=x.dtype)
                big[:, 1::2, ::-3][:, :x.shape[1], :x.shape[2]] = x
                arr = big[:, 1::2, ::-3][:, :x.shape[1], :x.shape[2]]
            else:
                arr = x.copy()
            ctx.count("imagef:layout:" + lay)
            with __import__("warnings").catch_warnings():
                __import__("warnings").simplefilter("ignore")
                im = (MaskedImage(arr, mask=rs.rand(p["h"], p["w"]) > 0.4, copy=lay != "view-nocopy") if p.get("masked")
                      else Image(arr, copy=lay != "view-nocopy"))
            out = os.path.join(d, "f" + p["fmt"])
            mio.export_image(im, out)
            back = mio.import_image(out, landmark_resolver=None)
            raw = mio.import_image(out, landmark_resolver=None, normalize=False)
        except Exception as e:
            ctx.fail(site, "raises", "export/import of a float image in [0,1] raised %s: %s" % (type(e).__name__, e), rp)
            return
    if back.pixels.shape != x.shape or raw.pixels.shape != x.shape:
        ctx.fail(site, "shape", "float image %s came back with shape %s" % (x.shape, back.pixels.shape), rp)
        return
    err = float(np.abs(back.pixels.astype(float) - x.astype(float)).max()) * 255.0
    ctx.check(err < 1.0, site, "one-level-or-more",
              "float pixels changed by %.6f quantisation levels (must be < 1)" % err, rp)
    if not bool(np.array_equal(im.pixels, x)):      # not a demand of the property text: an observation
        ctx.mismatch("imagef/source", "exporting changed the image that was exported", rp)
    for a, b in zip(m.ravel().tolist(), np.asarray(raw.pixels).ravel().tolist()):
        run.q8_obs.setdefault(int(a), set()).add(int(b))


def case_range(run, p):
    """every level of an integer range 0 .. N (uint8 / uint16) through the real normalize_pixels_range ->
    denormalize_pixels_range and through Image.as_PILImage(out_dtype=...); compared, level by level, with the exact
    53-bit model (the one `range_roundtrip_of_rounding` / `u16_roundtrip_round` are about), with Lean's Float, and with
    numpy's own truncating cast (so the three arithmetics are validated against each other on all 65 536 + 256 values)"""
    import numpy as np
    from menpo.image import Image
    import menpo.image.base as mib
    ctx = run.ctx
    rp = rp_of(p)
    N = p["N"]
    dt = {255: np.uint8, 65535: np.uint16}[N]
    site = "C16/range/%s" % np.dtype(dt).name
    ctx.case(("range", N), nontrivial=True, sample={"kind": "range", "N": N})
    ctx.count("range:%s:all-%d-levels" % (np.dtype(dt).name, N + 1))
    levels = np.arange(N + 1, dtype=dt)
    obs = {}
    try:
        x = mib.normalize_pixels_range(levels)
        obs["functions"] = np.asarray(mib.denormalize_pixels_range(x, dt))
        side = int(round((N + 1) ** 0.5))
        im = Image(x.reshape(1, side, side).copy())
        obs["as_PILImage"] = np.asarray(im.as_PILImage(out_dtype=dt)).reshape(-1)
    except Exception as e:                              # noqa: BLE001
        ctx.fail(site, "raises", "normalise -> denormalise of all %d-level data raised %s: %s" % (N + 1, type(e).__name__, e), rp)
        return
    lost_impl = {}
    for how, got in obs.items():
        bad = np.nonzero(got.astype(np.int64) != levels.astype(np.int64))[0].tolist()
        lost_impl[how] = bad
        if N == 255:       # the property's clause; sixteen-bit data is decided by the model tie
            ctx.check(not bad, SITE_U8 if all(b in TRUNC24 for b in bad) else site, PAT_U8 if all(
                b in TRUNC24 for b in bad) else "levels-lost",
                "eight-bit levels %r do not survive normalise -> denormalise (%s)" % (bad[:24], how), rp)
    numpy_trunc = np.nonzero((levels * (1.0 / N) * float(N)).astype(dt) != levels)[0].tolist()
    numpy_round = np.nonzero(np.round(levels * (1.0 / N) * float(N)).astype(dt) != levels)[0].tolist()

    def cmp(rep, lost_impl=lost_impl, numpy_trunc=numpy_trunc, numpy_round=numpy_round):
        def two(txt):
            t = [int(v) for v in txt.split()]
            a = t[1:1 + t[0]]
            b = t[2 + t[0]:]
            return a, b
        soft, _, flt = rep[3:].partition(" | ")
        (st, sr), (ft, fr) = two(soft), two(flt)
        if (st, sr) != (numpy_trunc, numpy_round):
            return "exact 53-bit model vs numpy float64: lost levels (trunc, round) %r vs %r" % (
                (st[:8], sr[:8]), (numpy_trunc[:8], numpy_round[:8]))
        if (ft, fr) != (numpy_trunc, numpy_round):
            return "Lean Float vs numpy float64: lost levels (trunc, round) %r vs %r" % (
                (ft[:8], fr[:8]), (numpy_trunc[:8], numpy_round[:8]))
        for how, bad in lost_impl.items():
            if bad != sr and bad != st:
                return "%s loses levels %r; model: rounding loses %r, truncation %r" % (how, bad[:8], sr[:8], st[:8])
        return None
    run.ask("lost", "%d 0 %d" % (N, N + 1), cmp, rp)
    ctx.notes["range_%d_lost_levels_observed" % N] = {k: v[:30] for k, v in lost_impl.items()}


def case_mode(run, p):
    """channel counts: 1 and 3 are exportable, everything else is a ValueError (correspondence only)"""
    import numpy as np
    import menpo.io as mio
    from menpo.image import Image
    ctx = run.ctx
    ctx.case(("mode", p["channels"]), nontrivial=False)
    ctx.count("image:channels:%d" % p["channels"])
    with Scratch() as d:
        try:
            mio.export_image(Image(np.zeros((p["channels"], 2, 3))), os.path.join(d, "c.png"))
            import PIL.Image as PILImage
            obs = "ok " + PILImage.open(os.path.join(d, "c.png")).mode
        except ValueError:
            obs = "err"
        except Exception as e:
            obs = "exc " + type(e).__name__
    run.ask("mode", "%d 2" % p["channels"], obs, rp_of(p))


# --------------------------------------------------------------------------------------------- guard

GOOD_NAMES = {
    "landmark": ["lm.ljson", "a.b.ljson", "s.pts", "x.y.z.pts", ".hidden.ljson", "UP.LJSON"],
    "image": ["i.png", "a.b.png", "c.bmp", "scan.v2.tif", "p.ppm", "q.pgm", "j.jpg", "Big.PNG"],
    "pickle": ["m.pkl", "a.b.pkl.gz", "x.pkl.gz", "model.v1.pkl", "z.gz.pkl", "U.PKL"],
    "video": ["v.mp4", "a.b.avi", "clip.gif", "w.mkv"],
}
BAD_NAMES = {
    "landmark": ["notes.txt", "a.png", "lm.ljson.", "noext"],
    "image": ["notes.txt", "a.pkl", "i.png.", "noext"],
    "pickle": ["notes.txt", "m.pkl.", "a.gz", "noext", "a.pkl.bz2"],
    "video": [],
}
N_SPELL = 14
ENV_NAMES = ("HOME", "C16ROOT", "C16SUB")


def spell(d, sub, name, k):
    """one of the spellings of <d>/<sub>/<name> (HOME = C16ROOT = <d>, C16SUB = <sub>, C16UNSET not set, cwd = <d>)"""
    base = os.path.basename(d)
    return ["%s/%s/%s" % (d, sub, name), "%s//%s/./%s" % (d, sub, name), "%s/%s/../%s/%s" % (d, sub, sub, name),
            "%s/%s" % (sub, name), "./%s//%s" % (sub, name), "%s/../%s/%s" % (sub, sub, name),
            "../%s/%s/%s" % (base, sub, name),
            "~/%s/%s" % (sub, name), "$C16ROOT/%s/%s" % (sub, name), "${C16ROOT}/$C16SUB/%s" % name,
            "~//./%s/x/../%s" % (sub, name), "%s/$C16UNSET/../%s" % (sub, name), "~c16nosuchuser/../%s/%s" % (sub, name),
            "./~/%s/%s" % (sub, name)][k]


class EnvVars:
    """os.environ entries set for the duration of a case and restored afterwards"""

    def __init__(self, **kv):
        self.kv = kv

    def __enter__(self):
        self.old = {k: os.environ.get(k) for k in self.kv}
        self.old["C16UNSET"] = os.environ.pop("C16UNSET", None)
        os.environ.update(self.kv)

    def __exit__(self, *exc):
        for k, v in self.old.items():
            if v is None:
                os.environ.pop(k, None)
            else:
                os.environ[k] = v
        return False


class StubVideo:
    """ffmpeg is an external program that is not installed here: while a video history runs, the callables in
    menpo.io.output.base.video_types are replaced by one that writes bytes to the path it is handed (what ffmpeg
    does), so that the path `_export_paths_only` hands on is observable.  Restored afterwards."""

    def __enter__(self):
        import menpo.io.output.base as ob
        self.tbl = ob.video_types
        self.saved = dict(self.tbl)

        calls = []

        def stub(images, out_path, **kwargs):
            calls.append(1)
            with open(str(out_path), "wb") as f:
                f.write(("video no. %d of %d frames, kwargs %r" % (len(calls), len(images), sorted(kwargs))).encode())
        for k in self.tbl:
            self.tbl[k] = stub
        return self

    def __exit__(self, *exc):
        self.tbl.clear()
        self.tbl.update(self.saved)
        return False


def gen_guard(rng, exporter=None):
    exporter = exporter or rng.choice(["landmark", "image", "pickle", "landmark", "image", "pickle", "video"])
    names = [rng.choice(GOOD_NAMES[exporter])]
    if exporter != "video" and rng.random() < 0.5:
        other = rng.choice(GOOD_NAMES[exporter] + BAD_NAMES[exporter])
        if other.lower() != names[0].lower():
            names.append(other)
    ops = []
    for _ in range(rng.randint(2, 6)):
        nm = names[0] if (len(names) == 1 or rng.random() < 0.7) else names[1]
        ue = "-"
        if exporter in ("landmark", "image") and rng.random() < 0.2:
            ue = rng.choice([".png", "ljson", ".PTS", "PNG", ".tif", ".ljson"])
        op = {"name": nm, "spell": rng.randrange(N_SPELL), "as_path": rng.random() < 0.5,
              "overwrite": rng.random() < (0.25 if exporter == "video" else 0.4), "userext": ue}
        if exporter == "landmark" and rng.random() < 0.35:
            op["multi"] = True              # a dictionary of shapes / a LandmarkManager instead of one shape
        ops.append(op)
    pre = []
    if rng.random() < (0.6 if exporter == "video" else 0.35):
        pre = [names[0]] if (len(names) == 1 or rng.random() < 0.6) else (names[1:] if rng.random() < 0.5 else list(names))
    return {"kind": "guard", "exporter": exporter, "sub": rng.choice(["sub", "out.d", "x y"]) if exporter != "video" else "sub",
            "precreate": pre,
            "tilde_dir": rng.random() < 0.5, "ops": ops}


def export_object(exporter, i):
    import numpy as np
    from menpo.shape import PointCloud
    from menpo.image import Image
    if exporter == "landmark":
        return PointCloud(np.array([[float(i), i + 0.5], [1.0, 2.0]]))
    if exporter == "image":
        return Image(np.full((1, 2, 3), 10 * i + 1, dtype=np.uint8))
    if exporter == "pickle":
        return {"op": i, "data": list(range(i + 1))}
    return [Image(np.zeros((1, 4, 4))), Image(np.ones((1, 4, 4)))]


def norm_ext(e):
    e = e.lower()
    return e if e.startswith(".") else "." + e


def case_guard(run, p):
    import contextlib
    import menpo.io as mio
    from menpo.io.exceptions import OverwriteError
    from pathlib import Path
    ctx = run.ctx
    rp = rp_of(p)
    ex = p["exporter"]
    site = "C16/guard/" + ex
    fn = {"landmark": mio.export_landmark_file, "image": mio.export_image, "pickle": mio.export_pickle,
          "video": mio.export_video}[ex]
    ctx.case(("guard", json.dumps(p, sort_keys=True)), nontrivial=True,
             sample={"kind": "guard", "exporter": ex, "ops": [(o["name"], o["spell"], o["overwrite"]) for o in p["ops"]]})
    ctx.count("guard:exporter:" + ex)
    outcomes = []
    with Scratch() as d, EnvVars(HOME=d, C16ROOT=d, C16SUB=p["sub"]), (
            StubVideo() if ex == "video" else contextlib.nullcontext()):
        sub = p["sub"]
        os.makedirs(os.path.join(d, sub))
        os.makedirs(os.path.join(d, "~", sub))          # a directory literally called '~' (never the target)
        os.chdir(d)
        written_hash = {}
        pre = []
        for j, nm in enumerate(p["precreate"]):
            where = [os.path.join(sub, nm)] + ([os.path.join("~", sub, nm)] if p.get("tilde_dir") else [])
            for jj, rel in enumerate(where):
                body = b"pre-existing bytes %d %d\n" % (j, jj)
                with open(os.path.join(d, rel), "wb") as f:
                    f.write(body)
                written_hash[1000 + len(pre)] = (rel, hashlib.sha256(body).hexdigest())
                pre.append(rel)
        for i, o in enumerate(p["ops"]):
            s = spell(d, sub, o["name"], o["spell"])
            target = os.path.join(sub, o["name"])
            before = snapshot(d)
            existed = target in before
            ctx.count("guard:spelling:%d:%s" % (o["spell"], "Path" if o["as_path"] else "str"))
            ctx.count("guard:%s:%s" % ("existing" if existed else "new", "overwrite" if o["overwrite"] else "no-overwrite"))
            kw = {"overwrite": True} if o["overwrite"] else ({} if i % 2 else {"overwrite": False})
            if o.get("userext", "-") != "-":
                kw["extension"] = o["userext"]
            xobj = export_object(ex, i)
            if o.get("multi"):
                ctx.count("guard:landmark-object:" + ("manager" if i % 2 else "dict"))
                if i % 2:
                    holder = export_object(ex, i)
                    holder.landmarks["a"] = export_object(ex, i)
                    holder.landmarks["b"] = export_object(ex, i + 1)
                    xobj = holder.landmarks
                else:
                    xobj = {"a": export_object(ex, i), "b": export_object(ex, i + 1)}
            try:
                fn(xobj, Path(s) if o["as_path"] else s, **kw)
                out = "w"
            except OverwriteError:
                out = "o"
            except ValueError:
                out = "v"
            except Exception as e:
                out = "x:" + type(e).__name__
            after = snapshot(d)
            outcomes.append(out)
            step = dict(rp, failing_op=i, spelling=s, outcome=out)
            changed = sorted(k for k in set(before) | set(after) if before.get(k) != after.get(k))
            # ---- oracle (bytes on disk; independent of the model)
            if not o["overwrite"]:
                # whatever the spelling is taken to mean: with overwriting not requested no existing file may change
                lost = [k for k in before if after.get(k) != before[k]]
                ctx.check(not lost, site, "clobbered",
                          "export to %r (%s, overwrite not requested) ended with %r and changed the EXISTING file(s) %r"
                          % (s, "Path" if o["as_path"] else "str", out, lost), step)
            if existed and not o["overwrite"]:
                ctx.check(after == before, site, "clobbered",
                          "export to the existing %r (spelled %r, overwrite not requested) changed files on disk: %r"
                          % (target, s, changed), step)
                ctx.check(out == "o", site, "not-refused",
                          "export to the existing %r (spelled %r, overwrite not requested) ended with %r instead of "
                          "OverwriteError" % (target, s, out), step)
            else:
                others = [k for k in changed if k != target]
                ctx.check(not others, site, "other-file-touched",
                          "export to %r (spelled %r as %s) changed other files: %r" % (
                              target, s, "Path" if o["as_path"] else "str", others), step)
                ctx.check(out != "o", site, "spurious-overwrite-error",
                          "export to %r raised OverwriteError although %s" % (
                              target, "overwriting was requested" if existed else "the path did not exist"), step)
                if out != "w" and after != before:
                    # overwriting was requested or the path was new: the text does not protect that file (menpo itself
                    # truncates, then fails, when the exporter raises) - an observation, not a failure
                    ctx.mismatch("guard", "an export that ended with %r changed files on disk (%r)" % (out, changed), step)
            if out == "w":
                for k in changed:
                    written_hash[i] = (k, after[k]) if k == target or i not in written_hash else written_hash[i]
                    if k != target:
                        written_hash[("elsewhere", i)] = (k, after[k])
        final = snapshot(d)
    # ---- model
    und = lambda x: x.replace(" ", "_")        # tokens are space separated: the model sees the blank replaced
    req = [und(d), str(len(ENV_NAMES)), "HOME", und(d), "C16ROOT", und(d), "C16SUB", und(sub),
           str(len(pre))] + [und(x) for x in pre] + [str(len(p["ops"]))]
    for o in p["ops"]:
        ue = o.get("userext", "-")
        req += [ex, und(spell(d, sub, o["name"], o["spell"])), "-" if ue == "-" else norm_ext(ue),
                "1" if o["overwrite"] else "0", ("0" if o["as_path"] else "1") + ("d" if o.get("multi") else "")]
    any_multi = any(o.get("multi") for o in p["ops"])

    def cmp(rep, outcomes=outcomes, final=final, written_hash=written_hash, d=d, run=run, any_multi=any_multi):
        if not rep.startswith("ok "):
            return "model reply %r" % rep[:200]
        io = "".join(x[0] for x in outcomes)
        if any(x.startswith("x") for x in outcomes):
            return "an export ended with an unexpected exception: %r" % (outcomes,)
        impl_files = {}
        for rel, h in final.items():
            who = [i for i, (t, hh) in written_hash.items() if t == rel and hh == h]
            who = [i[1] if isinstance(i, tuple) else i for i in who]
            impl_files[und(rel)] = max(who) if who else -1
        verdicts = []
        for variant, part in zip(("coded", "checked=written"), rep[3:].split(" || ")):
            mo, _, listing = part.partition(" | ")
            toks = listing.split()
            model_files = {os.path.relpath(a, und(d)): int(b) for a, b in zip(toks[::2], toks[1::2])}
            verdicts.append((variant, mo.strip() == io and model_files == impl_files, mo.strip(), model_files))
        # the specifications the TRANSLATED entry points are proved equal to (third and fourth part of the reply:
        # export_landmark_file with the dictionary check before the guard, as coded / with the guard first, the repair)
        parts = rep[3:].split(" || ")
        xok = []
        for variant, part in zip(("landmark-check-first", "guard-first"), parts[2:4]):
            mo, _, listing = part.partition(" | ")
            toks = listing.split()
            xfiles = {os.path.relpath(a, und(d)): int(b) for a, b in zip(toks[::2], toks[1::2])}
            if mo.strip() == io and xfiles == impl_files:
                xok.append(variant)
        if not xok:
            return "history through the specifications of the translated export_* (outcomes, final files): model %r " \
                   "vs implementation %r" % (parts[2:4], (io, impl_files))
        if len(xok) == 1:
            run.landmark_variants.add(xok[0])
        if any_multi:          # the older hand-written model has no dictionary objects
            return None
        ok = [v[0] for v in verdicts if v[1]]
        if not ok:
            return "history (outcomes, final files as path: number of the export whose bytes it holds): model %r / %r vs " \
                   "implementation %r" % (verdicts[0][2:], verdicts[1][2:], (io, impl_files))
        if len(ok) == 1:
            run.guard_variants.add(ok[0])
        return None
    run.ask("guard", " ".join(req), cmp, rp)


def gen_name(rng, kind):
    stem = rng.choice(["a", "a.b", ".hidden", "x..y", "UP", "arch.tar", "v1.2", "a b".replace(" ", "_")])
    tbl = {"landmark": [".ljson", ".pts"], "image": [".png", ".jpg", ".tiff", ".bmp"], "pickle": [".pkl", ".pkl.gz"],
           "video": [".mp4", ".gif", ".avi"]}[kind]
    ext = rng.choice(tbl + tbl + [".txt", ".gz", ".PKL", ".Pkl.GZ", "", ".pkl.bz2", ".LJSON", ".Png", "."])
    return stem + ext


def case_ext(run, p):
    """extension parser and path normaliser against the model (correspondence only; the observable consequences
    are exercised by the guard cases)"""
    from pathlib import Path
    ctx = run.ctx
    ctx.case(("ext", p["xkind"], p["name"]), nontrivial=p["name"].count(".") > 1)
    ctx.count("ext:" + p["xkind"])
    try:
        from menpo.io.output.base import _parse_and_validate_extension
        from menpo.io.output import extensions as ox
        tbl = {"landmark": ox.landmark_types, "image": ox.image_types, "pickle": ox.pickle_types, "video": ox.video_types}[p["xkind"]]
    except (ImportError, AttributeError):
        ctx.count("ext:private-helper-unavailable")
        return
    try:
        obs = "ok " + _parse_and_validate_extension(Path("/scratch") / p["name"], None, tbl)
    except ValueError:
        obs = "err"
    except Exception as e:
        obs = "exc " + type(e).__name__
    run.ask("ext", "%s %s" % (p["xkind"], p["name"]), obs, rp_of(p))


NAME_COMPONENTS = ["pkl", "gz", "PKL", "GZ", "Pkl", "gZ", "tar", "v2", "copy", "ljson", "LJSON", "pts", "Pts", "jpg", "JPG",
                   "png", "Png", "bmp", "tif", "b", "1", "", "json", "ptsx", "jpx", "abs", "flo", "asf", "lm2"]
NAME_STEMS = ["scan", "a", "x", "Y", ".hidden", "m..n", "..up", "_"]
FINAL_EXTS = {"landmark": [".ljson", ".pts"], "pickle": [".pkl", ".pkl.gz"]}


def gen_dec(rng, kind, fmts):
    """a file name whose STEM carries extension-like components, then (mostly) a real extension of the kind in one
    of four spellings of its case"""
    finals = FINAL_EXTS.get(kind) or (list(fmts) + [".jpg"])
    name = rng.choice(NAME_STEMS) + "".join("." + rng.choice(NAME_COMPONENTS) for _ in range(rng.randint(0, 4)))
    r = rng.random()
    if r < 0.8:
        name += recase(rng.choice(finals), rng.randrange(4))
    elif r < 0.9:
        name += "." + rng.choice(NAME_COMPONENTS)
    elif r < 0.95:
        name += "."
    return {"kind": "dec", "xkind": kind, "name": name, "as_path": rng.random() < 0.5}


DEC_NAMES = {"pickle": ["scan.tar.gz.v2.pkl", "a.gz.b.pkl", "x.gz.PKL.Gz", "a.pkl.gz.pkl", "a.pkl.gz.gz", "U.PKL.GZ", "m.Pkl.gZ",
                        "a..pkl", ".pkl", "x.gz.pkl.gz", "GZ.gz.pkl", "a.gz", "a.pkl.", "a.tar.gz"],
             "landmark": ["x.pkl.copy.ljson", "x.pts.GZ.LJson", "a.gz.b.pts", "a.ljson.pts", "a.pts.ljson", "a.pts.gz", "b.PTSX",
                          "c.ljson.asf"],
             "image": ["y.jpg.png", "y.PNG.Jpg", "a.gz.b.bmp", "y.pkl.gz", "scan.tar.gz.v2.TIF", "a.abs.png", "a.png.abs",
                       "b.jpx", "c.flo.pgm"]}


def case_dec(run, p):
    """the exporter's and the importer's decision (format, compressed) for one file name: real export of a tiny object
    under that name, the bytes on disk, real import; against the model's `exportDecision` / `importDecision`"""
    import numpy as np
    import menpo.io as mio
    from menpo.shape import PointCloud
    from menpo.image import Image
    from pathlib import Path
    ctx = run.ctx
    rp = rp_of(p)
    kind, name = p["xkind"], p["name"]
    site = "C16/names/" + kind
    ctx.case(("dec", kind, name, bool(p.get("as_path"))), nontrivial=name.count(".") > 1,
             sample={"kind": "dec", "exporter": kind, "name": name})
    ctx.count("dec:" + kind)
    ctx.count("dec:dots:%d" % min(name.count("."), 6))
    pts = np.array([[1.5, 2.25], [3.0, -4.125], [0.0, 7.0]])
    px = (np.arange(24, dtype=np.uint8) * 9).reshape(1, 4, 6)
    obj = {"landmark": PointCloud(pts), "image": Image(px.copy()), "pickle": {"k": [1, 2.5, "ü"], "a": pts}}[kind]
    exp_fn = {"landmark": mio.export_landmark_file, "image": mio.export_image, "pickle": mio.export_pickle}[kind]
    imp_fn = {"landmark": mio.import_landmark_file, "pickle": mio.import_pickle,
              "image": lambda f: mio.import_image(f, landmark_resolver=None, normalize=False)}[kind]
    with Scratch() as d:
        fp = os.path.join(d, name)
        before = snapshot(d)
        try:
            exp_fn(obj, Path(fp) if p.get("as_path") else fp)
            ex = "w"
        except ValueError:
            ex = "v"
        except Exception as e:                         # noqa: BLE001
            ex = "x:" + type(e).__name__
        after = snapshot(d)
        if ex != "w":
            ctx.count("dec:refused")
            if after != before:      # a new file: beyond the property text, an observation
                ctx.mismatch("dec", "export to %r ended with %r and changed files on disk: %r" % (name, ex, sorted(after)), rp)
            obs = "err"
        else:
            ctx.count("dec:accepted")
            ctx.check(sorted(after) == [name], site, "wrote-elsewhere",
                      "export to %r wrote %r" % (name, sorted(after)), rp)
            raw = open(fp, "rb").read(2) if os.path.exists(fp) else b""
            gz = raw == b"\x1f\x8b"
            # ---- oracle: the property text (what is written comes back; gzip iff the name says so)
            want_gz = kind == "pickle" and name.lower().endswith(".gz")
            ctx.check(gz == want_gz, site + "/gzip", "compression-flag",
                      "file %r starts with %r: %s" % (name, raw, "not gzipped although the name ends in .gz" if want_gz
                                                      else "gzipped although the name does not end in .gz"), rp)
            try:
                back = imp_fn(Path(fp) if p.get("as_path") else fp)
                ok, why = True, ""
                if kind == "pickle":
                    ok = (list(back.keys()) == ["k", "a"] and back["k"] == obj["k"] and np.array_equal(back["a"], pts))
                    why = "pickle came back as %r" % (back,)
                elif kind == "landmark":
                    b = list(back.values())[0].points
                    ok = b.shape == pts.shape and bool(np.all(np.abs(b - pts) <= (0.000999999 if name.lower().endswith(
                        ".pts") else 0.0)))
                    why = "points came back as %r" % (b.tolist(),)
                elif name.lower().rsplit(".", 1)[-1] not in ("jpg", "jpeg", "jpe"):
                    g = np.asarray(back.pixels)
                    ok = g.shape == px.shape and bool(np.array_equal(g, px))
                    why = "pixels came back as %r" % (g.tolist(),)
                ctx.check(ok, site, "round-trip-differs", "export to / import from %r: %s" % (name, why), rp)
            except Exception as e:                     # noqa: BLE001
                ctx.fail(site, "import-raises", "the file %r written by the %s exporter cannot be imported: %s: %s"
                         % (name, kind, type(e).__name__, e), rp)
            obs = "ok %s %d" % (name_ext_observed(kind, name), 1 if gz else 0)
    run.ask("dec", "%s %s" % (kind, name), lambda rep, obs=obs: dec_cmp(rep, obs, kind, name), rp)


def name_ext_observed(kind, name):
    """the extension the real exporter-side parser returns for the name ('?' if the private helper is gone)"""
    from pathlib import Path
    try:
        from menpo.io.output.base import _parse_and_validate_extension
        from menpo.io.output import extensions as ox
        tbl = {"landmark": ox.landmark_types, "image": ox.image_types, "pickle": ox.pickle_types}[kind]
        return _parse_and_validate_extension(Path("/scratch") / name, None, tbl)
    except (ImportError, AttributeError):
        return "?"
    except ValueError:
        return "err"


def importer_observed(kind, name):
    from pathlib import Path
    try:
        from menpo.io.input.base import importer_for_filepath
        from menpo.io.input import extensions as ix
        tbl = {"landmark": ix.image_landmark_types, "image": ix.image_types, "pickle": ix.pickle_types}[kind]
        return callable_name(importer_for_filepath(Path("/scratch") / name, tbl))
    except (ImportError, AttributeError):
        return "?"
    except ValueError:
        return "err"


def dec_cmp(rep, obs, kind, name):
    ex, _, im = rep.partition(" | ")
    eo = obs.split()
    em = ex.split()
    if eo[0] != em[0]:
        return "exporter: model %r vs implementation %r" % (ex, obs)
    if eo[0] == "ok" and not (em[2] == eo[2] and eo[1] in ("?", em[1])):
        return "exporter (extension, compressed): model %r vs implementation %r" % (ex, obs)
    io = importer_observed(kind, name)
    im_m = im.split()
    if io != "?" and (io == "err") != (im_m[0] == "err"):
        return "importer: model %r vs implementation %r" % (im, io)
    if io not in ("?", "err") and im_m[1] != io:
        return "importer callable: model %r vs implementation %r" % (im, io)
    return None


def gen_lmfront(rng):
    stem = rng.choice(["a", "x.pts", "s.tar.gz", ".h", "", ".", "m.ljson"])
    ext = rng.choice([".ljson", ".ljson", ".LJSON", ".Ljson", ".pts", ".PTS", ".txt", ""])
    return {"kind": "lmfront", "multi": rng.random() < 0.6, "name": stem + ext,
            "userext": rng.choice(["-", "-", "-", ".ljson", "ljson", "LJSON", ".pts", "pts", ".txt"]), "as_path": rng.random() < 0.5}


def case_lmfront(run, p):
    """export_landmark_file's own check in front of the shared export machinery: a dictionary of groups is accepted for
    LJSON only, decided on `Path(fp).suffix` literally"""
    import numpy as np
    import menpo.io as mio
    from menpo.shape import PointCloud
    from pathlib import Path
    ctx = run.ctx
    rp = rp_of(p)
    site = "C16/landmark-front"
    name = p["name"]
    ctx.case(("lmfront", json.dumps(p, sort_keys=True)), nontrivial=name.count(".") > 1)
    ctx.count("lmfront:%s:%s" % ("dict" if p["multi"] else "single", "explicit-extension" if p["userext"] != "-" else "from-name"))
    pc = PointCloud(np.array([[1.0, 2.0], [3.5, 4.25]]))
    obj = {"g": pc, "h": PointCloud(np.array([[0.0, 1.0]]))} if p["multi"] else pc
    if name in ("", ".", ".."):
        return
    with Scratch() as d:
        fp = os.path.join(d, name)
        kw = {} if p["userext"] == "-" else {"extension": p["userext"]}
        try:
            mio.export_landmark_file(obj, Path(fp) if p["as_path"] else fp, **kw)
            head = open(fp, "rb").read(1)
            obs = "ok " + (".ljson" if head == b"{" else ".pts")
        except ValueError:
            obs = "err"
            if os.path.exists(fp):      # a new file: beyond the property text, an observation
                ctx.mismatch("lmfront", "a refused export created %r" % name, rp)
        except Exception as e:                     # noqa: BLE001
            obs = "exc " + type(e).__name__
        if obs.startswith("ok"):
            # ---- oracle: what was written can be read back, with every group
            try:
                back = mio.import_landmark_file(fp)
                want = ["g", "h"] if p["multi"] else (["LJSON"] if obs == "ok .ljson" else ["PTS"])
                ctx.check(sorted(back.keys()) == want, site, "groups-differ",
                          "exported %r to %r, groups %r came back" % (want, name, sorted(back.keys())), rp)
            except Exception as e:                 # noqa: BLE001
                ctx.fail(site, "import-raises", "the landmark file %r just written cannot be imported: %s: %s" % (
                    name, type(e).__name__, e), rp)
    run.ask("lmfront", "%d %s %s" % (1 if p["multi"] else 0, "-" if p["userext"] == "-" else norm_ext(p["userext"]), name),
            obs, rp)


def case_norm(run, p):
    from pathlib import Path
    ctx = run.ctx
    ctx.case(("norm", p["cwd"], p["spelling"]), nontrivial="/" in p["spelling"])
    sp0 = p["spelling"]
    ctx.count("norm:" + ("absolute" if sp0.startswith("@ROOT@") else "tilde" if "~" in sp0 else "variable" if "$" in sp0
                         else "relative"))
    try:
        from menpo.io.utils import _norm_path
    except (ImportError, AttributeError):
        ctx.count("norm:private-helper-unavailable")
        return
    with Scratch() as d, EnvVars(HOME=d + p.get("home_tail", ""), C16ROOT=d, C16SUB="p/q"):
        cwd = os.path.join(d, p["cwd"])
        os.makedirs(cwd)
        os.chdir(cwd)
        sp = sp0.replace("@ROOT@", d)
        obs = "ok %s %s" % (_norm_path(Path(sp)), _norm_path(sp))
        req = "%s 3 HOME %s C16ROOT %s C16SUB p/q %s" % (cwd, d + p.get("home_tail", ""), d, sp)
    run.ask("norm", req, obs, rp_of(p))


def gen_norm(rng):
    comps = ["a", "b", "..", ".", "", "c.d", "..", "x", "$C16SUB", "${C16SUB}", "$C16UNSET", "${C16UNSET}x", "~", "$", "${C16SUB",
             "a$C16SUB.b", "$C16SUBx", "~c16nosuchuser"]
    body = "/".join(rng.choice(comps) for _ in range(rng.randint(1, 6))) + "/" + rng.choice(["f.pkl", "g.tar.gz", "h"])
    r = rng.random()
    if r < 0.3:
        body = "@ROOT@/" + body
    elif r < 0.5:
        body = rng.choice(["~/", "~", "./~/", "~//", "$C16ROOT/", "${C16ROOT}/./", "~c16nosuchuser/", ".//~/"]) + body
    elif body.startswith("/"):
        body = "." + body
    return {"kind": "norm", "cwd": rng.choice(["w", "w/v", "p/q/r"]), "spelling": body,
            "home_tail": rng.choice(["", "", "/", "//"])}


OSLIB_COMPS = ["a", "b", "..", ".", "", "c.d", "..", "x y".replace(" ", "_"), "...", "..a", "~", "$V"]


def gen_oslib(rng):
    n = rng.randint(0, 6)
    body = "/".join(rng.choice(OSLIB_COMPS) for _ in range(n))
    lead = rng.choice(["", "", "/", "/", "//", "///", "////", "./", "../"])
    return {"kind": "oslib", "cwd": rng.choice(["/", "/w", "/w/v.d", "/p/q/r"]), "s": lead + body + rng.choice(["", "", "/", "//", "/."])}


def case_oslib(run, p):
    """the library functions `_norm_path` is composed of, one by one: os.path.normpath, os.path.abspath (for a working
    directory that need not exist: posixpath.abspath only reads os.getcwd()), str(PurePosixPath(s))"""
    import posixpath
    from pathlib import PurePosixPath
    ctx = run.ctx
    s, cwd = p["s"], p["cwd"]
    ctx.case(("oslib", cwd, s), nontrivial=len(s) > 1)
    ctx.count("oslib:" + ("empty" if not s else "two-slashes" if s.startswith("//") and not s.startswith("///")
                           else "absolute" if s.startswith("/") else "relative"))
    ab = posixpath.normpath(s if s.startswith("/") else posixpath.join(cwd, s))       # = posixpath.abspath with getcwd() = cwd
    obs = "ok %s %s %s" % (posixpath.normpath(s), ab, str(PurePosixPath(s)))
    run.ask("oslib", "%s %s" % (cwd, s if s else "@E@"), obs, rp_of(p))


def gen_normsrc(rng):
    q = gen_norm(rng)
    sp = q["spelling"]
    if sp.startswith("@ROOT@") and rng.random() < 0.5:
        sp = rng.choice(["/", "//"]) + sp              # two and three leading slashes
    return {"kind": "normsrc", "cwd": q["cwd"], "spelling": sp, "home_tail": q["home_tail"]}


def case_normsrc(run, p):
    """`_norm_path` as the code composes it (string by string): the model's `normPathSpec` must return the very string"""
    from pathlib import Path
    ctx = run.ctx
    ctx.case(("normsrc", json.dumps(p, sort_keys=True)), nontrivial=True)
    sp0 = p["spelling"]
    ctx.count("normsrc:" + ("two-slashes" if sp0.startswith("/@ROOT@") else "three-slashes" if sp0.startswith("//@ROOT@")
                             else "absolute" if sp0.startswith("@ROOT@") else "tilde" if "~" in sp0
                             else "variable" if "$" in sp0 else "relative"))
    try:
        from menpo.io.utils import _norm_path
    except (ImportError, AttributeError):
        ctx.count("normsrc:private-helper-unavailable")
        return
    with Scratch() as d, EnvVars(HOME=d + p.get("home_tail", ""), C16ROOT=d, C16SUB="p/q"):
        cwd = os.path.join(d, p["cwd"])
        os.makedirs(cwd)
        os.chdir(cwd)
        sp = sp0.replace("@ROOT@", d)
        a, b = _norm_path(Path(sp)), _norm_path(sp)
        two = lambda x: str(x)[1:] if str(x).startswith("//") else str(x)       # the file `//x` names is `/x`
        obs = "ok %s %s %s %s" % (a, b, two(a), two(b))
        req = "%s 3 HOME %s C16ROOT %s C16SUB p/q %s" % (cwd, d + p.get("home_tail", ""), d, sp)
    run.ask("normsrc", req, obs, rp_of(p))


def case_xdec(run, p):
    """the translated extension logic (specifications of `_possible_extensions_from_filepath`,
    `_parse_and_validate_extension`, `importer_for_filepath`) against the live functions, for one file name"""
    from pathlib import Path
    ctx = run.ctx
    kind, name = p["xkind"], p["name"]
    ctx.case(("xdec", kind, name), nontrivial=name.count(".") > 1)
    ctx.count("xdec:" + kind)
    try:
        from menpo.io.utils import _possible_extensions_from_filepath
        from menpo.io.output.base import _parse_and_validate_extension
        from menpo.io.input.base import importer_for_filepath
        import menpo.io.output.extensions as ox
        import menpo.io.input.extensions as ix
    except (ImportError, AttributeError):
        ctx.count("xdec:private-helper-unavailable")
        return
    exm = {"landmark": ox.landmark_types, "image": ox.image_types, "pickle": ox.pickle_types, "video": ox.video_types}[kind]
    imm = {"landmark": ix.image_landmark_types, "image": ix.image_types, "pickle": ix.pickle_types,
           "video": ix.ffmpeg_video_types}[kind]
    fp = Path("/d") / name
    try:
        e = "ok " + _parse_and_validate_extension(fp, None, exm)
    except ValueError:
        e = "err"
    try:
        i = callable_name(importer_for_filepath(fp, imm))
    except ValueError:
        i = "err"
    obs = "%s | %s | %s | %s" % (e, i, fp.name, " ".join(_possible_extensions_from_filepath(fp)))
    run.ask("xdec", "%s %s" % (kind, "/d/" + name), obs, rp_of(p))


PIX_DTYPES = ["uint8", "uint16", "float32", "float64", "bool", "int32"]


def gen_pixdec(rng):
    d = rng.choice(PIX_DTYPES)
    n = rng.randint(1, 6)
    if d in ("uint8", "uint16"):
        top = 255 if d == "uint8" else 65535
        vals = [rng.choice([0, 1, 33, top - 1, top, rng.randint(0, top)]) for _ in range(n)]
    elif d == "bool":
        vals = [rng.randint(0, 1) for _ in range(n)]
    elif d == "int32":
        vals = [rng.randint(-3, 300) for _ in range(n)]
    else:
        q = rng.random()
        vals = [F(rng.randint(-2 if q < 0.15 else 0, 258 if q > 0.85 else 256), 256) for _ in range(n)]   # exact in binary32
    return {"kind": "pixdec", "dtype": d, "out": rng.choice(PIX_DTYPES), "vals": [str(v) for v in vals],
            "err": rng.random() < 0.7}


def case_pixdec(run, p):
    """the decision logic of normalize_pixels_range / denormalize_pixels_range (dtype ladder, range check, which
    arithmetic) on small arrays of every dtype, against the specifications the translated functions are proved equal to"""
    import numpy as np
    from menpo.image.base import normalize_pixels_range, denormalize_pixels_range
    ctx = run.ctx
    ctx.case(("pixdec", json.dumps(p, sort_keys=True)), nontrivial=len(p["vals"]) > 1)
    ctx.count("pixdec:%s->%s" % (p["dtype"], p["out"]))
    vals = [F(v) for v in p["vals"]]
    arr = np.array([float(v) for v in vals]).astype(p["dtype"])
    tok = lambda d: d if d in ("uint8", "uint16", "float32", "float64", "bool") else "other"
    vtok = "%d %s" % (len(vals), " ".join(fq(v) for v in vals))

    def show(fn, *a):
        try:
            r = fn(*a)
        except ValueError:
            return "err"
        return "ok %s %s" % (tok(str(r.dtype)), " ".join(fq(float(x)) for x in r.ravel().tolist()))
    run.ask("pixnorm", "%s %d %s" % (tok(p["dtype"]), 1 if p["err"] else 0, vtok),
            show(normalize_pixels_range, arr, p["err"]), rp_of(p))
    run.ask("pixdenorm", "%s %s %s" % (tok(p["dtype"]), tok(p["out"]), vtok),
            show(denormalize_pixels_range, arr, np.dtype(p["out"])), rp_of(p))


def gen_v3doc(rng):
    """a hand-written version-3 document: schema-valid, but with ragged / empty point lists, edges and mask indices
    outside the point set, repeated labels, unlabelled points"""
    groups = []
    names = rng.sample(["a", "b", "c", "LJSON"], rng.randint(1, 3))
    for nm in names:
        n = rng.randint(0 if rng.random() < 0.1 else 1, 5)
        d = rng.choice([2, 2, 3, 3, 1, 0]) if rng.random() < 0.25 else rng.choice([2, 3])
        rows = [[None if rng.random() < 0.15 else rng.randint(-9, 40) / 4.0 for _ in range(d)] for _ in range(n)]
        if rows and rng.random() < 0.15:
            rows[rng.randrange(len(rows))] = rows[0][:1] + rows[0]          # ragged
        r = rng.random()
        top = max(n, 1) + (1 if rng.random() < 0.15 else 0)
        conn = None if r < 0.35 else [[rng.randrange(top), rng.randrange(top)] for _ in range(rng.randint(0, 4))]
        labels = []
        if rng.random() < 0.6:
            covering = rng.random() < 0.8
            pool = ["l0", "l1", "l2", "l1"]
            k = rng.randint(1, 3)
            for j in range(k):
                idx = sorted(set(rng.randrange(top) for _ in range(rng.randint(0, max(n, 1)))))
                if covering and j == k - 1:
                    idx = list(range(n))
                labels.append([pool[rng.randrange(len(pool))], idx])
        groups.append({"name": nm, "rows": rows, "conn": conn, "labels": labels})
    return {"kind": "v3doc", "groups": groups}


def case_v3doc(run, p):
    """the TRANSLATED _parse_ljson_v3 / _parse_ljson_v2 (their specifications) against the real importer on a
    hand-written document (version 2: the document is its first group)"""
    import numpy as np
    import menpo.io as mio
    ctx = run.ctx
    v2 = p.get("version") == 2
    ctx.case(("v3doc", json.dumps(p, sort_keys=True)), nontrivial=True)
    doc = {"version": 3, "groups": {}}
    for g in p["groups"]:
        lm = {"points": g["rows"]}
        if g["conn"] is not None:
            lm["connectivity"] = g["conn"]
        doc["groups"][g["name"]] = {"landmarks": lm, "labels": [{"label": l, "mask": m} for l, m in g["labels"]]}
    if v2:
        doc = dict(doc["groups"][p["groups"][0]["name"]], version=2)
    with Scratch() as d:
        fp = os.path.join(d, "h.ljson")
        with open(fp, "w") as f:
            json.dump(doc, f)
        import warnings
        try:
            with warnings.catch_warnings():
                warnings.simplefilter("ignore")
                back = mio.import_landmark_file(fp)
            obs = None
        except (IndexError, ValueError) as e:
            back, obs = None, "err " + type(e).__name__
        except Exception as e:                      # noqa: BLE001 - reported as a mismatch with the model
            back, obs = None, "err other:" + type(e).__name__
    ctx.count(("v2doc:" if v2 else "v3doc:") + (obs or "ok"))
    gid = {g["name"]: g["name"] for g in p["groups"]}
    if obs is None:
        exp = [str(len(back))]
        for nm in back.keys():                      # file order (the document is not sorted)
            b = back[nm]
            be = sorted(tuple(e) for e in getattr(b, "edges", np.zeros((0, 2), int)).tolist())
            lm = label_masks(b)
            exp += [nm, type(b).__name__, str(b.n_points), str(b.n_dims)] + [fcoord(float(v)) for v in b.points.ravel()]
            exp += [str(len(be))] + [str(x) for e in be for x in e] + [str(len(lm))]
            for l, m in lm:
                exp += [l] + [str(int(x)) for x in m]
        obs = "ok " + " ".join(exp)
    req = [] if v2 else [str(len(p["groups"]))]
    for g in (p["groups"][:1] if v2 else p["groups"]):
        req += ([] if v2 else [g["name"]]) + legacy_rows_tok(g["rows"])
        req += ["-1"] if g["conn"] is None else [str(len(g["conn"]))] + [str(x) for e in g["conn"] for x in e]
        req += [str(len(g["labels"]))]
        for l, m in g["labels"]:
            req += [l, str(len(m))] + [str(x) for x in m]
    run.ask("v2doc" if v2 else "v3doc", " ".join(req), obs, rp_of(p))


def gen_v1doc(rng):
    groups = []
    d = rng.choice([2, 3])
    for nm in [rng.choice(["g0", "g1", "g2", "g0"]) for _ in range(rng.randint(0 if rng.random() < 0.1 else 1, 3))]:
        n = rng.randint(0 if rng.random() < 0.2 else 1, 4)
        rows = [[None if rng.random() < 0.15 else rng.randint(-9, 40) / 4.0 for _ in range(d)] for _ in range(n)]
        if rows and rng.random() < 0.1:
            rows[-1] = rows[-1] + [1.5]
        top = max(n, 1) + (1 if rng.random() < 0.2 else 0)
        r = rng.random()
        conn = "absent" if r < 0.3 else None if r < 0.4 else [[rng.randrange(top), rng.randrange(top)] for _ in range(rng.randint(0, 3))]
        groups.append({"label": nm, "rows": rows, "conn": conn})
    return {"kind": "v1doc", "groups": groups}


def case_v1doc(run, p):
    """the TRANSLATED _parse_ljson_v1 (its specification) against the real importer on a hand-written document"""
    import numpy as np
    import menpo.io as mio
    import warnings
    ctx = run.ctx
    ctx.case(("v1doc", json.dumps(p, sort_keys=True)), nontrivial=True)
    doc = {"version": 1, "groups": []}
    for g in p["groups"]:
        e = {"label": g["label"], "landmarks": [{"point": r} for r in g["rows"]]}
        if g["conn"] != "absent":
            e["connectivity"] = g["conn"]
        doc["groups"].append(e)
    with Scratch() as d:
        fp = os.path.join(d, "h.ljson")
        with open(fp, "w") as f:
            json.dump(doc, f)
        try:
            with warnings.catch_warnings():
                warnings.simplefilter("ignore")
                back = mio.import_landmark_file(fp)
            obs = None
        except (IndexError, ValueError) as e:
            back, obs = None, "err " + type(e).__name__
        except Exception as e:                      # noqa: BLE001 - reported as a mismatch with the model
            back, obs = None, "err other:" + type(e).__name__
    ctx.count("v1doc:" + (obs or "ok"))
    if obs is None:
        exp = [str(len(back))]
        for nm in back.keys():
            b = back[nm]
            be = sorted(tuple(e) for e in getattr(b, "edges", np.zeros((0, 2), int)).tolist())
            lm = label_masks(b)
            exp += [nm, type(b).__name__, str(b.n_points), str(b.n_dims)] + [fcoord(float(v)) for v in b.points.ravel()]
            exp += [str(len(be))] + [str(x) for e in be for x in e] + [str(len(lm))]
            for l, m in lm:
                exp += [l] + [str(int(x)) for x in m]
        obs = "ok " + " ".join(exp)
    req = [str(len(p["groups"]))]
    for g in p["groups"]:
        req += [g["label"]] + legacy_rows_tok(g["rows"])
        req += ["-1"] if g["conn"] in ("absent", None) else [str(len(g["conn"]))] + [str(x) for e in g["conn"] for x in e]
    run.ask("v1doc", " ".join(req), obs, rp_of(p))


def case_ljsonver(run, p):
    """the version dispatch of ljson_importer: which parser the live table names for a version number"""
    ctx = run.ctx
    ctx.case(("ljsonver", p["v"]), nontrivial=True)
    import menpo.io.input.landmark as il
    f = il._ljson_parser_for_version.get(F(p["v"]) if "/" in p["v"] else int(p["v"]))
    run.ask("ljsonver", p["v"], "err" if f is None else "ok " + callable_name(f), rp_of(p))


def case_exts(run, p):
    ctx = run.ctx
    ctx.case(("exts", p["xkind"]), nontrivial=True)
    from menpo.io.output import extensions as ox
    tbl = {"landmark": ox.landmark_types, "image": ox.image_types, "pickle": ox.pickle_types, "video": ox.video_types}[p["xkind"]]

    def cmp(rep, tbl=tbl):
        got = sorted(rep.split()[1:])
        return None if got == sorted(tbl.keys()) else "exporter extension table %s: model %r vs live dictionary %r" % (
            p["xkind"], got, sorted(tbl.keys()))
    run.ask("exts", p["xkind"], cmp, rp_of(p))


# --------------------------------------------------------------------------------------------- dispatch

CASES = {"ljson": case_ljson, "ljson-empty": case_ljson_empty, "pts": case_pts, "pickle": case_pickle,
         "image8": case_image8, "imagef": case_imagef, "mode": case_mode, "guard": case_guard, "ext": case_ext,
         "dec": case_dec, "legacy": case_legacy, "range": case_range, "ptsn": case_ptsn, "ptree": case_ptree, "lmfront": case_lmfront,
         "norm": case_norm, "exts": case_exts, "oslib": case_oslib, "normsrc": case_normsrc, "xdec": case_xdec,
         "pixdec": case_pixdec, "ljsonver": case_ljsonver, "v3doc": case_v3doc, "v1doc": case_v1doc}


def run_case(run, p):
    CASES[p["kind"]](run, p)


def explore(run, k, thorough=False):
    rng = run.ctx.rng
    fmts = lossless_codecs(run)
    if not fmts:
        raise common.Infra("no lossless PIL codec works in this sandbox (probed %r)" % LOSSLESS_CANDIDATES)
    for _ in range(40 * k):
        run_case(run, gen_ljson(rng))
    for dim in (2, 3):
        run_case(run, {"kind": "ljson-empty", "dim": dim})
    for _ in range(30 * k):
        run_case(run, gen_legacy(rng))
    for _ in range(25 * k):
        run_case(run, gen_pts(rng))
    for _ in range(15 * k):
        run_case(run, gen_ptsn(rng))
    recipes = list(pickle_recipes().keys())
    for r in recipes:                       # every family, every run
        run_case(run, gen_pickle(rng, r))
    for _ in range(10 * k):
        run_case(run, gen_pickle(rng))
    for top in ("O", "O", "L", "D", "T", None, None):      # object trees (menpo objects on top twice, every container once)
        for _ in range(2 * k):
            run_case(run, {"kind": "ptree", "tree": gen_ptree(rng, top=top), "gz": rng.random() < 0.5,
                           "protocol": rng.choice([2, 3, 4])})
    # every lossless codec x {grey, RGB} with all 256 values, every run
    for f in fmts:
        for src in ("L", "RGB"):
            p = gen_image8(rng, fmts, source=src, all256=True)
            p["fmt"] = f
            run_case(run, p)
    for src in ("RGBA", "1", "mem-u8", "mem-bool"):
        run_case(run, gen_image8(rng, fmts, source=src, all256=(src not in ("1", "mem-bool"))))
    for _ in range(20 * k):
        run_case(run, gen_image8(rng, fmts))
    for dt in ("float64", "float32"):
        run_case(run, {"kind": "imagef", "dtype": dt, "channels": 1, "h": 25, "w": 41, "seed": rng.randrange(10 ** 6),
                       "fmt": rng.choice(fmts), "masked": False, "all_levels": True})
    for _ in range(25 * k):
        run_case(run, gen_imagef(rng, fmts))
    for c in (1, 2, 3, 4, 5):
        run_case(run, {"kind": "mode", "channels": c})
    for N in (255, 65535):
        run_case(run, {"kind": "range", "N": N})
    for ex in ("landmark", "image", "pickle", "video"):
        for _ in range(3):
            run_case(run, gen_guard(rng, ex))
        nm = GOOD_NAMES[ex][1]          # directed: '~', './~' (str and Path), $VAR spellings of one existing file
        for first in (13, 7):
            run_case(run, {"kind": "guard", "exporter": ex, "sub": "sub", "precreate": [nm], "tilde_dir": True, "ops": [
                {"name": nm, "spell": first, "as_path": False, "overwrite": False, "userext": "-"},
                {"name": nm, "spell": 13, "as_path": True, "overwrite": False, "userext": "-"},
                {"name": nm, "spell": 8, "as_path": False, "overwrite": True, "userext": "-"},
                {"name": nm, "spell": 13, "as_path": False, "overwrite": True, "userext": "-"},
                {"name": nm, "spell": 9, "as_path": True, "overwrite": False, "userext": "-"}]})
    for nm in ("x.pts", "X.LJSON", "y.ljson"):          # a dictionary / LandmarkManager aimed at an existing file
        run_case(run, {"kind": "guard", "exporter": "landmark", "sub": "sub", "precreate": [nm], "tilde_dir": False, "ops": [
            {"name": nm, "spell": 0, "as_path": False, "overwrite": False, "userext": "-", "multi": True},
            {"name": nm, "spell": 1, "as_path": True, "overwrite": False, "userext": "-", "multi": True},
            {"name": nm, "spell": 0, "as_path": False, "overwrite": False, "userext": "-"},
            {"name": nm, "spell": 0, "as_path": True, "overwrite": True, "userext": "-", "multi": True}]})
    for _ in range(30 * k):
        run_case(run, gen_guard(rng))
    for _ in range(30 * k):
        xk = rng.choice(["landmark", "image", "pickle", "video"])
        run_case(run, {"kind": "ext", "xkind": xk, "name": gen_name(rng, xk)})
    for _ in range(20 * k):
        run_case(run, gen_norm(rng))
    for _ in range(12 * k):
        run_case(run, gen_lmfront(rng))
    for xk in ("pickle", "landmark", "image"):          # the directed multi-dot names, every run
        for nm in DEC_NAMES[xk]:
            run_case(run, {"kind": "dec", "xkind": xk, "name": nm, "as_path": rng.random() < 0.5})
    for _ in range(40 * k):
        run_case(run, gen_dec(rng, rng.choice(["pickle", "pickle", "landmark", "image"]), fmts))
    for xk in ("landmark", "image", "pickle", "video"):
        run_case(run, {"kind": "exts", "xkind": xk})
    # the vocabulary of the translated plumbing: the library functions one by one, `_norm_path` string by string
    # (two / three leading slashes included), the extension logic for multi-dot names
    for s in ("", "/", "//", "///", ".", "..", "a/..", "//a/../..", "a//b/./c/", "../../a"):
        run_case(run, {"kind": "oslib", "cwd": "/w/v.d", "s": s})
    for _ in range(25 * k):
        run_case(run, gen_oslib(rng))
    for _ in range(15 * k):
        run_case(run, gen_normsrc(rng))
    for xk in ("pickle", "landmark", "image"):
        for nm in DEC_NAMES[xk]:
            run_case(run, {"kind": "xdec", "xkind": xk, "name": nm})
    for _ in range(15 * k):
        xk = rng.choice(["landmark", "image", "pickle", "video"])
        run_case(run, {"kind": "xdec", "xkind": xk, "name": gen_name(rng, xk)})
    for d_in in PIX_DTYPES:                              # every (input dtype, output dtype) pair, every run
        for d_out in PIX_DTYPES:
            q = gen_pixdec(rng)
            while q["dtype"] != d_in:
                q = gen_pixdec(rng)
            q["out"] = d_out
            run_case(run, q)
    for _ in range(10 * k):
        run_case(run, gen_pixdec(rng))
    for v in ("0", "1", "2", "3", "4", "5/2"):
        run_case(run, {"kind": "ljsonver", "v": v})
    for _ in range(15 * k):
        run_case(run, gen_v3doc(rng))
    for _ in range(10 * k):
        run_case(run, dict(gen_v3doc(rng), version=2))
    for _ in range(10 * k):
        run_case(run, gen_v1doc(rng))


def search(ctx):
    """directed search on the real code (oracle only) after the model/implementation tie broke"""
    r = Run(ctx, model=False)
    before = ctx.evaluations
    for op, _, rp in ctx.mismatches[:10]:          # the mismatching cases first, then their neighbourhood
        c = rp.get("case") if isinstance(rp, dict) else None
        if c and c.get("kind") in CASES:
            try:
                run_case(r, c)
            except Exception:
                pass
    explore(r, 8)
    ctx.searched += ctx.evaluations - before
    return bool(ctx.failures)


def run(ctx):
    gen_ok = generated(ctx)
    src_mods, src_thms = generated_src(ctx)
    # a regenerated obligation that no longer checks is left out of the audit (what still builds is audited), then the
    # oracle searches
    common.prepare_lean(ctx, PROP, IMPORTS + ([GEN_IMPORT] if gen_ok else []) + src_mods,
                        THEOREMS + (GEN_THEOREMS if gen_ok else []) + src_thms,
                        targets=TARGETS + ([GEN_IMPORT] if gen_ok else []) + src_mods)
    ctx.trusted += ["Lean Float = IEEE binary64 as numpy float64 (validated on all 256 eight-bit values each run)",
                    "contracts: json, '%.3f', PIL lossless codecs (probed per run), pickle, gzip, os.path"]
    r = Run(ctx)
    explore(r, ctx.n(4, 80), thorough=not ctx.quick())
    r.settle()
    return ctx.finish(search)


def replay(ctx, path):
    data = json.load(open(path))
    print(json.dumps(data, indent=1, default=str)[:3000])
    rp = data.get("replay")
    if rp is None and data.get("broken_correspondence"):
        rp = data["broken_correspondence"][0].get("case")
    case = rp.get("case") if isinstance(rp, dict) else None
    if not case or case.get("kind") not in CASES:
        ctx2 = common.Ctx(PROP, "quick", int(data.get("seed", 0)))
        return run(ctx2)
    common.prepare_lean(ctx, PROP, IMPORTS, THEOREMS, targets=TARGETS)
    r = Run(ctx)
    lossless_codecs(r)
    run_case(r, case)
    r.settle()
    return ctx.finish(None)
