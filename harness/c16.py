"""C16 — export then import returns the same data; files are never clobbered unasked (DESIGN.md section 6, C16).

Parties of every case: the real menpo.io (export_* then import_* on files under tempfile.mkdtemp(), removed per
case); the property oracle (the property text on the real objects / the real bytes, independent of the Lean
model); the Lean model (LJSON value tree, points format, IEEE eight-bit conversion, exact float quantisation,
path normalisation + extension parsing + overwrite guard), asked through one driver run.

Every case is a JSON-able parameter dictionary (`params`) built by a generator and executed by `run_case`; a
replay file stores the dictionary, `./check C16 --replay <file>` executes it again.
"""
import hashlib
import json
import os
import shutil
import tempfile
from fractions import Fraction as F

from . import common
from .common import fq

PROP = "C16"
INFO = dict(
    technique="Lean 4 proof (LJSON encode/decode round trip on a JSON value tree; points-format rounding bound; "
              "kernel-decided IEEE binary64 eight-bit round trip over all 256 values; exact quantisation bound; "
              "overwrite guard as an invariant over every export history; path normalisation and longest-known "
              "extension parsing) + model/implementation correspondence and a bytes-level oracle on real files",
    level_text="Theorems over an executable model of ljson_exporter/tojson/ljson_importer (identical coordinates incl. "
               "missing values, symmetrised edge set, labels in order, group names, version dispatch), of "
               "pts_exporter/pts_importer (axis swap, 1-based offset, three decimals), of normalize_pixels_range / "
               "denormalize_pixels_range on IEEE doubles (all 256 eight-bit values decided by the kernel: the coded "
               "truncating cast loses exactly 24 values by one level - refuted by witness - the rounding repair loses "
               "none), of the float quantisation (< one level), and of _norm_path / _parse_and_validate_extension / "
               "_validate_filepath / _export (a refused export raises OverwriteError and leaves the file system "
               "unchanged, for every history, exporter kind and spelling).  Tied to /repo by exporting and re-importing "
               "real files (all shape classes and managers, 2-D/3-D, NaN, unicode ordered labels; every lossless PIL "
               "codec of the sandbox x grey/RGB/RGBA/binary sources with all 256 values; float64/float32 images; "
               "every picklable menpo object plain and gzipped; export histories with str/Path, relative/absolute, "
               "redundant spellings and multi-dot names with the directory hashed before and after every call).",
    level_note="Trusted: Lean kernel; axioms propext/Classical.choice/Quot.sound; that Lean's Float and numpy's float64 "
               "are the same IEEE binary64 operations (validated on all 256 values by the correspondence); harness; "
               "driver parser.  Contract parameters (not verified, checked on every run): json (value tree written = "
               "value tree read, repr round-trips doubles), '%.3f' (correctly rounded, ties on the exact value to "
               "even), PIL lossless codecs (probed per run with PIL alone), pickle/gzip, os.path.normpath/abspath.",
    rule="a case = one export/import round trip of one object through one file format, or one export history "
         "(<= 6 exports, mixed spellings and overwrite flags) on one exporter, or one name/spelling for the "
         "extension parser / path normaliser; distinct = distinct parameter dictionary; non-trivial = more than one "
         "point / pixel value / operation, or a name with more than one dot",
    partial=["pickle: Python's serialiser is a contract (model = identity); the clause has no theorem and is decided by "
             "the state-equality oracle on real .pkl / .pkl.gz files of every menpo object family",
             "eight-bit theorem is about uint8 (the property's quantifier); the uint16 analogue is not proved",
             "path spellings with '~' or '$VAR' are not modelled (the guard checks the expanded path, _export opens the "
             "unexpanded one); symbolic links are not modelled",
             "LJSON v1/v2 parsers (import only, never written by the exporter) are not modelled",
             "JPEG and other lossy codecs are covered by the overwrite guard only; EPS/GIF/DCX/PCD/PSD/XBM/XPM/video "
             "cannot be written or read back in this sandbox (no Ghostscript/ffmpeg/PIL writer) and are covered by the "
             "guard (refusal happens before the codec is reached) only"],
    assumptions=["temporary directories are on a POSIX file system without symbolic links below the scratch root"],
    design_ref="DESIGN.md section 6, C16")
IMPORTS = ["MenpoModel.Props.C16"]
THEOREMS = [
    "MenpoModel.C16.ljson_roundtrip", "MenpoModel.C16.ljson_group_names", "MenpoModel.C16.ljson_group_content",
    "MenpoModel.C16.ljson_edges_stable", "MenpoModel.C16.ljson_version_dispatch",
    "MenpoModel.C16.ljson_empty_points_error", "MenpoModel.C16.ljson_other_dims_dropped",
    "MenpoModel.C16.pts_roundtrip_3dp", "MenpoModel.C16.pts_roundtrip_exact",
    "MenpoModel.C16.u8_roundtrip_round", "MenpoModel.C16.u8_trunc_failures", "MenpoModel.C16.u8_trunc_off_by_one",
    "MenpoModel.C16.u8_trunc_refuted", "MenpoModel.C16.quant_exact_levels",
    "MenpoModel.C16.float_export_error_lt_one_level", "MenpoModel.C16.channel_layout_roundtrip",
    "MenpoModel.C16.export_guard_refuses", "MenpoModel.C16.export_guard_history", "MenpoModel.C16.export_guard_frame",
    "MenpoModel.C16.export_guard_spelling", "MenpoModel.C16.normpath_redundant_spellings",
    "MenpoModel.C16.normpath_fixed", "MenpoModel.C16.extension_parse_longest_known",
]

TRUNC24 = [33, 37, 41, 45, 49, 53, 57, 61, 66, 74, 82, 90, 98, 106, 114, 122, 132, 148, 164, 180, 196, 212, 228, 244]
LOSSLESS_CANDIDATES = [".bmp", ".dib", ".im", ".pbm", ".pcx", ".pgm", ".png", ".ppm", ".tif", ".tiff"]
SITE_U8 = "C16/image8/denormalize_pixels_range"
PAT_U8 = "truncation-one-lower-24-values"
UNICODE_NAMES = ["left eye", "größe", "眼", "b", "a", "Z", "nose.tip", "été", "_", "0"]


# --------------------------------------------------------------------------------------------- scratch

class Scratch:
    """a temporary directory outside /verif and /repo; cwd restored and directory removed on exit"""

    def __enter__(self):
        self.old = os.getcwd()
        self.d = os.path.realpath(tempfile.mkdtemp(prefix="c16-"))
        return self.d

    def __exit__(self, *exc):
        os.chdir(self.old)
        shutil.rmtree(self.d, ignore_errors=True)
        return False


def snapshot(d):
    """{relative path: sha256 of the bytes} of every file below d"""
    out = {}
    for root, _, files in os.walk(d):
        for fn in files:
            p = os.path.join(root, fn)
            with open(p, "rb") as f:
                out[os.path.relpath(p, d)] = hashlib.sha256(f.read()).hexdigest()
    return out


# --------------------------------------------------------------------------------------------- run

class Run:
    def __init__(self, ctx, model=True):
        self.ctx = ctx
        self.model = model
        self.lines = []
        self.pending = {}
        self.u8_obs = {}       # eight-bit value -> set of values that came back after normalise -> export -> import
        self.q8_obs = {}       # m (pixel = m/1024) -> set of stored levels
        self.codecs = None

    def ask(self, op, args, expect, replay):
        """queue a model query; `expect` = the reply the implementation's behaviour corresponds to"""
        if not self.model:
            return
        cid = "q%d" % len(self.lines)
        self.lines.append("%s %s %s" % (cid, op, args))
        self.pending[cid] = (op, expect, replay)

    def settle(self):
        if not self.model:
            return
        ctx = self.ctx
        ks = sorted(self.u8_obs)
        ms = sorted(self.q8_obs)
        for k in ks:
            self.lines.append("u8_%d u8 %d" % (k, k))
        for m in ms:
            self.lines.append("q8_%d q8 %s" % (m, fq(F(m, 1024))))
        if not self.lines:
            return
        model = common.run_driver(PROP, self.lines)
        for cid, (op, expect, rp) in self.pending.items():
            rep = model[cid]
            if callable(expect):
                msg = expect(rep)
                if msg:
                    ctx.mismatch(op, msg, rp)
            elif rep != expect:
                ctx.mismatch(op, "model %r vs implementation %r" % (rep[:400], expect[:400]), rp)
        # the range conversion: the implementation must be one of the two modelled conversions, uniformly
        variants = set()
        for k in ks:
            t, r = [int(x) for x in model["u8_%d" % k].split()[1:]]
            got = self.u8_obs[k]
            if got == {r}:
                variants.add("round" if t != r else "either")
            elif got == {t}:
                variants.add("trunc")
            else:
                ctx.mismatch("u8", "eight-bit value %d came back as %r; model: coded %d, repaired %d" % (k, sorted(got), t, r),
                             {"case": {"kind": "u8", "k": k}})
        for m in ms:
            t, r = [int(x) for x in model["q8_%d" % m].split()[1:]]
            got = self.q8_obs[m]
            if got == {r}:
                variants.add("round" if t != r else "either")
            elif got == {t}:
                variants.add("trunc")
            else:
                ctx.mismatch("q8", "float pixel %d/1024 stored as %r; model: coded %d, repaired %d" % (m, sorted(got), t, r),
                             {"case": {"kind": "q8", "m": m}})
        variants.discard("either")
        if len(variants) > 1:
            ctx.mismatch("u8", "the range conversion is neither uniformly the coded (truncating) nor uniformly the "
                               "repaired (rounding) model", {"variants": sorted(variants)})
        ctx.notes["denormalize_variant_observed"] = sorted(variants)[0] if len(variants) == 1 else (
            "undetermined" if not variants else "mixed")


def rp_of(params):
    return {"case": params, "rerun": "cd /verif && ./check C16 --replay <this file>"}


# --------------------------------------------------------------------------------------------- shapes

def und_edges(g):
    """the undirected edge set of a generated group, as sorted pairs (independent of menpo)"""
    if g["cls"] == "PointCloud":
        return set()
    if g["cls"] == "TriMesh":
        s = set()
        for a, b, c in g["trilist"]:
            for u, v in ((a, b), (b, c), (a, c)):
                s.add((min(u, v), max(u, v)))
        return s
    return {(min(a, b), max(a, b)) for a, b in g["edges"]}


def build_shape(g):
    import numpy as np
    from collections import OrderedDict
    import menpo.shape as ms
    n, d = len(g["points"]), g["dim"]
    pts = np.array([[np.nan if v is None else v for v in row] for row in g["points"]], dtype=float).reshape(n, d)
    E = np.array(g.get("edges", []), dtype=int).reshape(-1, 2)
    cls = g["cls"]
    if cls == "PointCloud":
        return ms.PointCloud(pts)
    if cls == "PointUndirectedGraph":
        return ms.PointUndirectedGraph.init_from_edges(pts, E)
    if cls == "PointDirectedGraph":
        return ms.PointDirectedGraph.init_from_edges(pts, E)
    if cls == "PointTree":
        return ms.PointTree.init_from_edges(pts, E, root_vertex=g["root"])
    if cls == "TriMesh":
        return ms.TriMesh(pts, trilist=np.array(g["trilist"], dtype=int).reshape(-1, 3))
    if cls == "LabelledPointUndirectedGraph":
        return ms.LabelledPointUndirectedGraph.init_from_edges(
            pts, E, OrderedDict((l, np.array(m, dtype=bool)) for l, m in g["labels"]))
    raise ValueError(cls)


def gen_coord(rng):
    r = rng.random()
    if r < 0.12:
        return None
    if r < 0.7:
        return common.dyadic(rng, 4096, 6)
    if r < 0.8:
        return rng.choice([0.1, -0.2, 1e-17, 1.7976931348623157e308, 5e-324, 123456.789, -0.0, 1 / 3.0])
    return rng.uniform(-1000, 1000)


def gen_group(rng, name, d=None, cls=None):
    d = d or rng.choice([2, 2, 3])
    cls = cls or rng.choice(["PointCloud", "PointUndirectedGraph", "PointDirectedGraph", "PointTree", "TriMesh",
                             "LabelledPointUndirectedGraph", "LabelledPointUndirectedGraph"])
    n = rng.randint(1, 8)
    if cls == "TriMesh":
        n = max(n, 3)
    if cls == "PointTree":
        n = max(n, 2)                              # a tree cannot have isolated vertices
    g = {"name": name, "cls": cls, "dim": d, "points": [[gen_coord(rng) for _ in range(d)] for _ in range(n)]}
    if cls in ("PointUndirectedGraph", "PointDirectedGraph", "LabelledPointUndirectedGraph"):
        pairs = [(a, b) for a in range(n) for b in range(n) if a != b]
        k = 0 if (not pairs or rng.random() < 0.25) else rng.randint(1, min(len(pairs), 7))
        g["edges"] = [list(p) for p in rng.sample(pairs, k)]
    if cls == "PointTree":
        order = list(range(n))
        rng.shuffle(order)
        g["root"] = order[0]
        g["edges"] = [[order[rng.randrange(i)], order[i]] for i in range(1, n)]
    if cls == "TriMesh":
        g["trilist"] = [rng.sample(range(n), 3) for _ in range(rng.randint(1, 4))]
    if cls == "LabelledPointUndirectedGraph":
        nl = rng.randint(1, 4)
        names = rng.sample(UNICODE_NAMES, nl)      # not sorted: the order is part of the data
        masks = [[1 if rng.random() < 0.5 else 0 for _ in range(n)] for _ in range(nl)]
        for i in range(n):                         # every point must carry a label
            if not any(m[i] for m in masks):
                masks[rng.randrange(nl)][i] = 1
        g["labels"] = [[l, m] for l, m in zip(names, masks)]
    return g


def gen_ljson(rng):
    container = rng.choice(["single", "dict", "manager", "manager"])
    if container == "single":
        groups = [gen_group(rng, "LJSON")]
    else:
        d = rng.choice([2, 2, 3])
        names = rng.sample(UNICODE_NAMES, rng.randint(1, 4))
        groups = [gen_group(rng, nm, d=d) for nm in names]
    # an upper-case suffix is accepted for a single shape only (export_landmark_file compares `Path(fp).suffix`
    # with '.ljson' literally when given a dictionary / manager): outside the property's quantifier, not generated
    files = ["lm.ljson", "a.b.ljson", ".hidden.ljson", "x.tar.ljson"] + (["x.tar.LJSON"] if container == "single" else [])
    return {"kind": "ljson", "container": container, "groups": groups, "file": rng.choice(files),
            "as_path": rng.random() < 0.5}


def label_masks(shape):
    """ordered [(label, [bits])] of an imported shape (empty for unlabelled classes)"""
    labels = list(getattr(shape, "labels", []))
    if not labels:
        return []
    n = shape.n_points
    by = {e["label"]: e["mask"] for e in shape.tojson()["labels"]}
    return [[l, [1 if i in set(by[l]) else 0 for i in range(n)]] for l in labels]


def fcoord(v):
    import math
    return "nan" if (v is None or (isinstance(v, float) and math.isnan(v))) else fq(v)


def case_ljson(run, p):
    import numpy as np
    import menpo.io as mio
    from menpo.shape import PointCloud
    from pathlib import Path
    ctx = run.ctx
    site = "C16/ljson"
    groups = p["groups"]
    rp = rp_of(p)
    ctx.case(("ljson", json.dumps(p, sort_keys=True)), nontrivial=sum(len(g["points"]) for g in groups) > 1,
             sample={"kind": "ljson", "container": p["container"], "classes": [g["cls"] for g in groups],
                     "names": [g["name"] for g in groups]})
    for g in groups:
        ctx.count("ljson:%s:%dD" % (g["cls"], g["dim"]))
    ctx.count("ljson:container:" + p["container"])
    shapes = {g["name"]: build_shape(g) for g in groups}
    with Scratch() as d:
        fp = os.path.join(d, p["file"])
        fp = Path(fp) if p.get("as_path") else fp
        try:
            if p["container"] == "single":
                obj = shapes["LJSON"]
            elif p["container"] == "dict":
                obj = dict(shapes)
            else:
                holder = PointCloud(np.zeros((1, groups[0]["dim"])))
                for k, v in shapes.items():
                    holder.landmarks[k] = v
                obj = holder.landmarks
            mio.export_landmark_file(obj, fp)
            back = mio.import_landmark_file(fp)
        except Exception as e:
            ctx.fail(site, "raises", "export/import of a valid landmark dictionary raised %s: %s" % (type(e).__name__, e), rp)
            return
        # ---- oracle: the property text
        ctx.check(set(back.keys()) == set(shapes.keys()), site + "/groups", "names-differ",
                  "group names %r came back as %r" % (sorted(shapes), sorted(back.keys())), rp)
        for g in groups:
            b = back.get(g["name"])
            if b is None:
                continue
            want = np.array([[np.nan if v is None else v for v in row] for row in g["points"]], dtype=float)
            want = want.reshape(len(g["points"]), g["dim"])
            ctx.check(b.points.shape == want.shape and bool(np.array_equal(b.points, want, equal_nan=True)),
                      site + "/points", "coordinates-differ",
                      "group %r (%s): coordinates %r came back as %r" % (g["name"], g["cls"], want.tolist(), b.points.tolist()), rp)
            be = [tuple(sorted(e)) for e in getattr(b, "edges", np.zeros((0, 2), int)).tolist()]
            ctx.check(set(be) == und_edges(g) and len(be) == len(set(be)), site + "/edges", "edge-set-differs",
                      "group %r (%s): undirected edges %r came back as %r" % (g["name"], g["cls"], sorted(und_edges(g)), sorted(be)), rp)
            want_l = [[l, list(m)] for l, m in g.get("labels", [])]
            ctx.check(label_masks(b) == want_l, site + "/labels", "labels-differ",
                      "group %r: ordered labels %r came back as %r" % (g["name"], want_l, label_masks(b)), rp)
        # ---- model
        gid = {nm: "g%03d" % i for i, nm in enumerate(sorted(shapes))}
        lid = {}
        req, exp = [str(len(groups))], [str(len(back))]
        for g in sorted(groups, key=lambda x: x["name"]):
            n = len(g["points"])
            req += [gid[g["name"]], str(n), str(g["dim"])] + [fcoord(v) for row in g["points"] for v in row]
            if g["cls"] == "PointCloud":
                req.append("-1")
            else:
                es = sorted(und_edges(g)) if g["cls"] == "TriMesh" else [tuple(e) for e in g["edges"]]
                req += [str(len(es))] + [str(x) for e in es for x in e]
            labs = g.get("labels", [])
            req.append(str(len(labs)))
            for l, m in labs:
                req += [lid.setdefault(l, "l%d" % len(lid))] + [str(int(x)) for x in m]
        for nm in sorted(back.keys()):
            b = back[nm]
            be = sorted(tuple(e) for e in getattr(b, "edges", np.zeros((0, 2), int)).tolist())
            lm = label_masks(b)
            exp += [gid.get(nm, "g???"), type(b).__name__, str(b.n_points), str(b.n_dims)]
            exp += [fcoord(float(v)) for v in b.points.ravel()]
            exp += [str(len(be))] + [str(x) for e in be for x in e]
            exp += [str(len(lm))]
            for l, m in lm:
                exp += [lid.get(l, "l???")] + [str(int(x)) for x in m]
        run.ask("ljson", " ".join(req), "ok " + " ".join(exp), rp)


def case_ljson_empty(run, p):
    """outside the property's quantifier (no point at all): correspondence of the modelled error branch only"""
    import numpy as np
    import menpo.io as mio
    from menpo.shape import PointCloud
    ctx = run.ctx
    ctx.case(("ljson-empty", p["dim"]), nontrivial=False)
    ctx.count("ljson:empty-pointcloud(correspondence only)")
    with Scratch() as d:
        fp = os.path.join(d, "e.ljson")
        try:
            mio.export_landmark_file(PointCloud(np.zeros((0, p["dim"]))), fp)
            mio.import_landmark_file(fp)
            obs = "ok 1 g000 PointUndirectedGraph 0 %d 0 0" % p["dim"]
        except IndexError:
            obs = "err empty-points"
        except Exception as e:
            obs = "err " + type(e).__name__
    run.ask("ljson", "1 g000 0 %d -1 0" % p["dim"], obs, rp_of(p))


# --------------------------------------------------------------------------------------------- pts

def gen_pts(rng):
    n = rng.randint(1, 10)
    pts = []
    for _ in range(n):
        row = []
        for _ in range(2):
            r = rng.random()
            if r < 0.6:
                row.append(common.dyadic(rng, 4096, 6))
            elif r < 0.8:   # exact ties of the third decimal: k + 1/16, k + 3/16, ...
                row.append(rng.randint(-50, 500) + rng.choice([1, 3, 5, 7, 9, 11, 13, 15]) / 16.0)
            else:
                row.append(float(rng.randint(-3, 600)))
        pts.append(row)
    cls = rng.choice(["PointCloud", "PointCloud", "PointUndirectedGraph", "TriMesh"])
    return {"kind": "pts", "cls": cls, "points": pts, "file": rng.choice(["s.pts", "img.v2.pts", "x.PTS"]),
            "as_path": rng.random() < 0.5}


def case_pts(run, p):
    import numpy as np
    import menpo.io as mio
    from pathlib import Path
    ctx = run.ctx
    site = "C16/pts"
    rp = rp_of(p)
    pts = p["points"]
    n = len(pts)
    ctx.case(("pts", json.dumps(p, sort_keys=True)), nontrivial=n > 1, sample={"kind": "pts", "cls": p["cls"], "points": pts[:3]})
    ctx.count("pts:" + p["cls"])
    g = {"cls": p["cls"], "dim": 2, "points": pts, "edges": [[0, n - 1]] if n > 1 else [],
         "trilist": [[0, 1 % n, 2 % n]] if n >= 3 else []}
    if p["cls"] == "TriMesh" and n < 3:
        g["cls"] = "PointCloud"
    with Scratch() as d:
        fp = os.path.join(d, p["file"])
        fp = Path(fp) if p.get("as_path") else fp
        try:
            mio.export_landmark_file(build_shape(g), fp)
            back = mio.import_landmark_file(fp)
            b = back["PTS"].points
        except Exception as e:
            ctx.fail(site, "raises", "points-format round trip raised %s: %s" % (type(e).__name__, e), rp)
            return
    want = np.array(pts, dtype=float)
    ok = b.shape == want.shape and bool(np.all(np.abs(b - want) <= 0.0005 + 1e-9))
    ctx.check(ok, site, "beyond-three-decimals",
              "points %r came back as %r (more than 0.0005 away, or another shape/axis order)" % (want.tolist(), b.tolist()), rp)

    def cmp(rep, b=b, n=n):
        parts = rep.split()
        if parts[0] != "ok" or len(parts) != 1 + 2 * n or b.shape != (n, 2):
            return "model %r vs implementation %r" % (rep[:200], b.tolist())
        mv = [float(F(x)) for x in parts[1:]]
        iv = [float(x) for x in b.ravel()]
        if not all(common.close(a, c, max(abs(c), 1.0), 1e-9) for a, c in zip(iv, mv)):
            return "model %r vs implementation %r" % (mv, iv)
        return None
    run.ask("pts", "%d %s" % (n, " ".join(fq(v) for row in pts for v in row)), cmp, rp)


# --------------------------------------------------------------------------------------------- pickle

def pickle_recipes():
    """name -> builder(np.random.RandomState) of a menpo object (every family the property names)"""
    import numpy as np
    from functools import partial
    import menpo.transform as mt
    import menpo.shape as ms
    from menpo.image import Image, MaskedImage, BooleanImage
    from menpo.model import PCAModel, PCAVectorModel, LinearVectorModel, MeanLinearVectorModel
    from menpo.base import LazyList
    from collections import OrderedDict
    from pathlib import Path

    def pc(rs, n=6, d=2):
        return ms.PointCloud(np.round(rs.rand(n, d) * 64) / 4.0)

    def lab(rs):
        p = pc(rs, 5)
        return ms.LabelledPointUndirectedGraph.init_from_edges(
            p.points, np.array([[0, 1], [1, 2], [3, 4]]),
            OrderedDict([("zeta", np.array([1, 1, 1, 0, 0], bool)), ("größe 眼", np.array([0, 0, 1, 1, 1], bool))]))

    def with_lm(obj, rs):
        obj.landmarks["grp b"] = lab(rs)
        obj.landmarks["a"] = pc(rs, 5)
        return obj

    def grid_mesh(rs):
        pts = np.array([[i + rs.randint(-1, 2) / 8.0, j + rs.randint(-1, 2) / 8.0] for i in range(3) for j in range(3)], float)
        tl = []
        for i in range(2):
            for j in range(2):
                a = 3 * i + j
                tl += [[a, a + 1, a + 3], [a + 1, a + 4, a + 3]]
        return ms.TriMesh(pts, trilist=np.array(tl))

    R = OrderedDict()
    R["PointCloud"] = lambda rs: with_lm(pc(rs, 7, 3), rs)
    R["PointCloud-nan"] = lambda rs: ms.PointCloud(np.array([[np.nan, 1.0], [2.0, np.nan]]))
    R["PointUndirectedGraph"] = lambda rs: ms.PointUndirectedGraph.init_from_edges(pc(rs).points, np.array([[0, 1], [2, 5]]))
    R["PointDirectedGraph"] = lambda rs: ms.PointDirectedGraph.init_from_edges(pc(rs).points, np.array([[0, 1], [1, 0], [4, 2]]))
    R["PointTree"] = lambda rs: ms.PointTree.init_from_edges(pc(rs).points, np.array([[0, 1], [0, 2], [2, 3], [2, 4], [4, 5]]), root_vertex=0)
    R["LabelledPointUndirectedGraph"] = lab
    R["TriMesh"] = lambda rs: with_lm(grid_mesh(rs), rs)
    R["ColouredTriMesh"] = lambda rs: ms.ColouredTriMesh(rs.rand(4, 3), trilist=np.array([[0, 1, 2], [1, 2, 3]]), colours=rs.rand(4, 3))
    R["TexturedTriMesh"] = lambda rs: ms.TexturedTriMesh(rs.rand(4, 3), rs.rand(4, 2), Image(rs.rand(3, 4, 4)), trilist=np.array([[0, 1, 2], [1, 2, 3]]))
    R["Image"] = lambda rs: with_lm(Image(rs.rand(2, 4, 5)), rs)
    R["Image-uint8"] = lambda rs: Image(rs.randint(0, 256, (3, 3, 4)).astype(np.uint8))
    R["MaskedImage"] = lambda rs: with_lm(MaskedImage(rs.rand(1, 4, 5), mask=rs.rand(4, 5) > 0.3), rs)
    R["BooleanImage"] = lambda rs: BooleanImage(rs.rand(4, 5) > 0.3)
    R["Homogeneous"] = lambda rs: mt.Homogeneous(np.array([[1, 2, 3], [0, 1, 4], [0.5, 0, 1.0]]))
    R["Affine"] = lambda rs: mt.Affine(np.array([[1, 2, 3], [0, 1, 4], [0, 0, 1.0]]) + np.pad(rs.rand(2, 3), ((0, 1), (0, 0))))
    R["Similarity"] = lambda rs: mt.Similarity(np.array([[0, -2, 3], [2, 0, 4], [0, 0, 1.0]]))
    R["Rotation"] = lambda rs: mt.Rotation.init_from_2d_ccw_angle(float(rs.randint(1, 359)))
    R["Rotation3D"] = lambda rs: mt.Rotation.init_from_3d_ccw_angle_around_y(float(rs.randint(1, 359)))
    R["Translation"] = lambda rs: mt.Translation(rs.rand(3))
    R["UniformScale"] = lambda rs: mt.UniformScale(1.5 + rs.rand(), 3)
    R["NonUniformScale"] = lambda rs: mt.NonUniformScale(1.0 + rs.rand(2))
    R["AlignmentAffine"] = lambda rs: mt.AlignmentAffine(pc(rs), pc(rs))
    R["AlignmentSimilarity"] = lambda rs: mt.AlignmentSimilarity(pc(rs), pc(rs), rotation=bool(rs.randint(2)))
    R["AlignmentRotation"] = lambda rs: mt.AlignmentRotation(pc(rs), pc(rs))
    R["AlignmentTranslation"] = lambda rs: mt.AlignmentTranslation(pc(rs), pc(rs))
    R["AlignmentUniformScale"] = lambda rs: mt.AlignmentUniformScale(pc(rs), pc(rs))
    R["ThinPlateSplines"] = lambda rs: mt.ThinPlateSplines(pc(rs), pc(rs))
    R["PiecewiseAffine"] = lambda rs: mt.PiecewiseAffine(grid_mesh(rs), grid_mesh(rs))
    R["TransformChain"] = lambda rs: mt.TransformChain([mt.Translation(rs.rand(2)), mt.UniformScale(2.0, 2),
                                                        mt.Rotation.init_from_2d_ccw_angle(30.0)])
    R["PCAModel"] = lambda rs: PCAModel([pc(rs, 5) for _ in range(6)])
    R["PCAModel-trimmed"] = lambda rs: (lambda m: (m.trim_components(2), m)[1])(PCAModel([pc(rs, 5) for _ in range(6)]))
    R["PCAVectorModel"] = lambda rs: PCAVectorModel(rs.rand(6, 8))
    R["LinearVectorModel"] = lambda rs: LinearVectorModel(rs.rand(3, 8))
    R["MeanLinearVectorModel"] = lambda rs: MeanLinearVectorModel(rs.rand(3, 8), rs.rand(8))
    R["LazyList-of-partials"] = lambda rs: LazyList([partial(ms.PointCloud, rs.rand(3, 2)) for _ in range(3)])
    R["dict-of-objects"] = lambda rs: {"shape": pc(rs), "t": mt.Translation(rs.rand(2)), "n": 3, "path": Path("/some/where.png"),
                                       "list": [Image(rs.rand(1, 2, 2)), None, (1, "ü")]}
    R["list-of-images"] = lambda rs: [with_lm(Image(rs.rand(1, 3, 3)), rs), BooleanImage(rs.rand(3, 3) > 0.5)]
    return R


def same_state(a, b, memo=None, where="obj"):
    """None if equal state (apart from attributes called `path`), else a description of the first difference"""
    import numpy as np
    import scipy.sparse as sp
    import functools
    import types
    from pathlib import PurePath
    memo = memo if memo is not None else set()
    key = (id(a), id(b))
    if key in memo:
        return None
    memo.add(key)
    if isinstance(a, PurePath) or isinstance(b, PurePath):
        ok = isinstance(a, PurePath) and isinstance(b, PurePath) and a.parts == b.parts   # pickled as PurePath by design
        return None if ok else "%s: path %r vs %r" % (where, a, b)
    if type(a) is not type(b):
        return "%s: type %s vs %s" % (where, type(a).__name__, type(b).__name__)
    if isinstance(a, np.ndarray):
        if a.dtype != b.dtype or a.shape != b.shape:
            return "%s: array %s%s vs %s%s" % (where, a.dtype, a.shape, b.dtype, b.shape)
        eq = np.array_equal(a, b, equal_nan=True) if a.dtype.kind in "fc" else np.array_equal(a, b)
        return None if eq else "%s: array values differ" % where
    if sp.issparse(a):
        if a.shape != b.shape or a.dtype != b.dtype or (a != b).nnz != 0:
            return "%s: sparse matrices differ" % where
        return None
    if isinstance(a, np.generic):
        return None if (a == b or (a != a and b != b)) else "%s: %r vs %r" % (where, a, b)
    if isinstance(a, float):
        return None if (a == b or (a != a and b != b)) else "%s: %r vs %r" % (where, a, b)
    if isinstance(a, (int, str, bytes, bool, type(None), complex, type, np.dtype)):
        return None if a == b else "%s: %r vs %r" % (where, a, b)
    if isinstance(a, dict):
        if list(a.keys()) != list(b.keys()):
            return "%s: keys %r vs %r" % (where, list(a.keys()), list(b.keys()))
        for k in a:
            r = same_state(a[k], b[k], memo, "%s[%r]" % (where, k))
            if r:
                return r
        return None
    if isinstance(a, (list, tuple)):
        if len(a) != len(b):
            return "%s: length %d vs %d" % (where, len(a), len(b))
        for i, (x, y) in enumerate(zip(a, b)):
            r = same_state(x, y, memo, "%s[%d]" % (where, i))
            if r:
                return r
        return None
    if isinstance(a, (set, frozenset)):
        return None if a == b else "%s: sets differ" % where
    if isinstance(a, functools.partial):
        for nm in ("func", "args", "keywords"):
            r = same_state(getattr(a, nm), getattr(b, nm), memo, "%s.%s" % (where, nm))
            if r:
                return r
        return None
    if isinstance(a, types.MethodType):
        r = same_state(a.__self__, b.__self__, memo, where + ".__self__")
        return r or (None if a.__func__ is b.__func__ else "%s: bound function differs" % where)
    if isinstance(a, (types.FunctionType, types.BuiltinFunctionType)):
        return None if a is b else "%s: function %r vs %r" % (where, a, b)
    da, db = getattr(a, "__dict__", None), getattr(b, "__dict__", None)
    if da is None:
        return None if a == b else "%s: %r vs %r" % (where, a, b)
    ka = [k for k in da if k != "path"]
    kb = [k for k in db if k != "path"]
    if sorted(ka) != sorted(kb):
        return "%s: attributes %r vs %r" % (where, sorted(ka), sorted(kb))
    for k in ka:
        r = same_state(da[k], db[k], memo, "%s.%s" % (where, k))
        if r:
            return r
    return None


def gen_pickle(rng, recipe=None):
    names = list(pickle_recipes().keys())
    return {"kind": "pickle", "recipe": recipe or rng.choice(names), "seed": rng.randrange(10 ** 6),
            "gz": rng.random() < 0.5, "protocol": rng.choice([2, 2, 3, 4]),
            "file": rng.choice(["m", "model.v1", "a.b", ".hidden"]), "as_path": rng.random() < 0.5}


def case_pickle(run, p):
    import numpy as np
    import menpo.io as mio
    from pathlib import Path
    ctx = run.ctx
    site = "C16/pickle"
    rp = rp_of(p)
    ctx.case(("pickle", json.dumps(p, sort_keys=True)), nontrivial=True,
             sample={"kind": "pickle", "recipe": p["recipe"], "gz": p["gz"], "protocol": p["protocol"]})
    ctx.count("pickle:" + p["recipe"])
    ctx.count("pickle:" + ("gz" if p["gz"] else "plain"))
    try:
        obj = pickle_recipes()[p["recipe"]](np.random.RandomState(p["seed"]))
        ref = pickle_recipes()[p["recipe"]](np.random.RandomState(p["seed"]))
    except Exception as e:
        ctx.count("pickle:construction-failed:" + p["recipe"])
        ctx.notes.setdefault("pickle_construction_failed", {})[p["recipe"]] = "%s: %s" % (type(e).__name__, e)
        return
    with Scratch() as d:
        fp = os.path.join(d, p["file"] + (".pkl.gz" if p["gz"] else ".pkl"))
        fpa = Path(fp) if p.get("as_path") else fp
        try:
            mio.export_pickle(obj, fpa, protocol=p["protocol"])
            raw = open(fp, "rb").read(2)
            back = mio.import_pickle(fpa)
        except Exception as e:
            ctx.fail(site, "raises", "pickle round trip of %s raised %s: %s" % (p["recipe"], type(e).__name__, e), rp)
            return
    ctx.check((raw == b"\x1f\x8b") == bool(p["gz"]), site + "/gzip", "compression-flag",
              "file %s starts with %r" % (os.path.basename(fp), raw), rp)
    diff = same_state(obj, back)
    ctx.check(diff is None, site, "state-differs", "%s came back with different state: %s" % (p["recipe"], diff), rp)
    diff2 = same_state(ref, obj)
    ctx.check(diff2 is None, site + "/source", "export-mutated-object",
              "exporting %s changed the exported object itself: %s" % (p["recipe"], diff2), rp)


# --------------------------------------------------------------------------------------------- images

def lossless_codecs(run):
    """extensions whose PIL codec writes and reads an 8-bit grey and RGB array unchanged in this sandbox
    (probed with PIL alone - menpo is not involved, so a menpo defect cannot hide a format)"""
    if run.codecs is not None:
        return run.codecs
    import numpy as np
    import PIL.Image as PILImage
    PILImage.preinit()
    PILImage.init()
    ok, rejected = [], {}
    grey = np.arange(256, dtype=np.uint8).reshape(16, 16)
    probes = [grey, np.stack([grey, grey[::-1], grey.T], axis=-1)]
    for h, w in ((1, 1), (7, 1), (2, 3), (5, 5), (1, 7), (3, 12), (11, 9)):     # odd sizes: row padding of the codec
        rs = np.random.RandomState(100 * h + w)
        probes += [rs.randint(0, 256, (h, w)).astype(np.uint8), rs.randint(0, 256, (h, w, 3)).astype(np.uint8)]
    with Scratch() as d:
        for ext in LOSSLESS_CANDIDATES:
            try:
                fmt = PILImage.EXTENSION[ext]
                for i, arr in enumerate(probes):
                    fp = os.path.join(d, "probe%d%s" % (i, ext))
                    with open(fp, "wb") as f:
                        PILImage.fromarray(arr).save(f, format=fmt)
                    if not np.array_equal(np.asarray(PILImage.open(fp)), arr):
                        raise ValueError("PIL alone does not return the %s array it wrote" % (arr.shape,))
                ok.append(ext)
            except Exception as e:
                rejected[ext] = "%s: %s" % (type(e).__name__, e)
    run.ctx.notes["codecs_rejected_by_pil_only_probe"] = rejected
    run.codecs = ok
    run.ctx.notes["lossless_codecs_in_sandbox"] = ok
    return ok


def gen_image8(rng, fmts, source=None, all256=None):
    source = source or rng.choice(["L", "L", "RGB", "RGB", "RGBA", "1", "mem-u8"])
    all256 = (rng.random() < 0.4) if all256 is None else all256
    h, w = (16, 16) if all256 else (rng.randint(1, 12), rng.randint(1, 12))
    return {"kind": "image8", "source": source, "all256": bool(all256), "h": h, "w": w, "seed": rng.randrange(10 ** 6),
            "fmt": rng.choice(fmts), "src_fmt": rng.choice([f for f in fmts if f in (".png", ".bmp", ".tif")] or fmts),
            "as_path": rng.random() < 0.5, "copy_between": rng.random() < 0.3}


def image8_pixels(p):
    import numpy as np
    rs = np.random.RandomState(p["seed"])
    nch = {"L": 1, "1": 1, "RGB": 3, "RGBA": 3, "mem-u8": rs.choice([1, 3])}[p["source"]]
    h, w = p["h"], p["w"]
    if p["source"] == "1":
        return (rs.rand(1, h, w) > 0.5).astype(np.uint8) * 255
    if p["all256"]:
        return np.stack([rs.permutation(256).reshape(16, 16) for _ in range(nch)]).astype(np.uint8)
    return rs.randint(0, 256, (nch, h, w)).astype(np.uint8)


def case_image8(run, p):
    import numpy as np
    import menpo.io as mio
    import PIL.Image as PILImage
    from menpo.image import Image
    from pathlib import Path
    ctx = run.ctx
    rp = rp_of(p)
    px = image8_pixels(p)
    nch = px.shape[0]
    ctx.case(("image8", json.dumps(p, sort_keys=True)), nontrivial=px.size > 1,
             sample={"kind": "image8", "source": p["source"], "format": p["fmt"], "shape": list(px.shape), "all256": p["all256"]})
    ctx.count("image8:source:" + p["source"])
    ctx.count("image8:format:" + p["fmt"])
    site = "C16/image8"
    through_float = p["source"] != "mem-u8"
    with Scratch() as d:
        try:
            if p["source"] == "mem-u8":
                im = Image(px.copy())
            else:
                src = os.path.join(d, "src" + (".png" if p["source"] in ("RGBA", "1") else p["src_fmt"]))
                if p["source"] == "L":
                    pil = PILImage.fromarray(px[0])
                elif p["source"] == "RGB":
                    pil = PILImage.fromarray(np.ascontiguousarray(np.moveaxis(px, 0, -1)))
                elif p["source"] == "RGBA":
                    alpha = (np.random.RandomState(p["seed"] + 1).rand(p["h"], p["w"]) > 0.3).astype(np.uint8) * 255
                    pil = PILImage.fromarray(np.ascontiguousarray(np.dstack([np.moveaxis(px, 0, -1), alpha])))
                else:
                    pil = PILImage.fromarray(px[0]).convert("1")
                pil.save(src)
                im = mio.import_image(src, landmark_resolver=None)
            ctx.count("image8:class:" + type(im).__name__)
            if p.get("copy_between"):
                im = im.copy()
            out = os.path.join(d, "out.v2" + p["fmt"])
            mio.export_image(im, Path(out) if p.get("as_path") else out)
            back = mio.import_image(out, landmark_resolver=None, normalize=False)
            got = np.asarray(back.pixels)
            if got.dtype == bool:
                got = got.astype(np.uint8) * 255
        except Exception as e:
            ctx.fail(site, "raises", "import -> export -> re-import of an 8-bit image raised %s: %s" % (type(e).__name__, e), rp)
            return
    if got.shape != px.shape or got.dtype != np.uint8:
        ctx.fail(site, "shape-or-dtype", "8-bit data %s %s came back as %s %s" % (px.dtype, px.shape, got.dtype, got.shape), rp)
        return
    if through_float:
        for a, b in zip(px.ravel().tolist(), got.ravel().tolist()):
            run.u8_obs.setdefault(a, set()).add(b)
    if not np.array_equal(got, px):
        bad = sorted({(int(a), int(b)) for a, b in zip(px.ravel(), got.ravel()) if a != b})
        trunc = through_float and all(a - b == 1 and a in TRUNC24 for a, b in bad)
        if trunc:
            ctx.fail(SITE_U8, PAT_U8,
                     "8-bit pixel values do not survive import -> export -> re-import: %d value(s) come back one lower, "
                     "e.g. %r (the float image is converted with a truncating cast, k*(1/255)*255 < k in binary64 for "
                     "24 of the 256 values)" % (len(bad), bad[:6]), dict(rp, changed=bad[:24]))
        else:
            ctx.fail(site, "pixels-differ", "8-bit pixel values changed: (original, re-imported) %r" % (bad[:12],),
                     dict(rp, changed=bad[:24]))


def gen_imagef(rng, fmts):
    return {"kind": "imagef", "dtype": rng.choice(["float64", "float64", "float32"]), "channels": rng.choice([1, 3]),
            "h": rng.randint(1, 10), "w": rng.randint(1, 10), "seed": rng.randrange(10 ** 6), "fmt": rng.choice(fmts),
            "masked": rng.random() < 0.25}


def case_imagef(run, p):
    import numpy as np
    import menpo.io as mio
    from menpo.image import Image, MaskedImage
    ctx = run.ctx
    rp = rp_of(p)
    site = "C16/imagef"
    rs = np.random.RandomState(p["seed"])
    if p.get("all_levels"):       # every pixel value m/1024, m = 0..1024, once
        m = rs.permutation(1025).reshape(1, 25, 41)
    else:
        m = rs.randint(0, 1025, (p["channels"], p["h"], p["w"]))
        m.ravel()[rs.randint(m.size)] = rs.choice([0, 1024])
    x = (m / 1024.0).astype(p["dtype"])
    ctx.case(("imagef", json.dumps(p, sort_keys=True)), nontrivial=m.size > 1,
             sample={"kind": "imagef", "dtype": p["dtype"], "format": p["fmt"], "shape": list(m.shape)})
    ctx.count("imagef:%s:%dch" % (p["dtype"], p["channels"]))
    ctx.count("imagef:format:" + p["fmt"])
    with Scratch() as d:
        try:
            im = MaskedImage(x.copy(), mask=rs.rand(p["h"], p["w"]) > 0.4) if p.get("masked") else Image(x.copy())
            out = os.path.join(d, "f" + p["fmt"])
            mio.export_image(im, out)
            back = mio.import_image(out, landmark_resolver=None)
            raw = mio.import_image(out, landmark_resolver=None, normalize=False)
        except Exception as e:
            ctx.fail(site, "raises", "export/import of a float image in [0,1] raised %s: %s" % (type(e).__name__, e), rp)
            return
    if back.pixels.shape != x.shape or raw.pixels.shape != x.shape:
        ctx.fail(site, "shape", "float image %s came back with shape %s" % (x.shape, back.pixels.shape), rp)
        return
    err = float(np.abs(back.pixels.astype(float) - x.astype(float)).max()) * 255.0
    ctx.check(err < 1.0, site, "one-level-or-more",
              "float pixels changed by %.6f quantisation levels (must be < 1)" % err, rp)
    ctx.check(bool(np.array_equal(im.pixels, x)), site + "/source", "export-mutated-image", "exporting changed the image", rp)
    for a, b in zip(m.ravel().tolist(), np.asarray(raw.pixels).ravel().tolist()):
        run.q8_obs.setdefault(int(a), set()).add(int(b))


def case_mode(run, p):
    """channel counts: 1 and 3 are exportable, everything else is a ValueError (correspondence only)"""
    import numpy as np
    import menpo.io as mio
    from menpo.image import Image
    ctx = run.ctx
    ctx.case(("mode", p["channels"]), nontrivial=False)
    ctx.count("image:channels:%d" % p["channels"])
    with Scratch() as d:
        try:
            mio.export_image(Image(np.zeros((p["channels"], 2, 3))), os.path.join(d, "c.png"))
            import PIL.Image as PILImage
            obs = "ok " + PILImage.open(os.path.join(d, "c.png")).mode
        except ValueError:
            obs = "err"
        except Exception as e:
            obs = "exc " + type(e).__name__
    run.ask("mode", "%d 2" % p["channels"], obs, rp_of(p))


# --------------------------------------------------------------------------------------------- guard

GOOD_NAMES = {
    "landmark": ["lm.ljson", "a.b.ljson", "s.pts", "x.y.z.pts", ".hidden.ljson", "UP.LJSON"],
    "image": ["i.png", "a.b.png", "c.bmp", "scan.v2.tif", "p.ppm", "q.pgm", "j.jpg", "Big.PNG"],
    "pickle": ["m.pkl", "a.b.pkl.gz", "x.pkl.gz", "model.v1.pkl", "z.gz.pkl", "U.PKL"],
    "video": ["v.mp4", "a.b.avi", "clip.gif", "w.mkv"],
}
BAD_NAMES = {
    "landmark": ["notes.txt", "a.png", "lm.ljson.", "noext"],
    "image": ["notes.txt", "a.pkl", "i.png.", "noext"],
    "pickle": ["notes.txt", "m.pkl.", "a.gz", "noext", "a.pkl.bz2"],
    "video": [],
}
N_SPELL = 7


def spell(d, sub, name, k):
    base = os.path.basename(d)
    return ["%s/%s/%s" % (d, sub, name), "%s//%s/./%s" % (d, sub, name), "%s/%s/../%s/%s" % (d, sub, sub, name),
            "%s/%s" % (sub, name), "./%s//%s" % (sub, name), "%s/../%s/%s" % (sub, sub, name),
            "../%s/%s/%s" % (base, sub, name)][k]


def gen_guard(rng, exporter=None):
    exporter = exporter or rng.choice(["landmark", "image", "pickle", "landmark", "image", "pickle", "video"])
    names = [rng.choice(GOOD_NAMES[exporter])]
    if exporter != "video" and rng.random() < 0.5:
        other = rng.choice(GOOD_NAMES[exporter] + BAD_NAMES[exporter])
        if other.lower() != names[0].lower():
            names.append(other)
    ops = []
    for _ in range(rng.randint(2, 6)):
        nm = names[0] if (len(names) == 1 or rng.random() < 0.7) else names[1]
        ue = "-"
        if exporter in ("landmark", "image") and rng.random() < 0.2:
            ue = rng.choice([".png", "ljson", ".PTS", "PNG", ".tif", ".ljson"])
        ops.append({"name": nm, "spell": rng.randrange(N_SPELL), "as_path": rng.random() < 0.5,
                    "overwrite": (False if exporter == "video" else rng.random() < 0.4), "userext": ue})
    return {"kind": "guard", "exporter": exporter, "sub": rng.choice(["sub", "out.d", "x y"]) if exporter != "video" else "sub",
            "precreate": [names[0]] if (exporter == "video" or rng.random() < 0.3) else [], "ops": ops}


def export_object(exporter, i):
    import numpy as np
    from menpo.shape import PointCloud
    from menpo.image import Image
    if exporter == "landmark":
        return PointCloud(np.array([[float(i), i + 0.5], [1.0, 2.0]]))
    if exporter == "image":
        return Image(np.full((1, 2, 3), 10 * i + 1, dtype=np.uint8))
    if exporter == "pickle":
        return {"op": i, "data": list(range(i + 1))}
    return [Image(np.zeros((1, 4, 4))), Image(np.ones((1, 4, 4)))]


def norm_ext(e):
    e = e.lower()
    return e if e.startswith(".") else "." + e


def case_guard(run, p):
    import menpo.io as mio
    from menpo.io.exceptions import OverwriteError
    from pathlib import Path
    ctx = run.ctx
    rp = rp_of(p)
    ex = p["exporter"]
    site = "C16/guard/" + ex
    fn = {"landmark": mio.export_landmark_file, "image": mio.export_image, "pickle": mio.export_pickle,
          "video": mio.export_video}[ex]
    ctx.case(("guard", json.dumps(p, sort_keys=True)), nontrivial=True,
             sample={"kind": "guard", "exporter": ex, "ops": [(o["name"], o["spell"], o["overwrite"]) for o in p["ops"]]})
    ctx.count("guard:exporter:" + ex)
    outcomes = []
    with Scratch() as d:
        sub = p["sub"]
        os.makedirs(os.path.join(d, sub))
        os.chdir(d)
        written_hash = {}
        for j, nm in enumerate(p["precreate"]):
            with open(os.path.join(d, sub, nm), "wb") as f:
                f.write(b"pre-existing bytes %d\n" % j)
            written_hash[1000 + j] = (os.path.join(sub, nm), hashlib.sha256(b"pre-existing bytes %d\n" % j).hexdigest())
        for i, o in enumerate(p["ops"]):
            s = spell(d, sub, o["name"], o["spell"])
            target = os.path.join(sub, o["name"])
            before = snapshot(d)
            existed = target in before
            ctx.count("guard:spelling:%d:%s" % (o["spell"], "Path" if o["as_path"] else "str"))
            ctx.count("guard:%s:%s" % ("existing" if existed else "new", "overwrite" if o["overwrite"] else "no-overwrite"))
            kw = {"overwrite": True} if o["overwrite"] else ({} if i % 2 else {"overwrite": False})
            if o.get("userext", "-") != "-":
                kw["extension"] = o["userext"]
            try:
                fn(export_object(ex, i), Path(s) if o["as_path"] else s, **kw)
                out = "w"
            except OverwriteError:
                out = "o"
            except ValueError:
                out = "v"
            except Exception as e:
                out = "x:" + type(e).__name__
            after = snapshot(d)
            outcomes.append(out)
            step = dict(rp, failing_op=i, spelling=s, outcome=out)
            # ---- oracle (bytes on disk; independent of the model)
            if existed and not o["overwrite"]:
                ctx.check(after == before, site, "clobbered",
                          "export to the existing %r (spelled %r, overwrite not requested) changed files on disk: %r"
                          % (target, s, sorted(k for k in set(before) | set(after) if before.get(k) != after.get(k))), step)
                ctx.check(out == "o", site, "not-refused",
                          "export to the existing %r (spelled %r, overwrite not requested) ended with %r instead of "
                          "OverwriteError" % (target, s, out), step)
            else:
                others_b = {k: v for k, v in before.items() if k != target}
                others_a = {k: v for k, v in after.items() if k != target}
                ctx.check(others_a == others_b, site, "other-file-touched",
                          "export to %r (spelled %r) changed other files: %r" % (target, s, sorted(
                              k for k in set(others_b) | set(others_a) if others_b.get(k) != others_a.get(k))), step)
                ctx.check(out != "o", site, "spurious-overwrite-error",
                          "export to %r raised OverwriteError although %s" % (
                              target, "overwriting was requested" if existed else "the path did not exist"), step)
                if out != "w":
                    ctx.check(after == before, site, "failed-export-changed-disk",
                              "an export that ended with %r changed files on disk" % out, step)
            if out == "w" and target in after:
                written_hash[i] = (target, after[target])
        final = snapshot(d)
    # ---- model
    req = [d, str(len(p["precreate"]))] + ["%s/%s" % (sub, nm) for nm in p["precreate"]] + [str(len(p["ops"]))]
    if " " in sub:      # tokens are space separated: the model sees the same history with the blank replaced
        req = [x.replace(" ", "_") for x in req]
    for o in p["ops"]:
        ue = o.get("userext", "-")
        req += [ex, spell(d, sub, o["name"], o["spell"]).replace(" ", "_"), "-" if ue == "-" else norm_ext(ue),
                "1" if o["overwrite"] else "0"]

    def cmp(rep, outcomes=outcomes, final=final, written_hash=written_hash, d=d):
        head, _, listing = rep.partition(" | ")
        parts = head.split()
        if parts[0] != "ok" or len(parts) < 2:
            return "model reply %r" % rep[:200]
        mo = parts[1]
        io = "".join(x[0] for x in outcomes)
        if mo != io or any(x.startswith("x") for x in outcomes):
            return "outcomes: model %r vs implementation %r" % (mo, outcomes)
        toks = listing.split()
        model_files = {}
        for a, b in zip(toks[::2], toks[1::2]):
            model_files[os.path.relpath(a, d.replace(" ", "_"))] = int(b)
        impl_files = {}
        for rel, h in final.items():
            who = [i for i, (t, hh) in written_hash.items() if t == rel and hh == h]
            impl_files[rel.replace(" ", "_")] = max(who) if who else -1
        if model_files != impl_files:
            return "final files (path: number of the export whose bytes it holds): model %r vs implementation %r" % (
                model_files, impl_files)
        return None
    run.ask("guard", " ".join(req), cmp, rp)


def gen_name(rng, kind):
    stem = rng.choice(["a", "a.b", ".hidden", "x..y", "UP", "arch.tar", "v1.2", "a b".replace(" ", "_")])
    tbl = {"landmark": [".ljson", ".pts"], "image": [".png", ".jpg", ".tiff", ".bmp"], "pickle": [".pkl", ".pkl.gz"],
           "video": [".mp4", ".gif", ".avi"]}[kind]
    ext = rng.choice(tbl + tbl + [".txt", ".gz", ".PKL", ".Pkl.GZ", "", ".pkl.bz2", ".LJSON", ".Png", "."])
    return stem + ext


def case_ext(run, p):
    """extension parser and path normaliser against the model (correspondence only; the observable consequences
    are exercised by the guard cases)"""
    from pathlib import Path
    ctx = run.ctx
    ctx.case(("ext", p["xkind"], p["name"]), nontrivial=p["name"].count(".") > 1)
    ctx.count("ext:" + p["xkind"])
    try:
        from menpo.io.output.base import _parse_and_validate_extension
        from menpo.io.output import extensions as ox
        tbl = {"landmark": ox.landmark_types, "image": ox.image_types, "pickle": ox.pickle_types, "video": ox.video_types}[p["xkind"]]
    except (ImportError, AttributeError):
        ctx.count("ext:private-helper-unavailable")
        return
    try:
        obs = "ok " + _parse_and_validate_extension(Path("/scratch") / p["name"], None, tbl)
    except ValueError:
        obs = "err"
    except Exception as e:
        obs = "exc " + type(e).__name__
    run.ask("ext", "%s %s" % (p["xkind"], p["name"]), obs, rp_of(p))


def case_norm(run, p):
    ctx = run.ctx
    ctx.case(("norm", p["cwd"], p["spelling"]), nontrivial="/" in p["spelling"])
    ctx.count("norm:" + ("absolute" if p["spelling"].startswith("@ROOT@") else "relative"))
    try:
        from menpo.io.utils import _norm_path
    except (ImportError, AttributeError):
        ctx.count("norm:private-helper-unavailable")
        return
    with Scratch() as d:
        cwd = os.path.join(d, p["cwd"])
        os.makedirs(cwd)
        os.chdir(cwd)
        sp = p["spelling"].replace("@ROOT@", d)
        obs = "ok " + str(_norm_path(sp))
    run.ask("norm", "%s %s" % (cwd, sp), obs, rp_of(p))


def gen_norm(rng):
    comps = ["a", "b", "..", ".", "", "c.d", "..", "x"]
    body = "/".join(rng.choice(comps) for _ in range(rng.randint(1, 6))) + "/" + rng.choice(["f.pkl", "g.tar.gz", "h"])
    if rng.random() < 0.4:
        body = "@ROOT@/" + body
    elif body.startswith("/"):
        body = "." + body
    return {"kind": "norm", "cwd": rng.choice(["w", "w/v", "p/q/r"]), "spelling": body}


def case_exts(run, p):
    ctx = run.ctx
    ctx.case(("exts", p["xkind"]), nontrivial=True)
    from menpo.io.output import extensions as ox
    tbl = {"landmark": ox.landmark_types, "image": ox.image_types, "pickle": ox.pickle_types, "video": ox.video_types}[p["xkind"]]

    def cmp(rep, tbl=tbl):
        got = sorted(rep.split()[1:])
        return None if got == sorted(tbl.keys()) else "exporter extension table %s: model %r vs live dictionary %r" % (
            p["xkind"], got, sorted(tbl.keys()))
    run.ask("exts", p["xkind"], cmp, rp_of(p))


# --------------------------------------------------------------------------------------------- dispatch

CASES = {"ljson": case_ljson, "ljson-empty": case_ljson_empty, "pts": case_pts, "pickle": case_pickle,
         "image8": case_image8, "imagef": case_imagef, "mode": case_mode, "guard": case_guard, "ext": case_ext,
         "norm": case_norm, "exts": case_exts}


def run_case(run, p):
    CASES[p["kind"]](run, p)


def explore(run, k, thorough=False):
    rng = run.ctx.rng
    fmts = lossless_codecs(run)
    if not fmts:
        raise common.Infra("no lossless PIL codec works in this sandbox (probed %r)" % LOSSLESS_CANDIDATES)
    for _ in range(40 * k):
        run_case(run, gen_ljson(rng))
    for dim in (2, 3):
        run_case(run, {"kind": "ljson-empty", "dim": dim})
    for _ in range(25 * k):
        run_case(run, gen_pts(rng))
    recipes = list(pickle_recipes().keys())
    for r in recipes:                       # every family, every run
        run_case(run, gen_pickle(rng, r))
    for _ in range(10 * k):
        run_case(run, gen_pickle(rng))
    # every lossless codec x {grey, RGB} with all 256 values, every run
    for f in fmts:
        for src in ("L", "RGB"):
            p = gen_image8(rng, fmts, source=src, all256=True)
            p["fmt"] = f
            run_case(run, p)
    for src in ("RGBA", "1", "mem-u8"):
        run_case(run, gen_image8(rng, fmts, source=src, all256=(src != "1")))
    for _ in range(20 * k):
        run_case(run, gen_image8(rng, fmts))
    for dt in ("float64", "float32"):
        run_case(run, {"kind": "imagef", "dtype": dt, "channels": 1, "h": 25, "w": 41, "seed": rng.randrange(10 ** 6),
                       "fmt": rng.choice(fmts), "masked": False, "all_levels": True})
    for _ in range(25 * k):
        run_case(run, gen_imagef(rng, fmts))
    for c in (1, 2, 3, 4, 5):
        run_case(run, {"kind": "mode", "channels": c})
    for ex in ("landmark", "image", "pickle", "video"):
        for _ in range(3):
            run_case(run, gen_guard(rng, ex))
    for _ in range(30 * k):
        run_case(run, gen_guard(rng))
    for _ in range(30 * k):
        xk = rng.choice(["landmark", "image", "pickle", "video"])
        run_case(run, {"kind": "ext", "xkind": xk, "name": gen_name(rng, xk)})
    for _ in range(20 * k):
        run_case(run, gen_norm(rng))
    for xk in ("landmark", "image", "pickle", "video"):
        run_case(run, {"kind": "exts", "xkind": xk})


def search(ctx):
    """directed search on the real code (oracle only) after the model/implementation tie broke"""
    r = Run(ctx, model=False)
    before = ctx.evaluations
    for op, _, rp in ctx.mismatches[:10]:          # the mismatching cases first, then their neighbourhood
        c = rp.get("case") if isinstance(rp, dict) else None
        if c and c.get("kind") in CASES:
            try:
                run_case(r, c)
            except Exception:
                pass
    explore(r, 8)
    ctx.searched += ctx.evaluations - before
    return bool(ctx.failures)


def run(ctx):
    common.prepare_lean(ctx, PROP, IMPORTS, THEOREMS)
    ctx.trusted += ["Lean Float = IEEE binary64 as numpy float64 (validated on all 256 eight-bit values each run)",
                    "contracts: json, '%.3f', PIL lossless codecs (probed per run), pickle, gzip, os.path"]
    r = Run(ctx)
    explore(r, ctx.n(3, 30), thorough=not ctx.quick())
    r.settle()
    return ctx.finish(search)


def replay(ctx, path):
    data = json.load(open(path))
    print(json.dumps(data, indent=1, default=str)[:3000])
    rp = data.get("replay")
    if rp is None and data.get("broken_correspondence"):
        rp = data["broken_correspondence"][0].get("case")
    case = rp.get("case") if isinstance(rp, dict) else None
    if not case or case.get("kind") not in CASES:
        ctx2 = common.Ctx(PROP, "quick", int(data.get("seed", 0)))
        return run(ctx2)
    common.prepare_lean(ctx, PROP, IMPORTS, THEOREMS)
    r = Run(ctx)
    lossless_codecs(r)
    run_case(r, case)
    r.settle()
    return ctx.finish(None)
