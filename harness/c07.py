"""C07 — alignments recover exact maps, fit optimally where promised, and interpolate (DESIGN.md section 6, C07).

Three parties per generated case:
* the real menpo alignment classes (AlignmentTranslation, AlignmentUniformScale, AlignmentRotation,
  AlignmentSimilarity, AlignmentAffine, ThinPlateSplines, PiecewiseAffine, GeneralizedProcrustesAnalysis);
* a property oracle written from the property text and independent of the Lean model: exact least-squares
  optima computed here with `fractions.Fraction` (translation, affine), the closed form (2-D) / Horn's quaternion
  eigenvalue (3-D) for the best rotation, centroid / size identities, interpolation and per-triangle affinity checks,
  `aligned_source() == apply(source)`, `alignment_error() == ||requested target - apply(source)||`;
* the Lean model `Core/C07Align.lean` run through `Drive/C07.lean` on the same inputs as exact rationals
  (theorems: `Props/C07Base.lean` single alignments, `Props/C07.lean` degenerate sizes / TPS affine recovery / GPA).

A second, stronger tie is checked before any case is generated: `harness/trans_c07.py` TRANSLATES THE SOURCE TEXT of the
alignment code of the working tree into `lean/MenpoModel/Generated/C07Src.lean` (constructors and re-fits of the five
homogeneous alignments, optimal_rotation_matrix, procrustes_alignment, the Alignment / Targetable plumbing, copy /
pseudoinverse, the piecewise-affine and thin-plate-spline formulas, generalized Procrustes) and
`lean/MenpoModel/GenProps/C07Src*.lean` prove every translated definition equal to the Core definition for all arguments
and restate the property for the translated definitions (`generated_source`).
"""
import json
import math
from fractions import Fraction

import numpy as np

from . import common

PROP = "C07"
INFO = dict(
    technique="Lean 4 proof (least-squares optimality by orthogonality of the residual, Kabsch with and without the "
              "determinant constraint from the SVD contract, exact recovery from optimality + full rank, barycentric "
              "algebra for piecewise-affine maps, block-system algebra for thin-plate splines incl. exact recovery of "
              "affine maps, invariant by induction over the generalized-Procrustes iteration) + source-to-Lean "
              "translation of the alignment code on every run (harness/trans_c07.py over harness/py2lean2.py: 54 "
              "definitions of the working tree, proved equal to the Core definition for all arguments - genPwaInit through "
              "genPythonPwaInit_eq) + "
              "model/implementation correspondence on generated alignments",
    level_text="Theorems over an executable model of the alignment constructors (exact rational arithmetic, matrices "
               "generic in the number of points and in the dimension).  READ WITH partial[0]: every clause below that "
               "involves a norm or an SVD (scale, rotation, similarity size / rotation, TPS as coded, GPA size / rotation) is "
               "proved GIVEN an exact rational answer of np.linalg.norm / np.linalg.svd, which exists only for inputs whose "
               "square roots / singular vectors are rational; for all other inputs these clauses rest on the per-case "
               "numerical contract check and the independent oracle.  Translation and affine alignments minimise the "
               "squared error over their whole family (unconditionally); the rotation alignment is optimal among all orthogonal maps "
               "when mirroring is allowed (every dimension) and among proper rotations otherwise (2-D and 3-D, the "
               "determinant-corrected Kabsch solution) and never has determinant -1 unless mirroring is allowed; scale "
               "and similarity alignments reproduce size (and centroid) exactly, are the only members of their family "
               "doing so (uniform scale; similarity with rotation=False), and the similarity uses the "
               "least-squares rotation; every family member is recovered; the scale/similarity alignments have no "
               "finite answer exactly for zero-size sources and collapse onto a zero-size target; thin-plate splines "
               "as coded (truncated-SVD inverse on a symmetric system): exact interpolation when no singular value is "
               "dropped, otherwise the miss is exactly the dropped component of the data; affine maps are recovered "
               "exactly (zero bending part) both by the exact checked solve (tps_affine_*) and by the coded path when nothing "
               "is dropped and the system is invertible (tps_svd_affine_recovery, src_tps_affine_recovery); piecewise-affine maps on a triangulation that passes the executable "
               "conformity certificate (evaluated in Lean on the triangle list of every generated alignment): "
               "single-valued (continuous across edges and vertices), interpolating, affine on every closed triangle, "
               "recovering affine maps; generalized Procrustes "
               "(mean, rescale to the initial size, re-target, 1e-6 test, iteration bound, the ValueError) returns on "
               "every exit path transforms that are the similarity alignments of their sources to one common final "
               "target, hence each reproduces its centroid and size, uses the least-squares rotation and is no "
               "reflection unless allowed; aligned source = transform(source), alignment error = distance(requested "
               "target, aligned source) for a constructor that keeps the requested target, and identically 0 for the "
               "constructor of the original tree (refuted with a witness).  TRANSLATED rather than transcribed (source "
               "text of the working tree -> Generated/C07Src.lean on every run; GenProps/C07Src*.lean: translated = Core "
               "definition for all arguments, by case split on what the model distinguishes + simp, so harmless rewrites "
               "keep the proofs and a changed decision breaks them): PointCloud.centre / norm; Alignment.__init__, "
               "aligned_source, alignment_error, _target_setter, _new_target_from_state; Targetable.set_target, "
               "_target_setter_with_verification, _sync_target_from_state; __init__ and _sync_state_from_target of "
               "AlignmentTranslation / UniformScale / Affine / Rotation / Similarity; AlignmentAffine._build_alignment_h_matrix "
               "and _set_h_matrix; optimal_rotation_matrix; AlignmentRotation.set_rotation_matrix; procrustes_alignment; "
               "HomogFamilyAlignment.copy / pseudoinverse; alpha_beta, containment_from_alpha_beta, index_alpha_beta, "
               "barycentric_vectors, AbstractPWA.__init__ / trilist / _rebuild_target_vectors / _sync_state_from_target / "
               "_apply / pseudoinverse, PythonPWA.__init__ / index_alpha_beta; ThinPlateSplines.__init__ / "
               "_build_coefficients / _sync_state_from_target / _apply / pseudoinverse; mean_pointcloud, "
               "MultipleAlignment.__init__, GeneralizedProcrustesAnalysis.__init__ / _recursive_procrustes.  On top of the "
               "equalities the property is stated for the translated definitions themselves (src_* theorems): every "
               "clause holds for the object the translated constructor builds AND after every history of set_target "
               "calls (induction over the list of targets: the re-fit uses the stored rotation / allow_mirror options "
               "and nothing of the previous target), a pseudoinverse()-born alignment re-aimed with set_target is the "
               "constructor's alignment from the old target to the new one, a mesh source keeps its own triangle "
               "list, the TPS system matrix assembled from blocks is the model's, and on every exit path of the "
               "translated GPA iteration every member is the similarity alignment of its source to one common final "
               "target.  Besides, the model is tied to /repo by running the "
               "real classes on generated point sets (all shape classes as sources/targets, int64/float32/float64 "
               "arrays, constructor-born and re-targeted objects; also the public functions procrustes_alignment, "
               "optimal_rotation_matrix, index_alpha_beta) and diffing matrices, coefficients, triangle choices and "
               "barycentric coordinates, targets, errors, GPA iteration counts/convergence flags/targets against the "
               "Lean driver; constructor signatures/defaults and method providers of the live classes are regenerated "
               "into a Lean table with decide obligations on every run; an "
               "independent oracle decides the property on the real code.",
    level_note="Trusted: Lean kernel; axioms propext/Classical.choice/Quot.sound; the Python harness and the driver's "
               "parser; the translator harness/py2lean2.py, the rule tables and translator subclass of harness/trans_c07.py, the "
               "operator vocabulary Core/C07Src.lean: Np, the hand-written fuel knot genGpaRec (GenProps/C07SrcGpa.lean) that "
               "unrolls the translated recursive call.  Words of the translation vocabulary whose BODIES are not translated "
               "(anchored files): Affine._set_h_matrix (plainSetH: validity guards + store), Rotation.set_rotation_matrix "
               "(guards + h[:-1,:-1] = value), UniformScale.__init__ / UniformScale(..) / Translation(..) / Rotation(..) as "
               "expressions in procrustes_alignment, compose_before_inplace (matrix product), Translation.pseudoinverse, "
               "Homogeneous._apply (applyH), scale_about_centre, CachedPWA.index_alpha_beta (the cache layer of the public "
               "PiecewiseAffine: tied by sampling only; PythonPWA.index_alpha_beta is translated); translated since the audit: "
               "Homogeneous / Affine / Similarity / Translation / Rotation.__init__.  The translation is VALUE-LEVEL: it does "
               "not see .copy(), copy= flags, in-place versus rebinding, or object identity, so no aliasing / non-mutation "
               "fact follows from the translated obligations (C07's text has no such clause; storage dtypes after a history "
               "are covered by the measured table dtype_rows_ok).  Contract parameters (checked numerically on every case, not proved): np.linalg.svd returns "
               "orthogonal factors with non-negative, descending singular values; np.linalg.norm/sqrt returns the "
               "non-negative root; RBF kernel values (arbitrary in the theorem); scipy Delaunay returns a conforming "
               "triangulation.  For generalized Procrustes the answers of norm/svd in every pass are supplied by an "
               "independent numpy transcription of the iteration (gpa_replica) and the model re-runs the iteration "
               "exactly on them.  np.linalg.solve is NOT assumed: the model's solve is checked in Lean "
               "(solveChecked_spec; affine and exact-TPS theorems); the theorems about the TPS AS CODED (tps_svd_*, src_tps_*) "
               "do assume the svd contract of the (n+3)x(n+3) system.  Float rounding is not modelled (exact arithmetic, 1e-9 "
               "relative comparison, 1e-4 for float32 point arrays, conditioning bounded on the input).",
    rule="classes x {2-D, 3-D where supported} x 3..12 points; targets = family member(source) (exact recovery), "
         "member + dyadic noise at 4 levels, or arbitrary; small dyadic coordinates; sources/targets given as any of the "
         "8 shape classes (point cloud, graphs, tree, labelled graph, plain/coloured/textured mesh), as float64, "
         "int64 or float32 arrays; duplicated (weighted) landmarks, collinear 2-D and coplanar 3-D landmark sets for "
         "the rotating classes, landmarks 2^20 from the origin for the classes that centre first; piecewise-affine "
         "sources = Delaunay of a point set, or meshes carrying their own (grid with either diagonal, non-Delaunay "
         "quad split, fan of a convex polygon) triangulation, CachedPWA and PythonPWA; GPA over 1..5 sources in "
         "2-D/3-D with and without mirroring / a given target; constructor-born objects, objects re-targeted from the "
         "pseudoinverse() of the reverse alignment, and objects born on a first target stored in another dtype (int64 "
         "whole-pixel / float32 / float64) and then re-aimed with set_target; "
         "near-degenerate inputs (rank, singular-value gaps, TPS conditioning, points within 1e-6 of a triangle edge, "
         "a GPA convergence test within 0.1% of its threshold) rejected on the input; zero-size sources/targets are "
         "generated but only recorded (counted as trivial).  distinct = distinct (class, options, source, target); "
         "non-trivial = target differs from source and the source spans the space",
    partial=["EXACT-RATIONAL CONTRACTS (audit F1): the model is over Q and np.linalg.norm / np.linalg.svd are modelled as rational "
             "answers with an exact contract (r*r = norm2; U diag(D) Vt = M with U, Vt orthogonal).  For a generic rational "
             "point set the square root and the singular vectors are irrational, so NO rational witness exists and the "
             "theorems that take such a contract as hypothesis say nothing about that input (theorem contract_unsatisfiable: "
             "an ordinary 2-point target with norm2 = 2).  This concerns every scale / rotation / similarity / TPS-as-coded / "
             "GPA size-, optimality-, no-reflection- and interpolation theorem (scale_*, rotation_*, similarity_reproduces_size, "
             "similarity_uses_ls_rotation_*, tps_svd_*, gpa_* except the centroid ones, and their src_* forms); competitors Q "
             "are rational orthogonal matrices only.  They are proved on the inputs whose norm / SVD are rational (the rotx "
             "generator builds such data; the examples are Pythagorean) and are otherwise carried by the numerical check of "
             "the contract per case plus the independent oracle.  Unconditional (no contract): translation and affine "
             "optimality / recovery, the similarity and GPA centroid clause, piecewise-affine, exact-solve TPS, aligned "
             "source / alignment error plumbing, every translated = Core equality and the retarget histories.  Generalising "
             "Mat / SvdOK / FrobAt to an ordered field with K = R (Real.sqrt as witness) was not done",
             "similarity_reproduces_centroid / gpa_reproduces_centroid carry no rS != 0 hypothesis: for a zero-size source the "
             "model's scale is rT/0 = 0 and the statement holds while the code returns NaN / raises (recorded as "
             "degenerate_inputs); simFitE_reproduces_centroid and src_similarity_reproduces_centroid state the clause with "
             "the zero-size source excluded.  The model's det is the determinant for d <= 3 only (0 for d >= 4): the "
             "translated-equals-Core equality of optimal_rotation_matrix is about that word, so for d >= 4 without mirroring "
             "the model is not a model of the code (menpo's affine family is 2-D/3-D; no theorem is claimed there).  "
             "PwaObj.ops.apply sends a vertex outside every triangle to the origin (only genAlignedSource of a PWA object "
             "could see it; the theorems use pwaApply)",
             "uniform-scale family members used for exact recovery are the positive scales (a negative factor is a "
             "scale composed with a point reflection; the norm-ratio fit cannot and does not claim to return it)",
             "'scale and similarity alignments reproduce the target's centroid and overall size' is read "
             "distributively: the one-parameter scale family reproduces size, the similarity centroid and size",
             "thin-plate splines: _build_coefficients is modelled as coded (tpsFitSvd on the svd's answers; theorems "
             "tps_svd_interpolates / tps_svd_miss need the svd contract and a symmetric kernel matrix, both checked "
             "per case).  When a singular value falls below min_singular_val (near-coincident landmarks) the code "
             "drops that direction on purpose and no longer interpolates: such systems are generated (landmarks "
             "2^-10..2^-14 apart), compared with the model and recorded, but not judged - the degenerate case the "
             "quantifier excludes; judged systems stay 20x above the 1e-4 threshold; exact recovery of affine maps "
             "assumes the system invertible (a checked right inverse; the model computes one on every affine-image case)",
             "generalized Procrustes: the theorems are about the iteration given what norm/svd answered in each pass "
             "(contract hypotheses only for the last pass; Core gpa, what the driver runs) and, for the TRANSLATED "
             "iteration with norm/svd as functions (gpaRecExt), the alignment invariant and the centroid clause; the two "
             "formulations are not proved equal to each other (both are tied to the code: one by the correspondence, one "
             "by the translation); that the iteration converges for members of one similarity class is decided by the "
             "oracle, not proved; max_iterations is fixed at 100 inside the constructor, so the not-converged exit is "
             "proved for the model (and shown on a concrete run) but is not driven through the public API",
             "source translation: rules are compositional (one rule per call / idiom; numpy's operators - * / @ unary minus "
             "are chosen by the operand TYPES through scoped instances in Core/C07Src.lean: Np, so any sub-expression may be "
             "named or inlined), calls without a rule to helpers of the same module / class are translated and inlined, "
             "`for .. append` loops and comprehensions share one form, and every equality proof first rewrites the operators "
             "to the model's words (np_* lemmas) and then splits on the MODEL's tests; what is not absorbed: a local bound to "
             "a tuple-valued idiom that is indexed later (shape = U.shape; shape[0]), helpers that raise or mutate their "
             "receiver, while loops.  The rule tables of harness/trans_c07.py are trusted (numpy idioms read on the exact "
             "model: h[:-1, -1] = v, np.fill_diagonal, E[-1, -1] = d, np.concatenate blocks, u[:, :keep] as zero-padding, "
             "the einsum strings of alpha_beta read for one triangle and one point, alpha / beta rows of one query point); "
             "which method a Cls.__init__(self, ...) call ends in is checked on the live MRO, not translated; dimension "
             "/ shape guards that the typed model cannot violate (_verify_source_and_target, _verify_target) are dropped",
             "zero-size sources/targets (excluded by the quantifier) are modelled (fitScaleE/simFitE: no finite answer "
             "iff the source has zero size) and recorded per run, but a disagreement there is only counted, not judged",
             "piecewise affine: conformity of the triangulation is no longer assumed but checked - the executable "
             "certificate pwaCertB (non-degenerate triangles, any two of them on the same vertices or weakly separated "
             "by a line through two of their vertices that they touch only in shared vertices) is evaluated in Lean on "
             "the triangle list of every generated alignment and the theorems are proved from it; the certificate is "
             "sufficient, not necessary (a legal mesh with duplicated vertices would fail it and be reported as a "
             "broken tie); float containment excluding a point that lies exactly on the hull boundary is counted, "
             "not judged",
             "no-mirror rotation theorems are stated for 2-D and 3-D (the dimensions menpo's affine family supports); "
             "the mirror-allowed, translation, affine, scale, similarity-centroid/size theorems are dimension-generic"],
    assumptions=["np.linalg.svd contract (orthogonal U, Vt; D >= 0 descending; U diag(D) Vt = M) as an EXACT RATIONAL "
                 "hypothesis of the theorems (satisfiable only for inputs with a rational SVD, see partial[0]); numerically "
                 "verified to 1e-9 against the exact correlation matrix on every rotation/similarity case and against the "
                 "(n+3)x(n+3) system on every TPS case; on the last pass of every GPA case only orthogonality of U, Vt and "
                 "the two norms are verified (the replica does not keep D)",
                 "np.linalg.norm returns the non-negative square root (verified against the exact squared norm)",
                 "source point sets are non-degenerate (full rank for the affine fit, positive size, distinct "
                 "landmarks for TPS/PWA), as the property's quantifier says"],
    design_ref="DESIGN.md section 6, C07; section 7 #22")
SRC_MODULES = ["MenpoModel.GenProps.C07Src", "MenpoModel.GenProps.C07SrcPwa", "MenpoModel.GenProps.C07SrcTps",
               "MenpoModel.GenProps.C07SrcGpa", "MenpoModel.GenProps.C07SrcProps"]
IMPORTS = ["MenpoModel.Props.C07", "MenpoModel.Props.C07Limits", "MenpoModel.GenProps.C07"] + SRC_MODULES
TARGETS = ["MenpoModel.Props.C07", "MenpoModel.Props.C07Limits", "MenpoModel.Drive.C07", "MenpoModel.GenProps.C07"] + SRC_MODULES
_T = "MenpoModel.C07."
THEOREMS = [_T + t for t in [
    "translation_ls_optimal", "translation_ls_excess", "translation_recovery",
    "solveChecked_spec", "affine_ls_optimal", "affine_recovers_target", "affine_exact_recovery",
    "rotation_ls_optimal_mirror", "rotation_ls_optimal_2d", "rotation_ls_optimal_3d",
    "rotation_no_reflection_2d", "rotation_no_reflection_3d", "rotFit_isOrth",
    "rotation_recovers_target_mirror", "rotation_recovers_target_2d", "rotation_recovers_target_3d",
    "linear_unique_of_full_rank", "svdContractB_sound",
    "scale_reproduces_size", "scale_recovery",
    "similarity_reproduces_centroid", "similarity_reproduces_size",
    "similarity_uses_ls_rotation_mirror", "similarity_uses_ls_rotation_2d", "similarity_uses_ls_rotation_3d",
    "similarity_recovers_target_mirror", "similarity_recovers_target_2d", "similarity_recovers_target_3d",
    "similarity_recovers_target_norot",
    "tps_interpolates",
    "alpha_beta_correct", "alpha_beta_reconstruct", "triMap_affine", "triMap_vertex", "pwa_edge_continuity",
    "pwaApply_some", "pwa_interpolates", "pwa_affine_in_triangle", "pwa_on_edge",
    "alignment_error_resync_zero", "alignment_error_resync_refuted",
    "ofArr_toArr",
    # extension (Props/C07.lean): degenerate sizes, TPS recovers affine maps, generalized Procrustes
    "norm2_eq_zero_iff", "fitScaleE_none_iff", "fitScaleE_some", "simFitE_none_iff", "simFitE_some",
    "zero_size_target_collapses",
    "tpsL_mul_affineCoef", "solve_unique", "tps_affine_recovery", "tps_affine_no_bending", "tps_affine_exact",
    "triMap_recovers_affine", "pwa_recovers_affine",
    "tps_interp_of_solves", "tps_svd_product", "tpsKeep_full", "tps_svd_interpolates", "tps_svd_miss", "tpsL_symm",
    "scale_unique", "similarity_norot_unique",
    "triMap_combo3", "orient_combo3", "contains_combo", "pair_weights", "pair_agree",
    "pwa_single_valued", "pwa_affine_on_closed_triangle", "pwa_interpolates_cert", "pwa_on_edge_cert",
    "ofArr_simAlignTab", "gpaRec_inv", "gpa_none_iff", "gpa_transforms_are_alignments",
    "gpa_reproduces_centroid", "gpa_reproduces_size",
    "gpa_uses_ls_rotation_mirror", "gpa_uses_ls_rotation_2d", "gpa_uses_ls_rotation_3d",
    "linPart_simFit_rot", "gpa_no_reflection_2d", "gpa_no_reflection_3d",
    "gpa_reported_target_none", "gpa_reported_target_some",
    "gpa_converged_spec", "gpa_not_converged_spec", "gpa_nIter_le",
    "scaleAboutCentre_centroid", "scaleAboutCentre_norm2", "gpaNewTarget_centroid", "gpaNewTarget_size",
    # Props/C07Limits.lean: what the exact-rational contracts do not cover; centroid clause with the zero-size source excluded
    "contract_unsatisfiable", "simFitE_reproduces_centroid",
]] + ["MenpoModel.GenProps.C07.entries_wf", "MenpoModel.GenProps.C07.gpa_live_ok", "MenpoModel.GenProps.C07.dtype_rows_ok"]
# translated source = Core model (GenProps/C07Src*.lean over Generated/C07Src.lean, rewritten from the source text on every run)
SRC_THEOREMS = ["MenpoModel.GenProps.C07Src." + t for t in [
    "genPointCloudCentre_eq", "genPointCloudNorm_eq",
    "genAlignmentInit_eq", "genAlignedSource_eq", "genAlignedSource_hobj", "genAlignmentError_eq", "genTargetSetter_eq",
    "genNewTargetFromState_eq", "genTargetSetterWithVerification_eq", "genSyncTargetFromState_eq", "genSetTarget_eq",
    "genTranslationInit_eq", "genTranslationSync_eq", "translation_retarget", "translation_retargets",
    "genScaleInit_eq", "genScaleSync_eq", "scale_retarget", "scale_retargets",
    "genAffineBuildH_eq", "genAffineSetH_eq", "genAffineInit_eq", "genAffineSync_eq", "affine_retarget",
    "genOptimalRotationMatrix_eq", "genRotationSetRotationMatrix_eq", "genRotationInit_eq", "genRotationSync_eq",
    "rotation_retarget", "rotation_retargets",
    "genProcrustesAlignment_eq", "genSimilarityInit_eq", "genSimilaritySync_eq", "similarity_retarget", "similarity_retargets",
    "retargets_last",
    "genHomogPinv_eq", "affine_pinv_retarget", "similarity_pinv_retarget", "rotation_pinv_retarget",
    "translation_pinv_retarget", "scale_pinv_retarget", "genPwaPinv_eq", "genTpsPinv_eq",
    "genAlphaBeta_eq", "genContainment_eq", "genIndexAlphaBeta_eq", "pwaTri_eq_idx", "genBarycentricVectors_eq",
    "genPwaTrilist_eq", "genPwaRebuildTargetVectors_eq", "genPwaSync_eq", "genPythonPwaInit_eq", "pwa_retarget",
    "genPythonPwaIndexAlphaBeta_eq", "genPwaApply_eq",
    "blocks_eq_tpsL", "rhs_eq_tpsY", "truncated_inverse", "genTpsBuildCoefficients_eq", "genTpsSync_eq", "genTpsInit_eq",
    "tps_retarget", "genTpsApply_eq", "tps_svd_solves", "tps_svd_affine_recovery", "src_tps_affine_recovery",
    "genSimilarityCtor_eq", "genAffineCtor_eq", "genTranslationCtor_eq", "genRotationCtor_eq", "setTransCol_one",
    # the property stated for the translated code itself (GenProps/C07SrcProps.lean), every history of set_target calls
    "src_alignment_error",
    "src_translation_ls_optimal", "src_translation_recovery", "src_scale_reproduces_size", "src_scale_recovery",
    "src_affine_ls_optimal", "src_affine_retarget_ls_optimal", "src_affine_recovery",
    "src_rotation_ls_optimal_mirror", "src_rotation_ls_optimal_2d", "src_rotation_ls_optimal_3d",
    "src_rotation_no_reflection_2d", "src_rotation_no_reflection_3d",
    "src_similarity_reproduces_centroid", "src_similarity_reproduces_size",
    "src_similarity_uses_ls_rotation_mirror", "src_similarity_uses_ls_rotation_2d", "src_similarity_uses_ls_rotation_3d",
    "src_pwa_object", "src_pwa_mesh_keeps_trilist", "src_pwa_interpolates", "src_pwa_affine_on_closed_triangle",
    "src_pwa_retarget_interpolates", "src_tps_interpolates", "src_tps_init_interpolates",
    # generalized Procrustes (GenProps/C07SrcGpa.lean)
    "genMeanPointcloud_eq", "genMultipleAlignmentInit_eq", "genGpaRecursiveProcrustes_eq", "genGpaRec_eq", "genGpaInit_eq",
    "gpaStep_inv", "gpa_ext_inv", "src_gpa_transforms_are_alignments", "src_gpa_none_iff", "src_gpa_reproduces_centroid",
    "src_similarity_no_reflection_2d", "src_similarity_no_reflection_3d", "simObj_eq_init", "src_gpa_members",
    "src_gpa_reproduces_size",
]]
THEOREMS = THEOREMS + SRC_THEOREMS

TOL = 1e-9
TOL32 = 1e-4
F = Fraction


def case_tol(case):
    """comparison tolerance of a case: 1e-9 relative; 1e-4 relative when the point arrays are float32 (the
    implementation then computes in single precision)"""
    dts = [case.get("dtype"), case.get("dtype_s"), case.get("dtype_t")]   # not the dtype of a previous life's target
    return TOL32 if "f32" in dts else TOL


# ============================================================================ small exact helpers (oracle side)

def fr(a):
    """ndarray -> nested lists of Fractions (exact)"""
    return [[F(float(x)) for x in row] for row in np.asarray(a, dtype=float)]


def fsolve(G, Y):
    """exact Gauss-Jordan over Fractions; returns X with G X = Y or None"""
    k = len(G)
    rows = [list(G[i]) + list(Y[i]) for i in range(k)]
    for c in range(k):
        p = next((r for r in range(c, k) if rows[r][c] != 0), None)
        if p is None:
            return None
        rows[c], rows[p] = rows[p], rows[c]
        pv = rows[c][c]
        rows[c] = [x / pv for x in rows[c]]
        for r in range(k):
            if r != c and rows[r][c] != 0:
                f = rows[r][c]
                rows[r] = [x - f * y for x, y in zip(rows[r], rows[c])]
    return [row[k:] for row in rows]


def exact_affine_opt(S, T):
    """exact least-squares affine fit: (H as (d+1)x(d+1) Fractions, minimal squared error) or None"""
    Sf, Tf = fr(S), fr(T)
    n, d = len(Sf), len(Sf[0])
    A = [[Sf[i][r] for i in range(n)] for r in range(d)] + [[F(1)] * n]
    B = [[Tf[i][r] for i in range(n)] for r in range(d)] + [[F(1)] * n]
    G = [[sum(A[r][i] * A[c][i] for i in range(n)) for c in range(d + 1)] for r in range(d + 1)]
    Y = [[sum(A[r][i] * B[c][i] for i in range(n)) for c in range(d + 1)] for r in range(d + 1)]
    X = fsolve(G, Y)
    if X is None:
        return None
    H = [[X[c][r] for c in range(d + 1)] for r in range(d + 1)]
    e = F(0)
    for i in range(n):
        for r in range(d):
            v = sum(H[r][c] * A[c][i] for c in range(d + 1)) - Tf[i][r]
            e += v * v
    return H, e


def best_rotation_value(M, mirror):
    """max of tr(M^T Q) over proper rotations (mirror=False) or all orthogonal Q (mirror=True);
    closed form in 2-D, Horn's quaternion eigenvalue in 3-D.  M = T^T S as float ndarray."""
    d = M.shape[0]
    if d == 2:
        rot = math.hypot(M[0, 0] + M[1, 1], M[1, 0] - M[0, 1])
        ref = math.hypot(M[0, 0] - M[1, 1], M[0, 1] + M[1, 0])
        return max(rot, ref) if mirror else rot

    def horn(A):
        # A = sum t_i s_i^T (rows of A indexed by target axis): maximise tr(A^T R) = sum_i t_i . R s_i
        Sxx, Sxy, Sxz = A[0, 0], A[1, 0], A[2, 0]
        Syx, Syy, Syz = A[0, 1], A[1, 1], A[2, 1]
        Szx, Szy, Szz = A[0, 2], A[1, 2], A[2, 2]
        N = np.array([[Sxx + Syy + Szz, Syz - Szy, Szx - Sxz, Sxy - Syx],
                      [Syz - Szy, Sxx - Syy - Szz, Sxy + Syx, Szx + Sxz],
                      [Szx - Sxz, Sxy + Syx, -Sxx + Syy - Szz, Syz + Szy],
                      [Sxy - Syx, Szx + Sxz, Syz + Szy, -Sxx - Syy + Szz]])
        return float(np.linalg.eigvalsh(N)[-1])
    v = horn(M)
    return max(v, horn(-M)) if mirror else v


# ============================================================================ generators

SHAPE_CLASSES = ["PointCloud", "PointUndirectedGraph", "PointDirectedGraph", "PointTree",
                 "LabelledPointUndirectedGraph", "TriMesh", "ColouredTriMesh", "TexturedTriMesh"]
MESH_CLASSES = ["TriMesh", "ColouredTriMesh", "TexturedTriMesh"]
GRAPH_CLASSES = ["PointCloud", "PointUndirectedGraph", "PointDirectedGraph", "PointTree", "LabelledPointUndirectedGraph"]


def fan_trilist(n):
    return [[0, i, i + 1] for i in range(1, n - 1)]


def make_shape(points, shape_cls="PointCloud", trilist=None, dtype=None):
    """a menpo shape of class `shape_cls` holding `points`: every alignment must read only the points (and, for
    piecewise affine, a mesh's own triangulation), whatever extra structure the object carries"""
    import menpo.shape as ms
    P = np.array(points, dtype=float)
    if dtype == "int" and np.all(P == np.round(P)):
        P = P.astype(np.int64)
    elif dtype == "f32" and np.all(P.astype(np.float32).astype(float) == P):
        P = P.astype(np.float32)
    n = P.shape[0]
    if shape_cls == "PointCloud":
        return ms.PointCloud(P)
    if shape_cls in ("PointUndirectedGraph", "LabelledPointUndirectedGraph"):
        edges = np.array([[i, (i + 1) % n] for i in range(n)])
        g = ms.PointUndirectedGraph.init_from_edges(P, edges)
        if shape_cls == "PointUndirectedGraph":
            return g
        return ms.LabelledPointUndirectedGraph.init_with_all_label(P, g.adjacency_matrix)
    if shape_cls == "PointDirectedGraph":
        return ms.PointDirectedGraph.init_from_edges(P, np.array([[i, (i + 1) % n] for i in range(n)]))
    if shape_cls == "PointTree":
        return ms.PointTree.init_from_edges(P, np.array([[i, i + 1] for i in range(n - 1)]), root_vertex=0)
    tl = np.array(trilist if trilist is not None else fan_trilist(n))
    if shape_cls == "TriMesh":
        return ms.TriMesh(P, trilist=tl)
    if shape_cls == "ColouredTriMesh":
        cols = np.linspace(0.0, 1.0, n * 3).reshape(n, 3)
        return ms.ColouredTriMesh(P, trilist=tl, colours=cols)
    if shape_cls == "TexturedTriMesh":
        from menpo.image import Image
        lo = P[:, :2].min(axis=0)
        span = np.ptp(P[:, :2], axis=0)
        span[span == 0] = 1.0
        tcoords = (P[:, :2] - lo) / span
        return ms.TexturedTriMesh(P, tcoords, Image.init_blank((4, 4), n_channels=1), trilist=tl)
    raise ValueError(shape_cls)


def gen_points(rng, n, d, kmax=24, mexp=2):
    """n points in d dims, small dyadic coordinates, full rank, distinct, reasonably conditioned"""
    while True:
        P = np.array([[common.dyadic(rng, kmax, mexp) for _ in range(d)] for _ in range(n)], dtype=float)
        if len({tuple(r) for r in P.tolist()}) < n:
            continue
        C = P - P.mean(axis=0)
        s = np.linalg.svd(C, compute_uv=False)
        if n < d + 1 or len(s) < d or s[d - 1] < 0.05 * s[0] or s[0] < 1.0:
            continue
        return P


def rat_rotation(rng, d):
    """exact rational proper rotation as nested Fractions"""
    if d == 2:
        c, s = common.rat_circle(rng)
        return [[c, -s], [s, c]]
    while True:
        q = [rng.randint(-4, 4) for _ in range(4)]
        nn = sum(x * x for x in q)
        if nn:
            break
    w, x, y, z = [F(v) for v in q]
    nn = F(nn)
    return [[(w * w + x * x - y * y - z * z) / nn, 2 * (x * y - w * z) / nn, 2 * (x * z + w * y) / nn],
            [2 * (x * y + w * z) / nn, (w * w - x * x + y * y - z * z) / nn, 2 * (y * z - w * x) / nn],
            [2 * (x * z - w * y) / nn, 2 * (y * z + w * x) / nn, (w * w - x * x - y * y + z * z) / nn]]


def rat_orth(rng, d, proper):
    R = rat_rotation(rng, d)
    if not proper:
        R = [[R[i][j] * (-1 if j == d - 1 else 1) for j in range(d)] for i in range(d)]
    return R


def fmatmul(A, B):
    return [[sum(A[i][k] * B[k][j] for k in range(len(B))) for j in range(len(B[0]))] for i in range(len(A))]


def ftr(A):
    return [list(r) for r in zip(*A)]


def to_float(A):
    return np.array([[float(x) for x in r] for r in A], dtype=float)


def member_matrix(rng, cls, opts, d):
    """random member of the family of `cls` as an exact (d+1)x(d+1) Fraction matrix"""
    I = [[F(int(i == j)) for j in range(d)] for i in range(d)]
    t = [F(0)] * d
    L = I
    if cls == "translation":
        t = [F(common.dyadic(rng, 40, 2)) for _ in range(d)]
    elif cls == "scale":
        s = F(rng.choice([1, 2, 3, 5, 7, 12])) / F(rng.choice([1, 2, 4, 8]))
        L = [[s * I[i][j] for j in range(d)] for i in range(d)]
    elif cls == "rotation":
        L = rat_orth(rng, d, proper=not (opts["mirror"] and (opts.get("_force_improper") or rng.random() < 0.5)))
    elif cls == "similarity":
        s = F(rng.choice([1, 2, 3, 5, 7])) / F(rng.choice([1, 2, 4]))
        R = rat_orth(rng, d, proper=not (opts["mirror"] and (opts.get("_force_improper") or rng.random() < 0.5))) \
            if opts["rotation"] else I
        L = [[s * R[i][j] for j in range(d)] for i in range(d)]
        t = [F(common.dyadic(rng, 40, 2)) for _ in range(d)]
    elif cls == "affine":
        while True:
            Li = [[rng.randint(-6, 6) for _ in range(d)] for _ in range(d)]
            if abs(np.linalg.det(np.array(Li, dtype=float))) >= 1:
                break
        L = [[F(x) for x in r] for r in Li]
        t = [F(common.dyadic(rng, 40, 2)) for _ in range(d)]
    H = [L[i] + [t[i]] for i in range(d)] + [[F(0)] * d + [F(1)]]
    return H


def apply_exact(H, S):
    d = len(H) - 1
    Sf = fr(S)
    return [[sum(H[r][c] * p[c] for c in range(d)) + H[r][d] for r in range(d)] for p in Sf]


def gen_target(rng, cls, opts, S, kind):
    """target for the homogeneous classes; returns (T ndarray, member or None)"""
    n, d = S.shape
    if kind == "arbitrary":
        return gen_points(rng, n, d), None
    if kind == "improper":
        # a mirrored member plus noise: with allow_mirror=False this forces the determinant-corrected branch
        H = member_matrix(rng, cls, dict(opts, mirror=True, _force_improper=True), d)
        T = to_float(apply_exact(H, S))
        N = np.array([[rng.randint(-4, 4) / 8.0 for _ in range(d)] for _ in range(n)])
        return T + N, None
    H = member_matrix(rng, cls, opts, d)
    T = to_float(apply_exact(H, S))
    if kind == "recover":
        return T, H
    lvl = {"noise0": 1 / 64.0, "noise1": 1 / 8.0, "noise2": 1.0, "noise3": 8.0}[kind]
    N = np.array([[rng.randint(-4, 4) * lvl for _ in range(d)] for _ in range(n)])
    return T + N, None


KINDS = ["recover", "recover", "noise0", "noise1", "noise2", "noise3", "arbitrary"]
HOMOG = [("translation", {}), ("scale", {}), ("affine", {}),
         ("rotation", {"mirror": False}), ("rotation", {"mirror": True}),
         ("similarity", {"rotation": True, "mirror": False}), ("similarity", {"rotation": True, "mirror": True}),
         ("similarity", {"rotation": False, "mirror": False}), ("similarity", {"rotation": False, "mirror": True})]


def rot_gap_ok(M, mirror):
    """conditioning of the (constrained) Kabsch solution, judged on the input correlation matrix: the solution is
    Lipschitz with constant ~ 1/(s[-2] + sign * s[-1]); the determinant test must not sit on a tie"""
    s = np.linalg.svd(M, compute_uv=False)
    if s[0] <= 0:
        return False
    if mirror:
        return (s[-2] + s[-1]) > 2e-3 * s[0]
    dm = np.linalg.det(M)
    if s[-1] <= 1e-12 * s[0]:
        # exactly rank-deficient correlation (coplanar 3-D landmarks, three points after centring): the proper
        # rotation U diag(1,..,1,det(U V^T)) V^T is still unique and well conditioned as long as s[-2] > 0
        return s[-2] > 2e-3 * s[0]
    if abs(dm) < 1e-6 * s[0] ** len(s):
        return False
    sign = 1.0 if dm > 0 else -1.0
    return (s[-2] + sign * s[-1]) > 2e-3 * s[0]


def gen_homog_case(rng, cls, opts, d=None, kind=None):
    d = d or rng.choice([2, 2, 3])
    kind = kind or rng.choice(KINDS)
    rotating = cls == "rotation" or (cls == "similarity" and opts.get("rotation"))
    if rotating and not opts["mirror"] and kind in ("noise1", "noise2", "arbitrary") and rng.random() < 0.6:
        kind = "improper"
    planar = d == 3 and rotating and not opts["mirror"] and rng.random() < 0.3
    if planar and kind in ("improper", "arbitrary"):
        kind = "noise1" if kind == "improper" else "noise3"   # gen_points cannot draw fewer than d+1 points
    # collinear 2-D landmarks (rank-1 correlation matrix: the proper rotation is still unique); through the origin for
    # the rotation about the origin, anywhere for the similarity (which centres first)
    collinear = d == 2 and rotating and not opts["mirror"] and rng.random() < 0.15
    if collinear and kind in ("improper", "arbitrary"):
        kind = "noise1" if kind == "improper" else "noise3"
    # landmarks far from the origin (offset 2^20, exactly representable) for the classes that centre first
    far = (cls in ("translation", "scale") or cls == "similarity") and not planar and not collinear and rng.random() < 0.08
    dup = not planar and not collinear and rng.random() < 0.12
    for _ in range(200):
        n = rng.randint(d + 1, 12) if rng.random() < 0.85 else d + 1
        n = max(n, 3)
        if collinear:
            n = rng.choice([3, 3, 4, 5, 7])
            while True:
                v = np.array([rng.randint(-4, 4), rng.randint(-4, 4)], dtype=float)
                if v.any():
                    break
            ts = rng.sample([x / 2.0 for x in range(-10, 11) if x != 0], n)
            p0 = np.zeros(2) if cls == "rotation" else np.array([common.dyadic(rng, 24, 2), common.dyadic(rng, 24, 2)])
            S = p0 + np.outer(ts, v)
        elif planar:
            # coplanar 3-D landmarks (a flat template) or just three points: the correlation matrix has rank 2
            n = rng.choice([3, 3, 4, 5, 7])
            P2 = gen_points(rng, n, 2)
            a, b = rng.randint(-2, 2), rng.randint(-2, 2)
            S = np.column_stack([P2[:, 0], P2[:, 1], a * P2[:, 0] + b * P2[:, 1]])
            S = S[:, rng.sample(range(3), 3)]
        else:
            S = gen_points(rng, n, d)
        if dup:
            # the same landmark listed twice or three times (a weighted point), each copy with its own target
            extra = [rng.randrange(n) for _ in range(rng.choice([1, 2, 3]))]
            S = np.vstack([S, S[extra]])
            n = S.shape[0]
        if far:
            S = S + float(2 ** 20) * np.array([rng.choice([-1, 1]) for _ in range(d)])
        T, member = gen_target(rng, cls, opts, S, kind)
        if cls in ("rotation", "similarity") and (cls == "rotation" or opts.get("rotation")):
            if cls == "rotation":
                M = T.T.dot(S)
            else:
                Sc, Tc = S - S.mean(axis=0), T - T.mean(axis=0)
                if np.linalg.norm(Sc) == 0 or np.linalg.norm(Tc) == 0:
                    continue
                M = Tc.T.dot(Sc * (np.linalg.norm(Tc) / np.linalg.norm(Sc)))
            if not rot_gap_ok(M, opts["mirror"]):
                continue
        if cls in ("scale", "similarity") and np.linalg.norm(T - T.mean(axis=0)) < 1e-3:
            continue
        if far and not (np.all(S == np.round(S * 64) / 64) and np.all(T == np.round(T * 64) / 64)):
            continue                                        # the offset target must stay exactly representable
        case = dict(cls=cls, opts=opts, S=S.tolist(), T=T.tolist(), kind=kind,
                    member=None if member is None else [[str(x) for x in r] for r in member])
        for flag, on in (("collinear", collinear), ("planar", planar), ("far", far), ("dup", dup)):
            if on:
                case.setdefault("shape", []).append(flag)
        return case
    raise common.Infra("C07 generator could not produce a well-conditioned %s case" % cls)


def gen_degenerate_case(rng):
    """inputs the property's quantifier excludes (zero-size source or target: all points coincide) for the classes
    that divide by a size.  Not judged - the run records what the code does (raises / non-finite / finite) next to
    what the model says (`fitScaleE` / `simFitE`: no finite answer exactly for a zero-size source)."""
    cls, opts = rng.choice([("scale", {}), ("similarity", {"rotation": True, "mirror": False}),
                            ("similarity", {"rotation": False, "mirror": False}),
                            ("similarity", {"rotation": True, "mirror": True}), ("affine", {})])
    d = rng.choice([2, 3])
    if cls == "affine":
        # a source that does not span the space (collinear 2-D / coplanar 3-D): a a^T is singular
        n = rng.randint(d + 1, 6)
        B = gen_points(rng, n, d - 1)
        coef = [rng.randint(-2, 2) for _ in range(d - 1)]
        S = np.column_stack([B, B.dot(np.array(coef, dtype=float)) + rng.randint(-3, 3)])
        T = gen_points(rng, n, d)
        return dict(cls=cls, opts=opts, S=S.tolist(), T=T.tolist(), kind="flat-source", degenerate="flat-source", member=None)
    n = rng.randint(3, 6)
    pt = [common.dyadic(rng, 24, 2) for _ in range(d)]
    P = gen_points(rng, max(n, d + 1), d)
    n = P.shape[0]
    Z = np.array([pt] * n)
    which = rng.choice(["zero-source", "zero-source", "zero-target", "zero-both"])
    S, T = {"zero-source": (Z, P), "zero-target": (P, Z), "zero-both": (Z, Z + 1.0)}[which]
    return dict(cls=cls, opts=opts, S=S.tolist(), T=T.tolist(), kind=which, degenerate=which, member=None)


def run_degenerate(ctx, case, cid, lines, pending):
    import warnings
    cls, o = case["cls"], case["opts"]
    Sp, Tp = np.array(case["S"], dtype=float), np.array(case["T"], dtype=float)
    n, d = Sp.shape
    H = None
    with warnings.catch_warnings():
        warnings.simplefilter("ignore")
        try:
            a = _build_fresh(case)[0]
            H = np.array(a.h_matrix, dtype=float)
            beh = "finite" if np.all(np.isfinite(H)) else "non-finite"
        except Exception as e:  # noqa: BLE001 - which error (if any) is exactly what is being recorded
            beh = "raises-" + type(e).__name__
    rS = float(np.linalg.norm(Sp - Sp.mean(axis=0)))
    rT = float(np.linalg.norm(Tp - Tp.mean(axis=0)))
    sS, sT = mat_tok(Sp), mat_tok(Tp)
    if cls == "scale":
        lines.append("%s.fit scale %s %s %s %s" % (cid, sS, sT, common.fq(rT), common.fq(rS)))
    elif cls == "affine":
        lines.append("%s.fit affine %s %s" % (cid, sS, sT))
    else:
        I = np.eye(d)
        lines.append("%s.fit similarity %d %d %s %s %s %s %s %s" % (
            cid, int(o["rotation"]), int(o["mirror"]), sS, sT, common.fq(rT), common.fq(rS), mat_tok(I), mat_tok(I)))
    pending[cid] = dict(case=case, degenerate=True, behaviour=beh, H=H)


def compare_degenerate(ctx, cid, pend, model):
    case, beh, H = pend["case"], pend["behaviour"], pend["H"]
    reply = model.get(cid + ".fit", "")
    m = "no-finite-answer" if reply.startswith("err zero-size-source") or reply.startswith("err singular") \
        else ("finite" if reply.startswith("ok") else "other")
    agree = (m == "no-finite-answer") == (beh != "finite")
    if m == "finite" and beh == "finite":
        d = len(case["S"][0])
        nums = parse_nums(reply)
        Hm = nums[2:2 + (d + 1) ** 2] if case["cls"] == "scale" else nums[:(d + 1) ** 2]
        if len(Hm) < (d + 1) ** 2:
            Hm = [0] * ((d + 1) ** 2)
        Hm = np.array([float(x) for x in Hm]).reshape(d + 1, d + 1)
        agree = bool(np.allclose(H, Hm, rtol=0, atol=1e-9 * (1 + norm_scale(Hm))))
    ctx.count("degenerate:%s:%s:code=%s:model=%s:%s" % (case["degenerate"], case["cls"], beh, m, "agree" if agree else "DIFFER"))
    ctx.notes.setdefault("degenerate_inputs", {})
    key = "%s %s%s" % (case["degenerate"], CLASSNAME[case["cls"]], "" if case["cls"] != "similarity" else "(rotation=%s)" % case["opts"]["rotation"])
    ctx.notes["degenerate_inputs"][key] = "code: %s; model: %s" % (beh, m)


def gen_rotx_case(rng, d, mirror):
    """rotation case with an *exact rational SVD* of the correlation matrix: S integer full rank, M = U D V^T with
    rational orthogonal U, V and distinct positive D, T = S (S^T S)^-1 M^T + N with N^T S = 0 (all exact)."""
    while True:
        n = rng.randint(d + 1, 7)
        S = np.array([[rng.randint(-5, 5) for _ in range(d)] for _ in range(n)], dtype=float)
        if abs(np.linalg.det(S.T.dot(S))) >= 1:
            break
    Sf = fr(S)
    U = rat_orth(rng, d, proper=rng.random() < 0.5)
    V = rat_orth(rng, d, proper=rng.random() < 0.5)
    base = sorted(rng.sample(range(1, 9), d), reverse=True)
    D = [F(b * rng.choice([1, 2, 4])) for b in base]
    D.sort(reverse=True)
    if len(set(D)) < d:
        D = [F(x) for x in base]
    Dm = [[D[i] if i == j else F(0) for j in range(d)] for i in range(d)]
    Vt = ftr(V)
    M = fmatmul(U, fmatmul(Dm, Vt))
    G = fmatmul(ftr(Sf), Sf)
    Gi = fsolve(G, [[F(int(i == j)) for j in range(d)] for i in range(d)])
    P = fmatmul(Sf, fmatmul(Gi, ftr(Sf)))            # projector onto col(S)
    Z = [[F(rng.randint(-3, 3)) for _ in range(d)] for _ in range(n)]
    PZ = fmatmul(P, Z)
    N = [[Z[i][j] - PZ[i][j] for j in range(d)] for i in range(n)]
    T0 = fmatmul(Sf, fmatmul(Gi, ftr(M)))
    T = [[T0[i][j] + N[i][j] for j in range(d)] for i in range(n)]
    return dict(cls="rotx", opts={"mirror": mirror}, S=S.tolist(), T=to_float(T).tolist(), kind="exact-svd",
                Tq=[[str(x) for x in r] for r in T], U=[[str(x) for x in r] for r in U], D=[str(x) for x in D],
                Vt=[[str(x) for x in r] for r in Vt])


def gen_tps_case(rng, kind=None):
    from menpo.transform.rbf import R2LogR2RBF
    kind = kind or rng.choice(["arbitrary", "noise1", "affine-image"])
    truncated = kind != "affine-image" and rng.random() < 0.08
    for _ in range(400):
        n = rng.randint(4, 10)
        S = gen_points(rng, n, 2, kmax=16, mexp=3) if rng.random() < 0.6 else gen_points(rng, n, 2, kmax=16, mexp=2)
        if truncated:
            # two landmarks 2^-10 .. 2^-14 apart: one singular value of the system falls below min_singular_val and the
            # code drops that direction (outside the property's quantifier: recorded, compared with the model, not judged)
            n = rng.randint(5, 9)
            S = gen_points(rng, n - 1, 2, kmax=16, mexp=2)
            e = 2.0 ** -rng.randint(10, 14)
            S = np.vstack([S, S[rng.randrange(n - 1)] + np.array(rng.choice([[e, 0.0], [0.0, e], [e, e]]))])
        if kind == "affine-image":
            H = member_matrix(rng, "affine", {}, 2)
            T = to_float(apply_exact(H, S))
        elif kind == "noise1":
            T = S + np.array([[rng.randint(-4, 4) / 8.0 for _ in range(2)] for _ in range(n)])
        else:
            T = gen_points(rng, n, 2, kmax=16, mexp=2)
        K = R2LogR2RBF(S).apply(S)
        Pm = np.hstack([np.ones((n, 1)), S])
        L = np.vstack([np.hstack([K, Pm]), np.hstack([Pm.T, np.zeros((3, 3))])])
        sv = np.linalg.svd(L, compute_uv=False)
        # the code drops singular values below min_singular_val = 1e-4 (then it no longer inverts l): stay 20x
        # above that threshold and bound the condition number, both judged on the input system
        if truncated:
            if not (sv[-1] < 5e-5 and sv[-2] > 2e-3 and sv[0] / sv[-2] < 1e6):
                continue
            probes = [[common.dyadic(rng, 24, 3), common.dyadic(rng, 24, 3)] for _ in range(3)]
            return dict(cls="tps", opts={}, S=S.tolist(), T=T.tolist(), kind=kind, probes=probes, truncated=True)
        if sv[-1] < 2e-3 or sv[0] / sv[-1] > 1e6:
            continue
        probes = [[common.dyadic(rng, 24, 3), common.dyadic(rng, 24, 3)] for _ in range(3)]
        return dict(cls="tps", opts={}, S=S.tolist(), T=T.tolist(), kind=kind, probes=probes)
    raise common.Infra("C07 generator could not produce a well-conditioned TPS case")


def tri_edges(trilist):
    e = {}
    for ti, (a, b, c) in enumerate(trilist):
        for u, v in ((a, b), (b, c), (a, c)):
            e.setdefault((min(u, v), max(u, v)), []).append(ti)
    return e


def exact_bary(S, tri, p):
    """exact barycentric (alpha, beta) of p (Fractions) in source triangle tri"""
    i, j, k = [[F(float(x)) for x in S[v]] for v in tri]
    ij = [j[0] - i[0], j[1] - i[1]]
    ik = [k[0] - i[0], k[1] - i[1]]
    ip = [p[0] - i[0], p[1] - i[1]]
    det = ij[0] * ik[1] - ij[1] * ik[0]
    if det == 0:
        return None
    a = (ip[0] * ik[1] - ip[1] * ik[0]) / det
    b = (ij[0] * ip[1] - ij[1] * ip[0]) / det
    return a, b


def convex_polygon(rng, m):
    """m vertices of a strictly convex polygon in counter-clockwise order, small dyadic coordinates"""
    for _ in range(200):
        ang = sorted(rng.sample(range(32), m))
        if max((ang[(i + 1) % m] - ang[i]) % 32 for i in range(m)) >= 15:
            continue
        r = [rng.choice([4, 5, 6, 7, 8]) for _ in range(m)]
        P = np.array([[round(4 * r[i] * math.cos(2 * math.pi * ang[i] / 32)) / 4.0,
                       round(4 * r[i] * math.sin(2 * math.pi * ang[i] / 32)) / 4.0] for i in range(m)])
        ok = True
        for i in range(m):
            a_, b_, c_ = P[i], P[(i + 1) % m], P[(i + 2) % m]
            cr = (b_[0] - a_[0]) * (c_[1] - b_[1]) - (b_[1] - a_[1]) * (c_[0] - b_[0])
            if cr < 1.0:
                ok = False
        if ok:
            return P
    return None


def delaunay_set(P):
    from scipy.spatial import Delaunay
    return {tuple(sorted(int(v) for v in t)) for t in Delaunay(P).simplices}


def gen_pwa_case(rng, kind=None):
    """source meshes: Delaunay of a point set (source given as a point cloud / graph: the alignment triangulates it
    itself), a jittered grid whose cells are split along either diagonal, a convex quad split along the diagonal the
    Delaunay triangulation would NOT choose, a fan triangulation of a convex polygon from a random apex.  The three
    own-triangulation kinds are handed over as TriMesh, ColouredTriMesh or TexturedTriMesh."""
    kind = kind or rng.choice(["delaunay", "delaunay", "grid", "grid", "quad", "fan", "fan"])
    for _ in range(400):
        if kind == "grid":
            w, h = rng.randint(2, 3), rng.randint(2, 3)
            pts, tris = [], []
            for y in range(h + 1):
                for x in range(w + 1):
                    jx = 0 if x in (0, w) else rng.randint(-1, 1) / 4.0
                    jy = 0 if y in (0, h) else rng.randint(-1, 1) / 4.0
                    pts.append([2.0 * x + jx, 2.0 * y + jy])
            for y in range(h):
                for x in range(w):
                    a = y * (w + 1) + x
                    b, c, e = a + 1, a + w + 1, a + w + 2
                    tris += [[a, b, c], [b, e, c]] if rng.random() < 0.5 else [[a, b, e], [a, e, c]]
            S = np.array(pts)
            trilist = np.array(tris)
        elif kind in ("quad", "fan"):
            m = 4 if kind == "quad" else rng.randint(5, 8)
            S = convex_polygon(rng, m)
            if S is None:
                continue
            apex = rng.randrange(m)
            order = [(apex + i) % m for i in range(m)]
            trilist = np.array([[order[0], order[i], order[i + 1]] for i in range(1, m - 1)])
            if kind == "quad":
                # the other diagonal than Delaunay's (a co-circular quad has no preferred one: redraw)
                if {tuple(sorted(t)) for t in trilist.tolist()} == delaunay_set(S):
                    trilist = np.array([[order[1], order[2], order[3]], [order[1], order[3], order[0]]])
                if {tuple(sorted(t)) for t in trilist.tolist()} == delaunay_set(S):
                    continue
        else:
            from menpo.shape import TriMesh
            n = rng.randint(4, 9)
            S = gen_points(rng, n, 2, kmax=16, mexp=1)
            trilist = np.array(TriMesh(S).trilist)
        n = S.shape[0]
        # non-degenerate triangles with decent aspect (bounded on the input), every vertex used
        ok = set(trilist.ravel().tolist()) == set(range(n))
        for t in trilist:
            a, b, c = S[t[0]], S[t[1]], S[t[2]]
            area2 = abs((b[0] - a[0]) * (c[1] - a[1]) - (b[1] - a[1]) * (c[0] - a[0]))
            L2 = max(np.sum((b - a) ** 2), np.sum((c - a) ** 2), np.sum((c - b) ** 2))
            if area2 < 0.02 * L2:
                ok = False
        if not ok:
            continue
        mode = rng.choice(["arbitrary", "affine-image", "noise", "noise"])
        if mode == "affine-image":
            T = to_float(apply_exact(member_matrix(rng, "affine", {}, 2), S))
        elif mode == "noise":
            T = S + np.array([[rng.randint(-3, 3) / 4.0 for _ in range(2)] for _ in range(n)])
        else:
            T = np.array([[common.dyadic(rng, 24, 2) for _ in range(2)] for _ in range(n)])
        # probe points: strict interior (dyadic barycentric weights), exact edge points, clearly outside
        probes = []
        for _ in range(6 if kind != "delaunay" else 4):
            t = trilist[rng.randrange(len(trilist))]
            w = [rng.randint(1, 6) for _ in range(3)]
            sw = 16
            w[2] = sw - w[0] - w[1]
            p = (w[0] * S[t[0]] + w[1] * S[t[1]] + w[2] * S[t[2]]) / sw
            probes.append(dict(kind="interior", tri=[int(x) for x in t], w=[x / float(sw) for x in w], p=p.tolist()))
        edges = sorted(tri_edges(trilist.tolist()).items())
        for _ in range(3):
            (u, v), owners = edges[rng.randrange(len(edges))]
            c = rng.choice([1, 2, 3, 4, 5, 6, 7]) / 8.0
            p = (1 - c) * S[u] + c * S[v]
            probes.append(dict(kind="edge", u=u, v=v, c=c, owners=owners, p=p.tolist()))
        lo, hi = S.min(axis=0), S.max(axis=0)
        probes.append(dict(kind="outside", p=[float(hi[0] + 3.0), float(hi[1] + 2.5)]))
        src_cls = rng.choice(GRAPH_CLASSES) if kind == "delaunay" else rng.choice(MESH_CLASSES)
        tgt_cls = rng.choice(SHAPE_CLASSES)
        impl = rng.choice(["PiecewiseAffine", "PiecewiseAffine", "PythonPWA"])
        return dict(cls="pwa", opts={"mesh": kind, "source_class": src_cls, "target_class": tgt_cls, "impl": impl},
                    S=S.tolist(), T=T.tolist(), kind=mode, trilist=trilist.tolist(), probes=probes)
    raise common.Infra("C07 generator could not produce a PWA case")


def polar_ok(M, mirror, gap=0.05):
    """conditioning of one Kabsch step inside an *iteration* (stricter than rot_gap_ok: errors are fed back)"""
    s = np.linalg.svd(M, compute_uv=False)
    if s[0] <= 0:
        return False
    if mirror:
        return s[-1] > 1e-3 * s[0] and (s[-2] + s[-1]) > gap * s[0]
    if s[-1] <= 1e-12 * s[0]:
        return s[-2] > gap * s[0]           # exactly rank-deficient: the proper rotation is still unique
    dm = np.linalg.det(M)
    if abs(dm) < 1e-6 * s[0] ** len(s):
        return False
    return (s[-2] + (1.0 if dm > 0 else -1.0) * s[-1]) > gap * s[0]


def gpa_replica(shapes, target, mirror, max_iterations=100):
    """GPA written out in plain numpy from the class docstrings (mean shape, rescale to the initial size, re-align,
    stop when the mean moves less than 1e-6), recording what every external routine (norm, svd) returned.  It is
    the source of the contract witnesses the Lean model needs and it judges conditioning *on the inputs*: `ok` is
    False when some Kabsch step is ill-conditioned or the convergence test sits within 0.1 % of its threshold."""
    shapes = [np.asarray(x, dtype=float) for x in shapes]
    k = len(shapes)
    ok = True

    def fit(S, T):
        nonlocal ok
        cS, cT = S.mean(axis=0), T.mean(axis=0)
        rS, rT = float(np.linalg.norm(S - cS)), float(np.linalg.norm(T - cT))
        if rS < 1e-3 or rT < 1e-3:
            ok = False
            rS = rS or 1.0
        Xs, Xt = (rT / rS) * (S - cS), T - cT
        M = Xt.T.dot(Xs)
        if not polar_ok(M, mirror):
            ok = False
        U, D, Vt = np.linalg.svd(M)
        R = U.dot(Vt)
        if not mirror and np.linalg.det(R) < 0:
            E = np.eye(S.shape[1])
            E[-1, -1] = -1
            R = U.dot(E).dot(Vt)
        return dict(rT=rT, rS=rS, U=U, Vt=Vt), Xs.dot(R.T) + cT

    tgt = np.asarray(target, dtype=float) if target is not None else sum(shapes) / k
    w0, aligned = zip(*[fit(S, tgt) for S in shapes])
    init_scale = float(np.linalg.norm(tgt - tgt.mean(axis=0)))
    n_iter, ws, deltas = 1, [], []
    converged = False
    while n_iter <= max_iterations:
        mean = sum(aligned) / k
        c = mean.mean(axis=0)
        nn = float(np.linalg.norm(mean - c))
        if nn < 1e-3:
            ok = False
            break
        new = (init_scale / nn) * (mean - c) + c
        delta = float(np.linalg.norm(tgt - new))
        deltas.append(delta)
        if abs(delta - 1e-6) < 1e-9:
            ok = False
        if delta < 1e-6:
            ws.append(dict(newNorm=nn, sims=list(w0)))     # the sims of this pass are never used
            converged = True
            break
        sims, aligned = zip(*[fit(S, new) for S in shapes])
        ws.append(dict(newNorm=nn, sims=list(sims)))
        tgt = new
        n_iter += 1
    return dict(ok=ok, w0=list(w0), init_scale=init_scale, ws=ws, n_iter=n_iter, converged=converged, target=tgt,
                deltas=deltas)


def gen_gpa_case(rng, kind=None):
    """sources = similarity images of one base shape (exact members / noisy at two levels) or unrelated shapes;
    2-D and 3-D; with and without mirroring; with and without a given target; boundary sizes (2 sources, 1 source with
    a target, 3 points in 3-D: rank-deficient Kabsch steps); duplicated sources"""
    kind = kind or rng.choice(["members", "noisy", "noisy", "noisy2", "unrelated"])
    for _ in range(200):
        d = rng.choice([2, 2, 3])
        mirror = rng.random() < 0.3
        n = rng.randint(d + 1, 8)
        if d == 3 and not mirror and rng.random() < 0.25:
            n = 3                                          # centring makes a 3-D triangle rank 2
            base = np.array([[common.dyadic(rng, 24, 2) for _ in range(3)] for _ in range(3)])
            if np.linalg.svd(base - base.mean(axis=0), compute_uv=False)[1] < 0.5:
                continue
        else:
            base = gen_points(rng, n, d)
        k = rng.choice([2, 2, 3, 3, 4, 5])
        shapes = []
        # whole-pixel annotations: every source an int64 array (the mean shape and every re-fit must come out in floats)
        intlike = kind == "unrelated" and rng.random() < 0.4
        if intlike:
            base = np.round(base * 4.0)
        for _ in range(k):
            if kind == "unrelated":
                P = base + np.array([[rng.randint(-8, 8) / (1.0 if intlike else 4.0) for _ in range(d)] for _ in range(n)])
            else:
                H = member_matrix(rng, "similarity", {"rotation": True, "mirror": mirror}, d)
                P = to_float(apply_exact(H, base))
                if kind in ("noisy", "noisy2"):
                    lvl = 8.0 if kind == "noisy" else 2.0
                    P = P + np.array([[rng.randint(-2, 2) / lvl for _ in range(d)] for _ in range(n)])
            shapes.append(P.tolist())
        if k >= 3 and rng.random() < 0.15:
            shapes[-1] = [list(r) for r in shapes[0]]      # the same source twice
        target = None
        if rng.random() < 0.3:
            Ht = member_matrix(rng, "similarity", {"rotation": True, "mirror": False}, d)
            target = (to_float(apply_exact(Ht, base)) + np.array([[rng.randint(-1, 1) / 4.0 for _ in range(d)] for _ in range(n)])).tolist()
            if rng.random() < 0.3:
                shapes = shapes[:1]                        # a single source is legal when a target is given
        rep = gpa_replica(shapes, target, mirror)
        if not rep["ok"] or rep["n_iter"] > 40:
            continue
        case = dict(cls="gpa", opts={"mirror": mirror, "target": target is not None}, S=shapes, T=target, kind=kind)
        if intlike:
            case["dtype"] = "int"
        return case
    raise common.Infra("C07 generator could not produce a well-conditioned GPA case")


# ============================================================================ the implementation + the oracle

def norm_scale(*arrs):
    return max([1.0] + [float(np.max(np.abs(a))) for a in arrs if a is not None and np.size(a)])


def code_of(case):
    """runnable python reproducing the case on the real code"""
    cls, o = case["cls"], case["opts"]
    ctor = {"translation": "AlignmentTranslation(S, T)", "scale": "AlignmentUniformScale(S, T)",
            "affine": "AlignmentAffine(S, T)",
            "rotation": "AlignmentRotation(S, T, allow_mirror=%r)" % o.get("mirror", False),
            "rotx": "AlignmentRotation(S, T, allow_mirror=%r)" % o.get("mirror", False),
            "similarity": "AlignmentSimilarity(S, T, rotation=%r, allow_mirror=%r)" % (o.get("rotation", True), o.get("mirror", False)),
            "tps": "ThinPlateSplines(S, T)", "pwa": "PiecewiseAffine(S, T)"}.get(cls)
    if cls == "gpa":
        conv = ".astype(np.int64)" if case.get("dtype") == "int" else ""
        return ("import numpy as np\nfrom menpo.shape import PointCloud\nfrom menpo.transform import GeneralizedProcrustesAnalysis\n"
                "shapes=[PointCloud(np.array(s)%s) for s in %r]\ntarget=%s\n"
                "g=GeneralizedProcrustesAnalysis(shapes, target=target, allow_mirror=%r)\n"
                "print(g.converged, g.n_iterations, [t.alignment_error() for t in g.transforms])"
                % (conv, case["S"], "None" if case.get("T") is None else "PointCloud(np.array(%r))" % (case["T"],),
                   bool(case["opts"].get("mirror", False))))
    own = cls == "pwa" and o.get("mesh") != "delaunay"
    if cls == "pwa":
        ctor = "%s(S, T)" % o.get("impl", "PiecewiseAffine")
    dt = case.get("dtype")
    first = ""
    if case.get("life") == "retyped":
        f = case["first"]
        first = shape_code("T0", f["T"], o.get("target_class", "PointCloud"), None, f["dtype"])
        ctor = ctor.replace("(S, T", "(S, T0") + "\na.set_target(T)"
    return ("import numpy as np\nfrom collections import OrderedDict\nfrom menpo.image import Image\nfrom menpo.shape import *\n"
            "from menpo.transform import *\nfrom menpo.transform.piecewiseaffine.base import PythonPWA\n"
            "%s%s%sa=%s\n"
            "print('alignment_error', a.alignment_error(), 'true residual', np.linalg.norm(a.apply(S.points)-T.points))\n"
            "print('target is the requested one', np.array_equal(a.target.points, T.points))"
            % (shape_code("S", case["S"], o.get("source_class", "PointCloud"), case.get("trilist") if own else None, case.get("dtype_s", dt)),
               shape_code("T", case["T"], o.get("target_class", "PointCloud"), None, case.get("dtype_t", dt)), first, ctor))


def shape_code(name, points, shape_cls, trilist, dtype):
    """python source building the shape `make_shape` builds"""
    n = len(points)
    conv = {"int": ".astype(np.int64)", "f32": ".astype(np.float32)"}.get(dtype, "")
    P = np.array(points, dtype=float)
    if dtype == "int" and not np.all(P == np.round(P)):
        conv = ""
    out = "P_%s=np.array(%r)%s\n" % (name, [list(map(float, r)) for r in points], conv)
    cyc = [[i, (i + 1) % n] for i in range(n)]
    tl = trilist if trilist is not None else fan_trilist(n)
    if shape_cls == "PointCloud":
        out += "%s=PointCloud(P_%s)\n" % (name, name)
    elif shape_cls == "PointUndirectedGraph":
        out += "%s=PointUndirectedGraph.init_from_edges(P_%s, np.array(%r))\n" % (name, name, cyc)
    elif shape_cls == "LabelledPointUndirectedGraph":
        out += ("%s=LabelledPointUndirectedGraph.init_with_all_label(P_%s, PointUndirectedGraph.init_from_edges(P_%s, "
                "np.array(%r)).adjacency_matrix)\n" % (name, name, name, cyc))
    elif shape_cls == "PointDirectedGraph":
        out += "%s=PointDirectedGraph.init_from_edges(P_%s, np.array(%r))\n" % (name, name, cyc)
    elif shape_cls == "PointTree":
        out += "%s=PointTree.init_from_edges(P_%s, np.array(%r), root_vertex=0)\n" % (name, name, [[i, i + 1] for i in range(n - 1)])
    elif shape_cls == "TriMesh":
        out += "%s=TriMesh(P_%s, trilist=np.array(%r))\n" % (name, name, tl)
    elif shape_cls == "ColouredTriMesh":
        out += "%s=ColouredTriMesh(P_%s, trilist=np.array(%r))\n" % (name, name, tl)
    elif shape_cls == "TexturedTriMesh":
        out += ("%s=TexturedTriMesh(P_%s, (P_%s[:, :2]-P_%s[:, :2].min(axis=0))/np.maximum(np.ptp(P_%s[:, :2], axis=0), 1e-9), "
                "Image.init_blank((4, 4), n_channels=1), trilist=np.array(%r))\n" % (name, name, name, name, name, tl))
    return out


def rp(case, **kw):
    r = {k: v for k, v in case.items() if k not in ("probes",)}
    r["python"] = code_of(case)
    r.update(kw)
    return r


LIFE = {"last": None}      # which life the last `build` really gave the object (counted after the build succeeded)


def build(case):
    """the alignment under test.  case["life"] == "retargeted": the object was not born from the constructor call
    Cls(S, T) but had a previous life - it is the pseudoinverse() of the reverse alignment (or, where that does not
    exist, an alignment to another target) and was then brought to T with set_target; property C08 makes it the same
    alignment, so every C07 clause must hold for it as for a fresh one."""
    LIFE["last"] = None
    a, S, T = _build_fresh(case)
    if case.get("life") == "retyped":
        # previous life on a first target held in ANOTHER STORAGE DTYPE (whole-pixel int64 / float32 / float64
        # coordinates), then brought to the case's target with set_target: no buffer allocated for the first
        # target may decide how the second one is stored
        f = case["first"]
        b = _build_fresh(dict(case, T=f["T"], dtype_t=f["dtype"], life=None))[0]
        b.set_target(T)
        LIFE["last"] = "retyped"
        return b, (b.source if case["cls"] == "pwa" else S), T
    if case.get("life") != "retargeted":
        return a, S, T
    from menpo.shape import PointCloud
    if case["cls"] == "pwa":
        # previous life: aligned to another target (its pseudoinverse would have another source mesh)
        other = np.array(case["T"], dtype=float)[::-1] * 0.5 + np.array(case["S"], dtype=float) * 0.5 + 1.0
        b = _build_fresh(dict(case, T=other.tolist(), life=None))[0]
        b.set_target(T)
        LIFE["last"] = "retargeted"
        return b, b.source, T
    other = PointCloud(np.array(case["S"], dtype=float)[::-1] * 1.5 + 1.0)
    rev = dict(case, S=other.points.tolist(), T=case["S"], life=None)
    try:
        r = _build_fresh(rev)[0]                          # an alignment other -> S
    except Exception:      # noqa: BLE001 - the REVERSE fit does not exist (singular): keep the constructor-born object
        LIFE["last"] = "fresh (reverse alignment could not be built)"
        return a, S, T
    # from here on every exception is the implementation's: pseudoinverse() / set_target on a legal alignment must work
    b = r.pseudoinverse()                                 # an alignment S -> other
    if not np.array_equal(b.source.points, S.points):
        LIFE["last"] = "fresh (pseudoinverse holds another source array)"
        return a, S, T
    b.set_target(T)
    LIFE["last"] = "retargeted"
    return b, S, T


def _build_fresh(case):
    import menpo.transform as mt
    cls, o = case["cls"], case["opts"]
    own = cls == "pwa" and o.get("mesh") != "delaunay"
    dt = case.get("dtype")
    S = make_shape(case["S"], o.get("source_class", "PointCloud"), case.get("trilist") if own else None, case.get("dtype_s", dt))
    T = make_shape(case["T"], o.get("target_class", "PointCloud"), None, case.get("dtype_t", dt))
    if cls == "translation":
        return mt.AlignmentTranslation(S, T), S, T
    if cls == "scale":
        return mt.AlignmentUniformScale(S, T), S, T
    if cls == "affine":
        return mt.AlignmentAffine(S, T), S, T
    if cls in ("rotation", "rotx"):
        return mt.AlignmentRotation(S, T, allow_mirror=o["mirror"]), S, T
    if cls == "similarity":
        return mt.AlignmentSimilarity(S, T, rotation=o["rotation"], allow_mirror=o["mirror"]), S, T
    if cls == "tps":
        return mt.ThinPlateSplines(S, T), S, T
    if cls == "pwa":
        if o.get("impl") == "PythonPWA":
            from menpo.transform.piecewiseaffine.base import PythonPWA
            return PythonPWA(S, T), S, T
        return mt.PiecewiseAffine(S, T), S, T
    raise ValueError(cls)


CLASSNAME = {"translation": "AlignmentTranslation", "scale": "AlignmentUniformScale", "affine": "AlignmentAffine",
             "rotation": "AlignmentRotation", "rotx": "AlignmentRotation", "similarity": "AlignmentSimilarity",
             "tps": "ThinPlateSplines", "pwa": "PiecewiseAffine"}


def oracle_common(ctx, case, a, S, T, obs):
    """clauses that hold for every alignment: aligned source = transform(source); error = distance to the target"""
    cn = CLASSNAME[case["cls"]]
    Sp, Tp = np.array(case["S"], dtype=float), np.array(case["T"], dtype=float)
    sc = norm_scale(Sp, Tp)
    TOL = case_tol(case)
    applied = a.apply(Sp)
    al = a.aligned_source().points
    ctx.check(np.allclose(al, applied, rtol=0, atol=TOL * (1 + sc)), "C07/%s.aligned_source" % cn, "differs-from-apply",
              "aligned_source() differs from apply(source) by %g" % float(np.max(np.abs(al - applied))), rp(case))
    true_err = float(np.linalg.norm(Tp - applied))
    rep_err = float(a.alignment_error())
    tgt = a.target.points
    obs["applied"], obs["true_err"], obs["rep_err"], obs["target"] = applied, true_err, rep_err, tgt
    if not common.close(rep_err, true_err, sc * math.sqrt(Sp.size), TOL):
        overwritten = (not np.allclose(tgt, Tp, rtol=0, atol=1e-12 * (1 + sc))) and \
            np.allclose(tgt, applied, rtol=0, atol=TOL * (1 + sc))
        pattern = "reports-zero-target-replaced-by-aligned-source" if (overwritten and abs(rep_err) <= TOL * (1 + sc)) \
            else "wrong-value"
        ctx.fail("C07/%s.alignment_error" % cn, pattern,
                 "%s(source, target).alignment_error() = %.12g but ||target - apply(source)|| = %.12g%s"
                 % (cn, rep_err, true_err, "; .target no longer equals the requested target, it equals the aligned source"
                    if overwritten else ""),
                 rp(case, reported=rep_err, required=true_err, target_equals_requested=bool(np.array_equal(tgt, Tp))))
    return applied, true_err, sc


def sq_err(X, T):
    return float(np.sum((np.asarray(X) - np.asarray(T)) ** 2))


def oracle_homog(ctx, case, a, obs):
    cls, o = case["cls"], case["opts"]
    TOL = case_tol(case)      # 1e-9, or 1e-4 for float32 point arrays (DESIGN section 3)
    cn = CLASSNAME[cls]
    Sp, Tp = np.array(case["S"], dtype=float), np.array(case["T"], dtype=float)
    n, d = Sp.shape
    H = np.array(a.h_matrix, dtype=float)
    obs["H"] = H
    applied, true_err, sc = obs["applied"], obs["true_err"], norm_scale(Sp, Tp)
    e2 = true_err ** 2
    tol2 = TOL * (1 + sc * sc * n * d)
    site = "C07/%s" % cn
    L, t = H[:d, :d], H[:d, d]
    ctx.check(np.allclose(H[d], np.r_[np.zeros(d), 1.0], rtol=0, atol=TOL), site + ".h_matrix", "last-row",
              "homogeneous row is %r" % H[d].tolist(), rp(case))
    # ---- exact recovery of the generating member
    if case.get("member") is not None:
        Hm = np.array([[float(F(x)) for x in r] for r in case["member"]])
        # landmarks 2^20 away from the origin: a relative error eps of the linear part moves the translation column
        # by eps * 2^20, so the coordinate scale enters the tolerance of those cases
        hsc = norm_scale(Hm) + (sc if "far" in case.get("shape", []) else 0.0)
        ctx.check(np.allclose(H, Hm, rtol=0, atol=TOL * (1 + hsc)), site + ".recovery", "member-not-recovered",
                  "target = member(source) but the fitted matrix differs from the member by %g" % float(np.max(np.abs(H - Hm))),
                  rp(case, fitted=H.tolist()))
        ctx.check(e2 <= tol2, site + ".recovery", "residual-not-zero",
                  "target = member(source) but the squared residual is %g" % e2, rp(case))
    # ---- family membership of the result + optimality / identities
    if cls == "translation":
        ctx.check(np.allclose(L, np.eye(d), rtol=0, atol=TOL), site + ".family", "not-a-translation", "linear part is not I", rp(case))
        Sf, Tf = fr(Sp), fr(Tp)
        topt = [sum(Tf[i][j] - Sf[i][j] for i in range(n)) / n for j in range(d)]
        eopt = sum((Sf[i][j] + topt[j] - Tf[i][j]) ** 2 for i in range(n) for j in range(d))
        ctx.check(e2 <= float(eopt) + tol2, site + ".optimal", "not-least-squares",
                  "squared error %.12g exceeds the exact optimum %.12g of the translation family" % (e2, float(eopt)),
                  rp(case, exact_optimum=str(eopt)))
        obs["opt2"] = float(eopt)
    elif cls == "affine":
        ex = exact_affine_opt(Sp, Tp)
        if ex is not None:
            ctx.check(e2 <= float(ex[1]) + tol2, site + ".optimal", "not-least-squares",
                      "squared error %.12g exceeds the exact optimum %.12g of the affine family" % (e2, float(ex[1])),
                      rp(case, exact_optimum=str(ex[1])))
            obs["opt2"] = float(ex[1])
    elif cls == "scale":
        s = H[0, 0]
        ctx.check(np.allclose(H, np.diag([s] * d + [1.0]), rtol=0, atol=TOL), site + ".family", "not-a-uniform-scale",
                  "matrix is not s*I", rp(case))
        na, nt = np.linalg.norm(applied - applied.mean(axis=0)), np.linalg.norm(Tp - Tp.mean(axis=0))
        ctx.check(common.close(na, nt, sc * math.sqrt(n * d), TOL), site + ".size", "size-not-reproduced",
                  "norm of aligned source %.12g, norm of target %.12g" % (na, nt), rp(case))
    elif cls in ("rotation", "rotx"):
        ctx.check(np.allclose(t, 0, rtol=0, atol=TOL), site + ".family", "has-translation", "rotation with translation", rp(case))
        ctx.check(np.allclose(L.dot(L.T), np.eye(d), rtol=0, atol=TOL), site + ".family", "not-orthogonal",
                  "R R^T differs from I by %g" % float(np.max(np.abs(L.dot(L.T) - np.eye(d)))), rp(case))
        dt = float(np.linalg.det(L))
        if not o["mirror"]:
            ctx.check(dt > 0, site + ".no_reflection", "reflection-returned",
                      "allow_mirror=False but det(R) = %.6g" % dt, rp(case, det=dt))
        M = Tp.T.dot(Sp)
        best = best_rotation_value(M, o["mirror"])
        eopt = float(np.sum(Sp ** 2) + np.sum(Tp ** 2) - 2 * best)
        ctx.check(e2 <= eopt + tol2 * 10, site + ".optimal", "not-least-squares",
                  "squared error %.12g exceeds the optimum %.12g over %s" % (e2, eopt, "orthogonal maps" if o["mirror"] else "proper rotations"),
                  rp(case, optimum=eopt))
        obs["opt2"] = eopt
    elif cls == "similarity":
        ca, ct = applied.mean(axis=0), Tp.mean(axis=0)
        ctx.check(np.allclose(ca, ct, rtol=0, atol=TOL * (1 + sc)), site + ".centroid", "centroid-not-reproduced",
                  "centroid of aligned source %r, of target %r" % (ca.tolist(), ct.tolist()), rp(case))
        na, nt = np.linalg.norm(applied - ca), np.linalg.norm(Tp - ct)
        ctx.check(common.close(na, nt, sc * math.sqrt(n * d), TOL), site + ".size", "size-not-reproduced",
                  "norm of aligned source %.12g, norm of target %.12g" % (na, nt), rp(case))
        ns = np.linalg.norm(Sp - Sp.mean(axis=0))
        s = nt / ns
        R = L / s
        s_lin = math.sqrt(max(float(np.sum(L * L)) / d, 1e-300))   # L = s R  =>  ||L||_F^2 = d s^2
        Rl = L / s_lin
        ctx.check(np.allclose(Rl.dot(Rl.T), np.eye(d), rtol=0, atol=TOL), site + ".family", "not-a-similarity",
                  "linear part is not a multiple of an orthogonal matrix (off by %g)" % float(np.max(np.abs(Rl.dot(Rl.T) - np.eye(d)))), rp(case))
        if o["rotation"]:
            if not o["mirror"]:
                ctx.check(np.linalg.det(R) > 0, site + ".no_reflection", "reflection-returned",
                          "allow_mirror=False but det = %.6g" % float(np.linalg.det(R)), rp(case))
            Xs, Xt = s * (Sp - Sp.mean(axis=0)), Tp - ct
            best = best_rotation_value(Xt.T.dot(Xs), o["mirror"])
            eopt = float(np.sum(Xs ** 2) + np.sum(Xt ** 2) - 2 * best)
            ctx.check(e2 <= eopt + tol2 * 10, site + ".ls_rotation", "rotation-not-least-squares",
                      "squared error %.12g exceeds %.12g, what the least-squares rotation of the centred, rescaled "
                      "source achieves" % (e2, eopt), rp(case, optimum=eopt))
            obs["opt2"] = eopt
        else:
            ctx.check(np.allclose(L, L[0, 0] * np.eye(d), rtol=0, atol=TOL * (1 + abs(L[0, 0]))), site + ".family",
                      "rotated-although-rotation-false", "rotation=False but the linear part is not a multiple of I", rp(case))
    # ---- a few explicit competitors of the same family (perturbations of the fitted map)
    if cls in ("translation", "affine", "rotation", "rotx") or (cls == "similarity" and o["rotation"]):
        for eps in (1e-3, 0.05, 0.7):
            Hc = H.copy()
            if cls == "translation":
                Hc[:d, d] += eps * np.array([1.0, -0.5, 0.25][:d])
            elif cls == "affine":
                Hc[:d, :] += eps * np.array([[0.3, -1.0, 0.5, 0.2], [1.0, 0.4, -0.6, -0.3], [0.2, 0.7, 0.1, 1.0]])[:d, :d + 1]
            else:
                G = np.eye(d)
                c_, s_ = math.cos(eps), math.sin(eps)
                G[0, 0], G[0, 1], G[1, 0], G[1, 1] = c_, -s_, s_, c_
                if cls == "similarity":
                    cS = Sp.mean(axis=0)
                    Lc = G.dot(L)
                    Hc[:d, :d] = Lc
                    Hc[:d, d] = Tp.mean(axis=0) - Lc.dot(cS)
                else:
                    Hc[:d, :d] = G.dot(L)
            ec = sq_err(Sp.dot(Hc[:d, :d].T) + Hc[:d, d], Tp)
            ctx.check(e2 <= ec + tol2, site + ".optimal", "beaten-by-competitor",
                      "a competitor of the same family has squared error %.12g < %.12g" % (ec, e2),
                      rp(case, competitor=Hc.tolist()))


def oracle_tps(ctx, case, a, obs):
    Sp, Tp = np.array(case["S"], dtype=float), np.array(case["T"], dtype=float)
    sc = norm_scale(Sp, Tp)
    out = obs["applied"]
    if case.get("truncated"):
        # near-coincident landmarks: the code drops a direction on purpose; recorded, not judged
        ctx.count("tps:truncated-system:max-landmark-miss=%s" % ("0" if np.allclose(out, Tp, rtol=0, atol=1e-8 * (1 + sc)) else ">0"))
    else:
        ctx.check(np.allclose(out, Tp, rtol=0, atol=1e-8 * (1 + sc)), "C07/ThinPlateSplines.interpolation", "landmark-missed",
                  "a source landmark is sent %g away from its target landmark" % float(np.max(np.abs(out - Tp))), rp(case))
    if case["kind"] == "affine-image":
        # an affine image has no bending part: probes map affinely
        P = np.array(case["probes"], dtype=float)
        ex = exact_affine_opt(Sp, Tp)
        if ex is not None:
            Hm = np.array([[float(x) for x in r] for r in ex[0]])
            want = P.dot(Hm[:2, :2].T) + Hm[:2, 2]
            got = a.apply(P)
            ctx.check(np.allclose(got, want, rtol=0, atol=1e-7 * (1 + norm_scale(want))), "C07/ThinPlateSplines.recovery",
                      "affine-member-not-recovered", "target = affine(source) but the spline is not that affine map "
                      "(off by %g)" % float(np.max(np.abs(got - want))), rp(case))


def oracle_pwa(ctx, case, a, obs):
    Sp, Tp = np.array(case["S"], dtype=float), np.array(case["T"], dtype=float)
    sc = norm_scale(Sp, Tp)
    site = "C07/PiecewiseAffine"
    out = obs["applied"]
    ctx.check(np.allclose(out, Tp, rtol=0, atol=TOL * (1 + sc)), site + ".interpolation", "landmark-missed",
              "a source landmark is sent %g away from its target landmark" % float(np.max(np.abs(out - Tp))), rp(case))
    if case["opts"].get("mesh") != "delaunay":
        # the source is a mesh: the piecewise-affine map is affine inside each of *its* triangles, so the
        # alignment has to work on the mesh's own triangulation
        got = sorted(tuple(sorted(int(v) for v in t)) for t in np.asarray(a.trilist).tolist())
        want = sorted(tuple(sorted(int(v) for v in t)) for t in case["trilist"])
        ctx.check(got == want, site + ".source_mesh", "source-triangulation-replaced",
                  "the source %s carries the triangulation %r but the alignment works on %r"
                  % (case["opts"].get("source_class", "TriMesh"), want, got), rp(case, alignment_trilist=got))
    from menpo.transform.piecewiseaffine import TriangleContainmentError
    res, abs_ = [], []
    for pr in case["probes"]:
        p = np.array([pr["p"]], dtype=float)
        ab = None
        try:
            q = a.apply(p)[0]
            iab = a.index_alpha_beta(p)
            ti = int(iab[0][0])
            ab = (float(iab[1][0]), float(iab[2][0]))
        except TriangleContainmentError:
            q, ti = None, None
        res.append((q, ti))
        abs_.append(ab)
        if pr["kind"] == "interior" and ab is not None and ti is not None:
            # index_alpha_beta is public: the coordinates it reports reconstruct the point in the triangle it names
            tri_ = np.asarray(a.trilist)[ti]
            rec = Sp[tri_[0]] + ab[0] * (Sp[tri_[1]] - Sp[tri_[0]]) + ab[1] * (Sp[tri_[2]] - Sp[tri_[0]])
            # the return convention of the public helper is not in the property text (the property observes apply /
            # aligned_source / alignment_error / h_matrix): a disagreement is a broken tie, not an oracle failure
            okb = bool(np.allclose(rec, p[0], rtol=0, atol=TOL * (1 + sc)) and ab[0] >= -1e-12 and ab[1] >= -1e-12 and ab[0] + ab[1] <= 1 + 1e-12)
            ctx.count("pwa:index_alpha_beta-is-barycentric=%s" % okb)
            if not okb:
                ctx.mismatch("pwa", "index_alpha_beta names triangle %r with (alpha, beta) = %r, which is not the point %r"
                             % (tri_.tolist(), ab, pr["p"]), rp(case, probe=pr))
        if pr["kind"] == "interior":
            want = sum(w * Tp[v] for w, v in zip(pr["w"], pr["tri"]))
            ctx.check(q is not None and np.allclose(q, want, rtol=0, atol=TOL * (1 + sc)), site + ".affine_in_triangle",
                      "not-the-triangle-affine-map",
                      "a point inside source triangle %r (weights %r) is sent to %r, the triangle's affine map gives %r"
                      % (pr["tri"], pr["w"], None if q is None else q.tolist(), want.tolist()), rp(case, probe=pr))
        elif pr["kind"] == "edge":
            want = (1 - pr["c"]) * Tp[pr["u"]] + pr["c"] * Tp[pr["v"]]
            if q is None:
                ctx.count("pwa:edge-point-float-containment-miss")
            else:
                ctx.check(np.allclose(q, want, rtol=0, atol=TOL * (1 + sc)), site + ".edge_continuity", "edge-value",
                          "a point on edge (%d,%d) is sent to %r; both adjacent triangles' affine maps give %r"
                          % (pr["u"], pr["v"], q.tolist(), want.tolist()), rp(case, probe=pr))
            # two-sided: points just inside each owner triangle stay within L*eps of the edge value
            S_u, S_v = Sp[pr["u"]], Sp[pr["v"]]
            for owner in pr["owners"]:
                tri = case["trilist"][owner]
                w = [x for x in tri if x not in (pr["u"], pr["v"])][0]
                eps = 1.0 / 1024
                pin = (1 - eps) * ((1 - pr["c"]) * S_u + pr["c"] * S_v) + eps * Sp[w]
                win = (1 - eps) * want + eps * Tp[w]
                try:
                    qin = a.apply(np.array([pin]))[0]
                except TriangleContainmentError:
                    qin = None
                ctx.check(qin is not None and np.allclose(qin, win, rtol=0, atol=1e-8 * (1 + sc)), site + ".edge_continuity",
                          "jump-across-edge", "approaching edge (%d,%d) from triangle %r the map does not tend to the "
                          "edge value" % (pr["u"], pr["v"], tri), rp(case, probe=pr))
        elif pr["kind"] == "outside":
            # what happens OUTSIDE every source triangle is not in the property text (an extrapolating implementation
            # would be correct): recorded; the model comparison reports a differing containment as a broken tie
            ctx.count("pwa:outside-point:%s" % ("refused" if q is None else "mapped"))
    obs["probe_out"] = res
    obs["probe_ab"] = abs_


def build_gpa(case):
    from menpo.transform import GeneralizedProcrustesAnalysis
    o = case["opts"]
    classes = case.get("src_classes") or ["PointCloud"] * len(case["S"])
    shapes = [make_shape(sp, c, dtype=case.get("dtype")) for sp, c in zip(case["S"], classes)]
    target = None if case.get("T") is None else make_shape(case["T"], case.get("tgt_class", "PointCloud"), dtype=case.get("dtype"))
    g = GeneralizedProcrustesAnalysis(shapes, target=target, allow_mirror=bool(o.get("mirror", False)))
    return g, shapes, target


def oracle_gpa(ctx, case):
    """every transform GPA returns is a similarity alignment of its source to the transform's own target: the
    clauses of the property for similarity alignments are judged on each of them"""
    g, shapes, target = build_gpa(case)
    mirror = bool(case["opts"].get("mirror", False))
    site = "C07/GeneralizedProcrustesAnalysis"
    sc = norm_scale(*[np.asarray(s.points, dtype=float) for s in shapes])
    for k, t in enumerate(g.transforms):
        Sp = np.asarray(shapes[k].points, dtype=float)
        n, d = Sp.shape
        applied = t.apply(Sp)
        al = t.aligned_source().points
        ctx.check(np.allclose(al, applied, rtol=0, atol=TOL * (1 + sc)), site + ".aligned_source", "differs-from-apply",
                  "transform %d: aligned_source() differs from apply(source)" % k, rp(case))
        tt = np.asarray(t.target.points, dtype=float)
        ctx.check(common.close(t.alignment_error(), np.linalg.norm(tt - applied), sc * 4, TOL), site + ".alignment_error",
                  "wrong-value", "transform %d: alignment_error() is not the distance to its target" % k, rp(case))
        ctx.check(np.allclose(applied.mean(axis=0), tt.mean(axis=0), rtol=0, atol=TOL * (1 + sc)), site + ".centroid",
                  "centroid-not-reproduced", "transform %d does not reproduce its target's centroid" % k, rp(case))
        ctx.check(common.close(np.linalg.norm(applied - applied.mean(axis=0)), np.linalg.norm(tt - tt.mean(axis=0)), sc * 4, TOL),
                  site + ".size", "size-not-reproduced", "transform %d does not reproduce its target's size" % k, rp(case))
        # least-squares rotation, never a reflection unless allowed
        H = np.array(t.h_matrix, dtype=float)
        L = H[:d, :d]
        ns, nt = np.linalg.norm(Sp - Sp.mean(axis=0)), np.linalg.norm(tt - tt.mean(axis=0))
        if ns > 1e-9 and nt > 1e-9:
            sfac = nt / ns
            R = L / sfac
            ctx.check(np.allclose(R.dot(R.T), np.eye(d), rtol=0, atol=1e-8), site + ".family", "not-a-similarity",
                      "transform %d: linear part is not a multiple of an orthogonal matrix" % k, rp(case))
            if not mirror:
                ctx.check(np.linalg.det(R) > 0, site + ".no_reflection", "reflection-returned",
                          "transform %d: allow_mirror=False but det = %.6g" % (k, float(np.linalg.det(R))), rp(case))
            Xs, Xt = sfac * (Sp - Sp.mean(axis=0)), tt - tt.mean(axis=0)
            best = best_rotation_value(Xt.T.dot(Xs), mirror)
            eopt = float(np.sum(Xs ** 2) + np.sum(Xt ** 2) - 2 * best)
            e2 = float(np.sum((tt - applied) ** 2))
            ctx.check(e2 <= eopt + 10 * TOL * (1 + sc * sc * n * d), site + ".ls_rotation", "rotation-not-least-squares",
                      "transform %d: squared error %.12g exceeds %.12g, what the least-squares rotation of the centred, "
                      "rescaled source achieves" % (k, e2, eopt), rp(case, optimum=eopt))
    if target is None:
        # without a given target "the target" of the group alignment is gpa.target: every member is aligned to it
        gt = np.asarray(g.target.points, dtype=float)
        for k, t in enumerate(g.transforms):
            ctx.check(np.allclose(np.asarray(t.target.points, dtype=float), gt, rtol=0, atol=TOL * (1 + sc)),
                      site + ".common_target", "member-aligned-to-another-target",
                      "transform %d is aligned to a point set that is not the group's target (off by %g)"
                      % (k, float(np.max(np.abs(np.asarray(t.target.points, dtype=float) - gt)))), rp(case))
    if case["kind"] == "members" and target is None:
        e = g.mean_alignment_error()
        ctx.check(e <= 1e-5 * (1 + sc), site + ".recovery", "members-not-aligned",
                  "all sources are similarity images of one shape but the mean alignment error is %g" % e, rp(case))
    return g, shapes


def gpa_model_line(cid, case, rep):
    """request line for the Lean model of GPA: the sources, the optional target and, pass by pass, what the
    external routines returned (`gpa_replica`)"""
    def simw(w):
        return "%s %s %s %s" % (common.fq(w["rT"]), common.fq(w["rS"]), mat_tok(w["U"]), mat_tok(w["Vt"]))
    o = case["opts"]
    parts = [cid + ".fit", "gpa", str(int(bool(o.get("mirror")))), str(int(case.get("T") is not None)), str(len(case["S"]))]
    parts += [mat_tok(x) for x in case["S"]]
    if case.get("T") is not None:
        parts.append(mat_tok(case["T"]))
    parts += [simw(w) for w in rep["w0"]]
    parts += [common.fq(rep["init_scale"]), "100", str(len(rep["ws"]))]
    for w in rep["ws"]:
        parts.append(common.fq(w["newNorm"]))
        parts += [simw(x) for x in w["sims"]]
    return " ".join(parts)


def compare_gpa(ctx, cid, pend, model):
    case, g, rep = pend["case"], pend["g"], pend["rep"]
    reply = model.get(cid + ".fit", "")
    nums = parse_nums(reply)
    if nums is None:
        ctx.mismatch("gpa", "model answered %r where the implementation produced alignments" % reply, rp(case))
        return
    k = len(case["S"])
    n, d = np.array(case["S"][0]).shape
    sc = norm_scale(*[np.array(x) for x in case["S"]])
    conv, nit, rest = int(nums[0]), int(nums[1]), nums[2:]
    reported, rest = take(rest, n * d)
    atgt, rest = take(rest, n * d)
    if bool(conv) != bool(g.converged) or nit != int(g.n_iterations):
        ctx.mismatch("gpa", "iteration: implementation converged=%r after n_iterations=%d, model converged=%d nIter=%d "
                     "(replica deltas %r)" % (g.converged, g.n_iterations, conv, nit, rep["deltas"][-3:]), rp(case))
        return
    ctx.count("gpa-iterations:%d" % nit)
    cmp_mat(ctx, "gpa", "reported target", np.asarray(g.target.points, dtype=float), reported, (n, d), case, scale=sc, tol=1e-8)
    hh = (d + 1) * (d + 1)
    for a_ in range(k):
        Hm, rest = take(rest, hh)
        t = g.transforms[a_]
        cmp_mat(ctx, "gpa", "h_matrix of transform %d" % a_, np.array(t.h_matrix, dtype=float), Hm, (d + 1, d + 1), case,
                scale=sc, tol=1e-8)
        cmp_mat(ctx, "gpa", "target of transform %d" % a_, np.asarray(t.target.points, dtype=float), atgt, (n, d), case,
                scale=sc, tol=1e-8)
    for a_ in range(k):
        e2m = float(rest[a_])
        e2 = float(g.transforms[a_].alignment_error()) ** 2
        if abs(e2 - e2m) > 1e-8 * (1 + sc * sc * n * d):
            ctx.mismatch("gpa", "alignment_error()^2 of transform %d: implementation %.12g vs model %.12g" % (a_, e2, e2m), rp(case))
    # the externals' contract, against the model's exact final target (numerically, per DESIGN 2.1)
    At = np.array([float(x) for x in atgt]).reshape(n, d)
    last = rep["w0"] if nit == 1 else rep["ws"][nit - 2]["sims"]
    okc = True
    for a_ in range(k):
        w = last[a_]
        Sp = np.array(case["S"][a_], dtype=float)
        n2S, n2T = float(np.sum((Sp - Sp.mean(axis=0)) ** 2)), float(np.sum((At - At.mean(axis=0)) ** 2))
        okc &= common.close(w["rS"] ** 2, n2S, n2S, 1e-9) and common.close(w["rT"] ** 2, n2T, n2T, 1e-8) and w["rS"] > 0
        okc &= bool(np.allclose(w["U"].T.dot(w["U"]), np.eye(d), atol=1e-9) and np.allclose(w["Vt"].dot(w["Vt"].T), np.eye(d), atol=1e-9))
    ctx.count("gpa-witness-contract:" + ("ok" if okc else "BROKEN"))
    if not okc:
        ctx.mismatch("gpa", "norm / svd contract of the last pass does not hold against the model's exact final target", rp(case))


# ============================================================================ model lines + comparison

def mat_tok(a):
    return common.fmat(np.asarray(a, dtype=float).tolist())


def qmat_tok(rows):
    return "%d %d %s" % (len(rows), len(rows[0]), " ".join(common.fq(F(x)) for r in rows for x in r))


def harness_svd(M):
    U, D, Vt = np.linalg.svd(M)
    return U, D, Vt


def run_case(ctx, case, cid, lines, pending):
    """implementation + oracle for one case; appends model request lines; `pending[cid]` keeps what to compare"""
    cls, o = case["cls"], case["opts"]
    ko = {k_: v for k_, v in o.items() if k_ not in ("source_class", "target_class", "impl", "target")}
    ctx.count("class:" + cls + ("" if not ko else ":" + ",".join("%s=%s" % kv for kv in sorted(ko.items()))))
    for key in ("source_class", "target_class", "impl"):
        if key in o:
            ctx.count("%s:%s" % (key, o[key]))
    if case.get("dtype"):
        ctx.count("dtype:" + case["dtype"])
    for flag in case.get("shape", []):
        ctx.count("shape:" + flag)
    if case.get("life"):
        ctx.count("life-requested:" + case["life"])
    if case.get("first"):
        ctx.count("first-target-dtype:%s" % (case["first"]["dtype"] or "f64"))
    ctx.count("kind:" + case["kind"])
    if cls == "gpa":
        ctx.count("dims:%d" % len(case["S"][0][0]))
        ctx.count("gpa-sources:%d" % len(case["S"]))
        try:
            g, shapes = oracle_gpa(ctx, case)
        except Exception as e:
            import traceback
            ctx.fail("C07/GeneralizedProcrustesAnalysis", "raises", "GPA raised %s: %s" % (type(e).__name__, e),
                     rp(case, trace=traceback.format_exc()[-800:]))
            return
        rep = gpa_replica(case["S"], case.get("T"), bool(o.get("mirror", False)))
        if rep["ok"] and rep["n_iter"] <= 40:
            lines.append(gpa_model_line(cid, case, rep))
            pending[cid] = dict(case=case, g=g, rep=rep, gpa=True)
        else:
            ctx.count("gpa:ill-conditioned-not-modelled")
        return
    if case.get("degenerate"):
        return run_degenerate(ctx, case, cid, lines, pending)
    Sp, Tp = np.array(case["S"], dtype=float), np.array(case["T"], dtype=float)
    ctx.count("dims:%d" % Sp.shape[1])
    ctx.count("npoints:%d" % Sp.shape[0])
    obs = {}
    try:
        a, S, T = build(case)
        if LIFE["last"]:
            ctx.count("life:" + LIFE["last"])       # the life the judged object really had
        oracle_common(ctx, case, a, S, T, obs)
        if cls == "tps":
            oracle_tps(ctx, case, a, obs)
        elif cls == "pwa":
            oracle_pwa(ctx, case, a, obs)
        else:
            oracle_homog(ctx, case, a, obs)
    except Exception as e:
        import traceback
        ctx.fail("C07/%s" % CLASSNAME[cls], "raises",
                 "%s raised %s: %s" % (CLASSNAME[cls], type(e).__name__, e), rp(case, trace=traceback.format_exc()[-800:]))
        return
    # ---------------- model requests
    sS, sT = mat_tok(Sp), mat_tok(Tp)
    pend = dict(case=case, obs=obs, ops={})
    if cls == "translation":
        lines.append("%s.fit translation %s %s" % (cid, sS, sT))
    elif cls == "affine":
        lines.append("%s.fit affine %s %s" % (cid, sS, sT))
    elif cls == "scale":
        rT, rS = float(T.norm()), float(S.norm())
        pend["r"] = (rT, rS)
        lines.append("%s.fit scale %s %s %s %s" % (cid, sS, sT, common.fq(rT), common.fq(rS)))
    elif cls == "rotation":
        U, D, Vt = harness_svd(Tp.T.dot(Sp))
        pend["svd"] = (U, D, Vt)
        # the public function the class is built on, called directly on the same shapes
        from menpo.transform.homogeneous.rotation import optimal_rotation_matrix
        pend["fn_R"] = np.array(optimal_rotation_matrix(S, T, allow_mirror=o["mirror"]), dtype=float)
        lines.append("%s.fit rotation %d %s %s %s %s" % (cid, int(o["mirror"]), sS, sT, mat_tok(U), mat_tok(Vt)))
    elif cls == "rotx":
        lines.append("%s.fit rotx %d %s %s %s %d %s %s" % (
            cid, int(o["mirror"]), sS, qmat_tok(case["Tq"]), qmat_tok(case["U"]), len(case["D"]),
            " ".join(common.fq(F(x)) for x in case["D"]), qmat_tok(case["Vt"])))
    elif cls == "similarity":
        rT, rS = float(T.norm()), float(S.norm())
        pend["r"] = (rT, rS)
        Xs = (rT / rS) * (Sp - Sp.mean(axis=0))
        Xt = Tp - Tp.mean(axis=0)
        U, D, Vt = harness_svd(Xt.T.dot(Xs))
        pend["svd"] = (U, D, Vt)
        from menpo.transform.homogeneous.similarity import procrustes_alignment
        pend["fn_H"] = np.array(procrustes_alignment(S, T, rotation=o["rotation"], allow_mirror=o["mirror"]).h_matrix, dtype=float)
        lines.append("%s.fit similarity %d %d %s %s %s %s %s %s" % (
            cid, int(o["rotation"]), int(o["mirror"]), sS, sT, common.fq(rT), common.fq(rS), mat_tok(U), mat_tok(Vt)))
    elif cls == "tps":
        K = a.kernel.apply(Sp)
        P = np.array(case["probes"], dtype=float)
        KP = a.kernel.apply(P)
        pend["tps_probe_out"] = a.apply(P)
        pend["coef"] = np.array(a.coefficients)
        pr = " ".join("%s %s %s" % (common.fq(P[i, 0]), common.fq(P[i, 1]), common.fqs(KP[i])) for i in range(len(P)))
        if not case.get("truncated"):
            lines.append("%s.fit tps %s %s %s %d %s" % (cid, mat_tok(K), sS, sT, len(P), pr))
        # the branch as coded: what np.linalg.svd answers for the system matrix the object holds
        Lm = np.array(a.l, dtype=float)
        U_, s_, Vt_ = np.linalg.svd(Lm)
        pend["tps_svd"] = (Lm, U_, s_, Vt_)
        lines.append("%s.svd tpssvd %s %s %s %s %d %s %s %s %d %s" % (
            cid, mat_tok(K), sS, sT, mat_tok(U_), len(s_), common.fqs(s_), mat_tok(Vt_),
            common.fq(float(a.min_singular_val)), len(P), pr))
        if case["kind"] == "affine-image":
            lines.append("%s.aff tpsaff %s %s %s" % (cid, mat_tok(K), sS, sT))
            pend["bending"] = np.array(a.coefficients)[:Sp.shape[0]]
    elif cls == "pwa":
        # a mesh source is modelled with the triangulation it carries; a point-cloud / graph source with the
        # triangulation the alignment chose (Delaunay contract)
        tl = np.array(a.trilist).tolist() if case["opts"].get("mesh") == "delaunay" else [list(t) for t in case["trilist"]]
        pend["trilist"] = tl
        pts = [pr["p"] for pr in case["probes"]] + Sp.tolist()
        lines.append("%s.fit pwa %s %s %d %s %d %s" % (
            cid, sS, sT, len(tl), " ".join("%d %d %d" % tuple(t) for t in tl), len(pts),
            " ".join("%s %s" % (common.fq(p[0]), common.fq(p[1])) for p in pts)))
    if cls in ("translation", "scale", "affine", "rotation", "rotx", "similarity"):
        Hs = mat_tok(obs["H"])
        lines.append("%s.c0 construct 0 %s %s %s" % (cid, sS, sT, Hs))
        lines.append("%s.c1 construct 1 %s %s %s" % (cid, sS, sT, Hs))
    pending[cid] = pend


def parse_nums(reply):
    tk = reply.split()
    if not tk or tk[0] != "ok":
        return None
    return [F(x) for x in tk[1:]]


def take(nums, k):
    return nums[:k], nums[k:]


def cmp_mat(ctx, op, what, got, want_fr, shape, case, scale=None, tol=TOL):
    want = np.array([float(x) for x in want_fr], dtype=float).reshape(shape)
    got = np.asarray(got, dtype=float).reshape(shape)
    sc = scale if scale is not None else norm_scale(want, got)
    if not np.allclose(got, want, rtol=0, atol=tol * (1 + sc)):
        ctx.mismatch(op, "%s: implementation %s vs model %s (max diff %g)" % (
            what, np.round(got, 9).tolist(), np.round(want, 9).tolist(), float(np.max(np.abs(got - want)))), rp(case))
        return False
    return True


def compare_tps_svd(ctx, cid, pend, model):
    """the truncated-SVD branch of _build_coefficients as coded (model: tpsFitSvd on the implementation's own svd
    answers): contract of the svd checked numerically, coefficients and probe values compared"""
    case = pend["case"]
    n = len(case["S"])
    Lm, U_, s_, Vt_ = pend["tps_svd"]
    m = n + 3
    okc = bool(np.allclose(U_.dot(np.diag(s_)).dot(Vt_), Lm, rtol=0, atol=1e-9 * (1 + norm_scale(Lm))) and
               np.allclose(U_.T.dot(U_), np.eye(m), atol=1e-9) and np.allclose(Vt_.dot(Vt_.T), np.eye(m), atol=1e-9) and
               np.all(s_ >= 0) and np.all(np.diff(s_) <= 0))
    ctx.count("tps-svd-contract:" + ("ok" if okc else "BROKEN"))
    nums = parse_nums(model.get(cid + ".svd", ""))
    if nums is None or not okc:
        ctx.mismatch("tps", "as-coded model: reply %r, svd contract %s" % (model.get(cid + ".svd", "")[:80], okc), rp(case))
        return
    keep, kept_ok, sym, rest = int(nums[0]), int(nums[1]), int(nums[2]), nums[3:]
    want_keep = m - int(np.sum(s_ < 1e-4))
    ctx.count("tps-svd:%s" % ("all-kept" if keep == m else "dropped-%d" % (m - keep)))
    if keep != want_keep or kept_ok != 1 or sym != 1:
        ctx.mismatch("tps", "as-coded model: keep=%d (expected %d), kept singular values above the threshold=%d, "
                     "symmetric system=%d" % (keep, want_keep, kept_ok, sym), rp(case))
        return
    coef, rest = take(rest, m * 2)
    csc = norm_scale(pend["coef"])
    trunc = bool(case.get("truncated"))
    got_c = np.asarray(pend["coef"], dtype=float).reshape(m, 2)
    want_c = np.array([float(x) for x in coef]).reshape(m, 2)
    P = pend["tps_probe_out"]
    want_p = np.array([float(x) for x in rest]).reshape(P.shape)
    agree = bool(np.allclose(got_c, want_c, rtol=0, atol=1e-8 * (1 + csc * 100)) and
                 np.allclose(P, want_p, rtol=0, atol=1e-8 * (1 + norm_scale(P) * 100)))
    if trunc:
        ctx.count("tps:truncated-system:code-vs-model=%s" % ("agree" if agree else "DIFFER"))
    elif not agree:
        ctx.mismatch("tps", "as-coded model (truncated-SVD branch, nothing dropped): coefficients / probe values differ "
                     "(max %g / %g)" % (float(np.max(np.abs(got_c - want_c))), float(np.max(np.abs(P - want_p)))), rp(case))


def compare(ctx, cid, pend, model):
    if pend.get("gpa"):
        return compare_gpa(ctx, cid, pend, model)
    if pend.get("degenerate"):
        return compare_degenerate(ctx, cid, pend, model)
    case, obs = pend["case"], pend["obs"]
    cls, o = case["cls"], case["opts"]
    Sp, Tp = np.array(case["S"], dtype=float), np.array(case["T"], dtype=float)
    n, d = Sp.shape
    sc = norm_scale(Sp, Tp)
    TOL = case_tol(case)
    op = cls
    if cls == "tps":
        compare_tps_svd(ctx, cid, pend, model)
        if case.get("truncated"):
            return
    rep = model.get(cid + ".fit", "")
    nums = parse_nums(rep)
    hh = (d + 1) * (d + 1)
    if nums is None:
        ctx.mismatch(op, "model answered %r where the implementation produced an alignment" % rep, rp(case))
        return
    e2 = obs["true_err"] ** 2
    tol2 = TOL * (1 + sc * sc * n * d)
    # landmarks 2^20 from the origin: the translation column is a difference of numbers of that size
    hscale = max(sc, norm_scale(obs["H"])) if ("far" in case.get("shape", []) and "H" in obs) else None
    if cls in ("translation", "affine"):
        Hm, rest = take(nums, hh)
        cmp_mat(ctx, op, "h_matrix", obs["H"], Hm, (d + 1, d + 1), case, scale=hscale, tol=TOL)
        if abs(e2 - float(rest[0])) > tol2:
            ctx.mismatch(op, "squared error: implementation %.12g vs model optimum %.12g" % (e2, float(rest[0])), rp(case))
    elif cls == "scale":
        n2S, n2T = nums[0], nums[1]
        rT, rS = pend["r"]
        if not (common.close(rT * rT, n2T, float(n2T), TOL) and common.close(rS * rS, n2S, float(n2S), TOL) and rT >= 0 and rS > 0):
            ctx.mismatch(op, "norm contract: target.norm()^2=%.12g vs exact %.12g, source.norm()^2=%.12g vs exact %.12g"
                         % (rT * rT, float(n2T), rS * rS, float(n2S)), rp(case))
        Hm, rest = take(nums[2:], hh)
        cmp_mat(ctx, op, "h_matrix", obs["H"], Hm, (d + 1, d + 1), case, scale=hscale, tol=TOL)
        if not common.close(float(rest[0]), float(n2T), float(n2T), TOL):
            ctx.mismatch(op, "model: size of aligned source %.12g vs target %.12g" % (float(rest[0]), float(n2T)), rp(case))
    elif cls == "rotation":
        R, rest = take(nums, d * d)
        detuv, err2m = rest[0], rest[1]
        corr = rest[2:2 + d * d]
        U, D, Vt = pend["svd"]
        Mx = np.array([float(x) for x in corr]).reshape(d, d)
        msc = norm_scale(Mx)
        okc = (np.allclose(U.dot(np.diag(D)).dot(Vt), Mx, rtol=0, atol=TOL * (1 + msc)) and
               np.allclose(U.T.dot(U), np.eye(d), atol=1e-9) and np.allclose(Vt.dot(Vt.T), np.eye(d), atol=1e-9) and
               np.all(D >= 0) and np.all(np.diff(D) <= 0))
        ctx.count("svd-contract:" + ("ok" if okc else "BROKEN"))
        if not okc:
            ctx.mismatch(op, "np.linalg.svd contract does not hold against the exact correlation matrix", rp(case))
        cmp_mat(ctx, op, "rotation matrix", obs["H"][:d, :d], R, (d, d), case, scale=1.0, tol=TOL)
        cmp_mat(ctx, op, "optimal_rotation_matrix(source, target)", pend["fn_R"], R, (d, d), case, scale=1.0, tol=TOL)
        ctx.count("public-function:optimal_rotation_matrix")
        if abs(e2 - float(err2m)) > tol2:
            ctx.mismatch(op, "squared error: implementation %.12g vs model %.12g" % (e2, float(err2m)), rp(case))
        ctx.count("rotation-branch:" + ("corrected" if (float(detuv) < 0 and not o["mirror"]) else "plain"))
    elif cls == "rotx":
        contract, rest = nums[0], nums[1:]
        R, rest = take(rest, d * d)
        ctx.count("rotx-contract-exact:" + str(int(contract)))
        if int(contract) != 1:
            ctx.mismatch(op, "the exact rational SVD witness fails the model's contract check (generator bug?)", rp(case))
        cmp_mat(ctx, op, "rotation matrix (exact SVD witness)", obs["H"][:d, :d], R, (d, d), case, scale=1.0, tol=1e-8)
        if float(rest[1]) != 1.0 and not o["mirror"]:
            ctx.mismatch(op, "model rotation has determinant %s" % rest[1], rp(case))
    elif cls == "similarity":
        Hm, rest = take(nums, hh)
        corr, rest = take(rest, d * d)
        n2S, n2T, err2m = rest[0], rest[1], rest[2]
        rT, rS = pend["r"]
        if not (common.close(rT * rT, n2T, float(n2T), TOL) and common.close(rS * rS, n2S, float(n2S), TOL)):
            ctx.mismatch(op, "norm contract broken", rp(case))
        if o["rotation"]:
            U, D, Vt = pend["svd"]
            Mx = np.array([float(x) for x in corr]).reshape(d, d)
            okc = (np.allclose(U.dot(np.diag(D)).dot(Vt), Mx, rtol=0, atol=1e-9 * (1 + norm_scale(Mx))) and
                   np.allclose(U.T.dot(U), np.eye(d), atol=1e-9) and np.allclose(Vt.dot(Vt.T), np.eye(d), atol=1e-9) and
                   np.all(D >= 0) and np.all(np.diff(D) <= 0))
            ctx.count("svd-contract:" + ("ok" if okc else "BROKEN"))
            if not okc:
                ctx.mismatch(op, "np.linalg.svd contract does not hold against the model's exact correlation matrix", rp(case))
        cmp_mat(ctx, op, "h_matrix", obs["H"], Hm, (d + 1, d + 1), case, scale=hscale, tol=TOL)
        cmp_mat(ctx, op, "procrustes_alignment(source, target).h_matrix", pend["fn_H"], Hm, (d + 1, d + 1), case, scale=hscale, tol=TOL)
        ctx.count("public-function:procrustes_alignment")
        if abs(e2 - float(err2m)) > tol2 * 10:
            ctx.mismatch(op, "squared error: implementation %.12g vs model %.12g" % (e2, float(err2m)), rp(case))
        cent = rest[3:3 + 2 * d]
        if not np.allclose([float(x) for x in cent[:d]], [float(x) for x in cent[d:]], rtol=0, atol=1e-9 * (1 + sc)):
            ctx.mismatch(op, "model: centroid of aligned source differs from centroid of target", rp(case))
    elif cls == "tps":
        coef, rest = take(nums, (n + 3) * 2)
        csc = norm_scale(pend["coef"])
        cmp_mat(ctx, op, "coefficients", pend["coef"], coef, (n + 3, 2), case, scale=csc * 100, tol=1e-8)
        P = pend["tps_probe_out"]
        cmp_mat(ctx, op, "spline at probe points", P, rest, P.shape, case, scale=norm_scale(P) * 100, tol=1e-8)
        if cid + ".aff" in model:
            # target = affine(source): the model's system is invertible and its bending block is *exactly* zero
            # (theorem tps_affine_no_bending); the implementation's bending block vanishes up to rounding
            ra = model[cid + ".aff"].split()
            ctx.count("tps-affine:model-invertible=%s,bending-zero=%s" % tuple(ra[1:3]) if len(ra) >= 3 else "tps-affine:" + " ".join(ra))
            if ra[:3] != ["ok", "1", "1"]:
                ctx.mismatch(op, "target is an affine image of the source but the model answers %r (expected an "
                             "invertible system with zero bending part)" % " ".join(ra), rp(case))
            bend = pend["bending"]
            if float(np.max(np.abs(bend))) > 1e-7 * (1 + csc):
                ctx.mismatch(op, "target is an affine image of the source but the implementation's bending "
                             "coefficients are not zero (max %g)" % float(np.max(np.abs(bend))), rp(case))
    elif cls == "pwa":
        tk = rep.split()[1:]
        ctx.count("pwa-conformity-certificate:" + tk[0])
        if tk[0] != "1":
            ctx.mismatch(op, "the triangle list the alignment works with fails the model's conformity certificate "
                         "(pwaCertB): degenerate or overlapping triangles", rp(case, alignment_trilist=pend["trilist"]))
        tk = tk[1:]
        pos = 0
        outs = []
        while pos < len(tk):
            if tk[pos] == "1":
                outs.append((float(F(tk[pos + 1])), float(F(tk[pos + 2])), int(tk[pos + 3]),
                             float(F(tk[pos + 4])), float(F(tk[pos + 5]))))
                pos += 6
            else:
                outs.append(None)
                pos += 1
        probes = case["probes"]
        for k, pr in enumerate(probes):
            q, ti = obs["probe_out"][k]
            m = outs[k]
            if pr["kind"] == "edge":
                if q is not None and m is not None and not np.allclose(q, m[:2], rtol=0, atol=TOL * (1 + sc)):
                    ctx.mismatch(op, "edge point value: implementation %r vs model %r" % (q.tolist(), m[:2]), rp(case, probe=pr))
                continue
            if (q is None) != (m is None):
                ctx.mismatch(op, "containment of %s point %r: implementation %s vs model %s" % (
                    pr["kind"], pr["p"], "outside" if q is None else "inside", "outside" if m is None else "inside"), rp(case, probe=pr))
            elif q is not None:
                if not np.allclose(q, m[:2], rtol=0, atol=TOL * (1 + sc)) or ti != m[2]:
                    ctx.mismatch(op, "interior point: implementation %r (triangle %r) vs model %r" % (q.tolist(), ti, m), rp(case, probe=pr))
                ab = obs["probe_ab"][k]
                if ab is not None and not np.allclose(ab, m[3:5], rtol=0, atol=1e-9):
                    ctx.mismatch(op, "index_alpha_beta: implementation (alpha, beta) = %r vs model %r" % (list(ab), m[3:5]), rp(case, probe=pr))
        for v in range(n):
            m = outs[len(probes) + v]
            if m is None or not np.allclose(obs["applied"][v], m[:2], rtol=0, atol=TOL * (1 + sc)):
                ctx.mismatch(op, "source vertex %d: implementation %r vs model %r" % (v, obs["applied"][v].tolist(), m), rp(case))
    # ------- which point set is `.target` after construction / the reported error
    if cid + ".c0" in model:
        variants = {}
        for key, name in ((".c0", "requested-target"), (".c1", "resynced-to-aligned-source")):
            nm = parse_nums(model[cid + key])
            tg, rest = take(nm, n * d)
            al, rest = take(rest, n * d)
            variants[name] = (np.array([float(x) for x in tg]).reshape(n, d),
                              np.array([float(x) for x in al]).reshape(n, d), float(rest[0]))
        al_ok = np.allclose(obs["applied"], variants["requested-target"][1], rtol=0, atol=TOL * (1 + sc))
        if not al_ok:
            ctx.mismatch("construct", "aligned source: implementation vs model apply(h, source) differ", rp(case))
        match = [name for name, (tg, al, er2) in variants.items()
                 if np.allclose(obs["target"], tg, rtol=0, atol=TOL * (1 + sc)) and abs(obs["rep_err"] ** 2 - er2) <= tol2]
        if not match:
            ctx.mismatch("construct", ".target / alignment_error() after construction match neither model variant", rp(case))
        else:
            # when the residual is ~0 both variants coincide; record only decisive cases
            if e2 > 1e-6 * (1 + sc):
                ctx.notes.setdefault("target_after_construction", {})
                ctx.notes["target_after_construction"][CLASSNAME[cls]] = match[0]
                ctx.count("construct:%s:%s" % (CLASSNAME[cls], match[0]))


# ============================================================================ regenerated entry table

def entry_table():
    """constructor signatures and method providers of the live alignment classes; two live GPA objects"""
    import inspect
    import menpo.transform as mt
    from menpo.transform.piecewiseaffine.base import PythonPWA, CachedPWA
    rows = []
    for c in [mt.AlignmentTranslation, mt.AlignmentUniformScale, mt.AlignmentRotation, mt.AlignmentSimilarity,
              mt.AlignmentAffine, mt.ThinPlateSplines, CachedPWA, PythonPWA, mt.GeneralizedProcrustesAnalysis]:
        sig = inspect.signature(c.__init__)
        ps = [(n_, "" if p_.default is inspect.Parameter.empty else repr(p_.default))
              for n_, p_ in list(sig.parameters.items())[1:]]
        prov = []
        for m in ("aligned_source", "alignment_error", "set_target", "_sync_state_from_target"):
            for k in c.__mro__:
                if m in k.__dict__:
                    prov.append((m, k.__name__))
                    break
        rows.append((c.__name__, ps, prov))
    live = []
    base = np.array([[0.0, 0.0], [2.0, 0.0], [2.0, 1.0], [0.0, 3.0]])
    for m in (False, True):
        shapes = [make_shape((base * s_ + t_).tolist()) for s_, t_ in ((1.0, 0.0), (2.0, 1.0), (0.5, -3.0))]
        g = mt.GeneralizedProcrustesAnalysis(shapes, allow_mirror=m)
        t0 = g.transforms[0]
        live.append((m, len(shapes), len(g.transforms), type(t0).__name__, bool(getattr(t0, "rotation", False)),
                     bool(getattr(t0, "allow_mirror", not m)), int(getattr(g, "max_iterations", -1))
                     if all(type(t).__name__ == type(t0).__name__ and bool(getattr(t, "allow_mirror", not m)) == bool(getattr(t0, "allow_mirror", not m))
                            for t in g.transforms) else -2))
    return rows, live


def dtype_table():
    """storage dtypes of the state arrays after a history (first target of dtype A, set_target to a target of dtype B) next
    to those of an object built directly on the second target; all 9 (A, B) pairs for every single-alignment class"""
    import menpo.transform as mt
    from menpo.shape import PointCloud
    from menpo.transform.piecewiseaffine.base import PythonPWA, CachedPWA
    S = np.array([[0.0, 0.0], [4.0, 0.0], [4.0, 3.0], [0.0, 3.0], [2.0, 1.0]])
    T0 = np.array([[1.0, 0.0], [5.0, 1.0], [4.0, 4.0], [0.0, 3.0], [2.0, 2.0]])
    T1 = T0 + np.array([[0.25, 0.5], [0.0, 0.25], [0.5, 0.0], [0.25, 0.25], [0.0, 0.5]])
    DT = [("i8", np.int64), ("f4", np.float32), ("f8", np.float64)]

    def arrs(o):
        out = {}
        for k_, v_ in sorted(vars(o).items()):
            if isinstance(v_, np.ndarray):
                out[k_] = str(v_.dtype)
            elif hasattr(v_, "points") and isinstance(getattr(v_, "points", None), np.ndarray):
                out[k_ + ".points"] = str(v_.points.dtype)
        return out
    rows = []
    for c in [mt.AlignmentTranslation, mt.AlignmentUniformScale, mt.AlignmentRotation, mt.AlignmentSimilarity,
              mt.AlignmentAffine, mt.ThinPlateSplines, CachedPWA, PythonPWA]:
        for n0, d0 in DT:
            for n1, d1 in DT:
                t1 = (T1 * 4).astype(d1) if n1 == "i8" else T1.astype(d1)
                try:
                    a = c(PointCloud(S.copy()), PointCloud(T0.astype(d0)))
                    a.set_target(PointCloud(t1.copy()))
                    b = c(PointCloud(S.copy()), PointCloud(t1.copy()))
                    ra, rb = arrs(a), arrs(b)
                except Exception as e:  # noqa: BLE001 - a class that cannot be built / re-aimed here breaks the obligation
                    ra, rb = {"raises": type(e).__name__}, {}
                rows.append((c.__name__, n0, n1, [(k_, ra.get(k_, "-"), rb.get(k_, "-")) for k_ in sorted(set(ra) | set(rb))]))
    return rows


def generated(ctx):
    rows, live = entry_table()
    drows = dtype_table()

    def esc(x):
        return '"%s"' % str(x).replace("\\", "\\\\").replace('"', '\\"')

    def pl(l):
        return "[" + ", ".join("(%s, %s)" % (esc(a), esc(b)) for a, b in l) + "]"

    def lb(b):
        return "true" if b else "false"
    body = ",\n   ".join("⟨%s, %s, %s⟩" % (esc(c), pl(ps), pl(pv)) for c, ps, pv in rows)
    lv = ",\n   ".join("⟨%s, %d, %d, %s, %s, %s, %d⟩" % (lb(m), ns, nt, esc(mc), lb(r), lb(mm), max(mi, 0))
                       for m, ns, nt, mc, r, mm, mi in live)
    gen = ("/- REGENERATED by harness/c07.py from the live alignment classes on every run: constructor parameters with\n"
           "   their defaults, which class of the MRO supplies aligned_source / alignment_error / set_target /\n"
           "   _sync_state_from_target, and what two live GeneralizedProcrustesAnalysis objects hold.  Do not edit. -/\n"
           "import MenpoModel.Core.C07Table\n\nnamespace MenpoModel.Generated.C07\nopen MenpoModel.C07\n\n"
           "def entries : List EntryRow :=\n  [%s]\n\ndef gpaLive : List GpaLive :=\n  [%s]\n\n"
           "/-- storage dtypes after (first target dtype, set_target dtype) vs a fresh object: (attribute, re-aimed, fresh) -/\n"
           "def dtypeRows : List DtypeRow :=\n  [%s]\n\n"
           "end MenpoModel.Generated.C07\n" % (body, lv, ",\n   ".join(
               "⟨%s, %s, %s, [%s]⟩" % (esc(c), esc(a_), esc(b_), ", ".join("(%s, %s, %s)" % (esc(k_), esc(x_), esc(y_)) for k_, x_, y_ in at))
               for c, a_, b_, at in drows)))
    ctx.notes["entry_table"] = {c: {"params": ps, "providers": pv} for c, ps, pv in rows}
    ok = common.build_generated(ctx, {"MenpoModel/Generated/C07Entries.lean": gen},
                                ["MenpoModel.Generated.C07Entries", "MenpoModel.GenProps.C07"], 3)
    if not ok and ctx.broken_obligations:
        ctx.broken_obligations[-1]["obligation"] = "MenpoModel.GenProps.C07.entries_wf / gpa_live_ok / dtype_rows_ok"
        ctx.broken_obligations[-1]["observed"] = {"entries": ctx.notes["entry_table"], "gpa_live": live,
                                                  "dtype_rows_differing": [(c, a_, b_, [t for t in at if t[1] != t[2]])
                                                                           for c, a_, b_, at in drows if any(t[1] != t[2] for t in at)]}
    return generated_source(ctx) and ok


def broken_theorems(errors, rels):
    """names of the theorems of the files lean/<rel> in which the build reported an error (`file:line:col: error`)"""
    import os
    import re
    out = []
    for rel in rels:
        try:
            text = open(os.path.join(common.LEAN, rel)).read().splitlines()
        except OSError:
            continue
        for e in errors:
            m = re.search(re.escape(rel) + r":(\d+):", e)
            if not m:
                continue
            for ln in range(min(int(m.group(1)), len(text)) - 1, -1, -1):
                t = re.match(r"\s*theorem\s+(\S+)", text[ln])
                if t:
                    if t.group(1) not in out:
                        out.append(t.group(1))
                    break
    return out


# which alignment classes a broken `translated = Core` obligation concerns (bias of the directed search)
SRC_CLASS_OF = [("Translation", "translation"), ("translation", "translation"), ("Scale", "scale"), ("scale", "scale"),
                ("Affine", "affine"), ("affine", "affine"), ("Rotation", "rotation"), ("rotation", "rotation"),
                ("Procrustes", "similarity"), ("Similarity", "similarity"), ("similarity", "similarity"),
                ("Pwa", "pwa"), ("pwa", "pwa"), ("AlphaBeta", "pwa"), ("Containment", "pwa"), ("Barycentric", "pwa"),
                ("Tps", "tps"), ("tps", "tps"), ("tpsL", "tps"), ("tpsY", "tps"), ("truncated", "tps"),
                ("Pinv", "affine"), ("Pinv", "similarity"), ("Gpa", "gpa"), ("gpa", "gpa"), ("MultipleAlignment", "gpa"), ("MeanPointcloud", "gpa")]


def generated_source(ctx):
    """the SOURCE TEXT of the functions the model stands for, translated into Lean (harness/trans_c07.py) and proved equal to
    the Core definitions the theorems are about (GenProps/C07Src*.lean).  Untranslatable source / a failed equality proof =
    broken obligation (then: directed search), never an infrastructure error."""
    from . import trans_c07
    n0 = len(ctx.broken_obligations)
    try:
        files, why = trans_c07.generated_files()
    except Exception as e:      # noqa: BLE001 - the functions themselves are gone / moved: the tie is broken, not the harness
        files, why = None, ["%s: %s" % (type(e).__name__, e)]
    ctx.notes["source_translation"] = ("translated %d definitions from the source text of the working tree" % trans_c07.N_DEFS
                                       if not why else "untranslatable: " + "; ".join(why))
    if files is None:
        ctx.gen_obligations += len(SRC_THEOREMS)
        ctx.broken_obligations.append({"targets": list(trans_c07.GEN_TARGETS), "errors": why, "output_tail": ""})
        ok = False
    else:
        ok = common.build_generated(ctx, files, trans_c07.GEN_TARGETS, len(SRC_THEOREMS))
    if not ok and len(ctx.broken_obligations) > n0:
        b = ctx.broken_obligations[-1]
        names = broken_theorems(b.get("errors", []), ["MenpoModel/GenProps/C07Src.lean", "MenpoModel/GenProps/C07SrcPwa.lean",
                                                       "MenpoModel/GenProps/C07SrcTps.lean", "MenpoModel/GenProps/C07SrcGpa.lean",
                                                       "MenpoModel/GenProps/C07SrcProps.lean"])
        b["obligation"] = ("translated source = Core model: " + (", ".join(names) if names else
                           "the translated definitions no longer elaborate / are untranslatable"))
        if why:
            b["untranslatable"] = why
        hint = " ".join(names) + " " + " ".join(why) + " " + " ".join(b.get("errors", []))
        b["classes"] = sorted({c for key, c in SRC_CLASS_OF if key in hint})
    return ok


# ============================================================================ runs

def gen_case(rng, k):
    case = _gen_case(rng, k)
    cls = case.get("cls")
    single = cls in ("translation", "scale", "affine", "rotation", "similarity", "tps", "pwa")
    u = rng.random()
    if single and u < 0.3:
        case["life"] = "retargeted"
    elif single and u < 0.55:
        # born on whole-pixel (int64) / float32 / float64 landmarks, then re-aimed with set_target at the case's
        # target, which is usually stored in another dtype
        n_, d_ = len(case["S"]), len(case["S"][0])
        while True:
            T0 = [[float(rng.randint(-9, 9)) for _ in range(d_)] for _ in range(n_)]
            if len({tuple(r) for r in T0}) > 1:
                break
        case["life"] = "retyped"
        case["first"] = dict(T=T0, dtype=rng.choice(["int", "int", "int", "f32", None]))
    if cls in ("translation", "scale", "affine", "rotation", "rotx", "similarity", "tps") and rng.random() < 0.5:
        # the alignments read nothing but the points: sources / targets of every shape class, whatever they carry
        case["opts"] = dict(case["opts"], source_class=rng.choice(SHAPE_CLASSES), target_class=rng.choice(SHAPE_CLASSES))
    if cls == "gpa" and rng.random() < 0.5:
        case["src_classes"] = [rng.choice(SHAPE_CLASSES) for _ in case["S"]]
        case["tgt_class"] = rng.choice(SHAPE_CLASSES)
    if cls in ("translation", "scale", "affine", "rotation", "similarity", "tps", "pwa") and rng.random() < 0.2:
        case["dtype"] = "int"          # integer-typed point arrays where every coordinate is integral
    elif cls in ("translation", "scale", "affine", "rotation", "similarity") and "far" not in case.get("shape", []) \
            and rng.random() < 0.12:
        case["dtype"] = "f32"          # float32 point arrays (small dyadics are exact in float32); tolerance 1e-4
    return case


def _gen_case(rng, k):
    """deterministic schedule over classes so every class/option is hit in every run"""
    slot = k % 16
    if slot < 9:
        cls, opts = HOMOG[slot]
        return gen_homog_case(rng, cls, dict(opts))
    if slot == 9:
        cls, opts = HOMOG[rng.randrange(len(HOMOG))]
        return gen_homog_case(rng, cls, dict(opts), kind="recover")
    if slot == 10:
        return gen_rotx_case(rng, rng.choice([2, 3]), rng.random() < 0.4)
    if slot in (11, 12):
        return gen_tps_case(rng)
    if slot in (13, 14):
        return gen_pwa_case(rng)
    if k % 64 == 47:
        return gen_degenerate_case(rng)
    return gen_gpa_case(rng)


def witness_cases():
    """DESIGN section 7 #22: the 7-point probe (notes/probes/p7.py) and the Lean witness of `alignment_error_resync_refuted`"""
    g = np.random.default_rng(6)
    S = g.integers(-6, 7, size=(7, 2)).astype(float)
    T = g.integers(-6, 7, size=(7, 2)).astype(float)
    out = [dict(cls="affine", opts={}, S=S.tolist(), T=T.tolist(), kind="arbitrary", member=None),
           dict(cls="rotation", opts={"mirror": False}, S=S.tolist(), T=T.tolist(), kind="arbitrary", member=None)]
    wS = [[-1.0, -1.0], [-1.0, 1.0], [1.0, -1.0], [1.0, 1.0]]
    wT = [[p[0] + p[0] * p[1], p[1]] for p in wS]
    out.append(dict(cls="affine", opts={}, S=wS, T=wT, kind="arbitrary", member=None))
    return out


def is_nontrivial(case):
    if case["cls"] == "gpa":
        return True
    if case.get("degenerate"):
        return False
    return not np.array_equal(np.array(case["S"]), np.array(case["T"]))


def run_batch(ctx, cases, prefix="k"):
    lines, pending = [], {}
    for k, case in enumerate(cases):
        cid = "%s%d" % (prefix, k)
        run_case(ctx, case, cid, lines, pending)
        sig = (case["cls"], sorted(case["opts"].items()), case["S"], case["T"])
        smp = None
        if len(ctx.samples) < 6 and k % 3 == 0:
            smp = {"class": CLASSNAME.get(case["cls"], case["cls"]), "options": case["opts"], "kind": case["kind"],
                   "source": case["S"] if case["cls"] != "gpa" else "%d shapes" % len(case["S"]), "target": case["T"]}
        ctx.case(sig, nontrivial=is_nontrivial(case), sample=smp)
    if lines:
        model = common.run_driver(PROP, lines)
        for cid, pend in pending.items():
            try:
                compare(ctx, cid, pend, model)
            except Exception as e:  # a reply the comparison cannot read is a broken tie, not a crash
                ctx.mismatch(pend["case"]["cls"], "model reply unreadable (%s: %s): %r" % (
                    type(e).__name__, e, model.get(cid + ".fit", "")[:200]), rp(pend["case"]))


def search(ctx):
    """directed search after a broken tie: the classes whose correspondence broke (then all), oracle only"""
    rng = ctx.rng
    broken = []
    for op, _, r in ctx.mismatches:
        c = r.get("cls")
        if c and (c, json.dumps(r.get("opts", {}), sort_keys=True)) not in broken:
            broken.append((c, json.dumps(r.get("opts", {}), sort_keys=True)))
    for b in ctx.broken_obligations:
        # a broken `translated source = Core model` obligation names the classes it is about: all their option sets
        for c in b.get("classes", []):
            for cls_, opts_ in ([(c, {})] if c in ("tps", "pwa", "gpa") else [(k_, o_) for k_, o_ in HOMOG if k_ == c]):
                key = (cls_, json.dumps(opts_, sort_keys=True))
                if key not in broken:
                    broken.append(key)
    plan = []
    for c, oj in broken:
        plan += [(c, json.loads(oj))] * (400 if len(broken) <= 3 else 200)
    plan += [None] * 1200

    class Sink(list):
        def append(self, x):
            pass
    for k, item in enumerate(plan):
        if item is None:
            case = gen_case(rng, k)
        else:
            c, o = item
            if c in ("rotx",):
                case = gen_rotx_case(rng, rng.choice([2, 3]), o.get("mirror", False))
            elif c == "tps":
                case = gen_tps_case(rng)
            elif c == "pwa":
                case = gen_pwa_case(rng)
            elif c == "gpa":
                case = gen_gpa_case(rng)
            else:
                case = gen_homog_case(rng, c, o)
        run_case(ctx, case, "s%d" % k, Sink(), {})
        ctx.searched += 1
        if ctx.failures:
            return True
    return False


def run(ctx):
    generated(ctx)
    if ctx.broken_obligations:
        # the live classes no longer have the entry points the model is written for: audit what still builds and
        # let the oracle look for an input on which the difference shows
        common.prepare_lean(ctx, PROP, IMPORTS[:2], [t for t in THEOREMS if ".GenProps." not in t],
                            targets=["MenpoModel.Props.C07", "MenpoModel.Props.C07Limits", "MenpoModel.Drive.C07"])
    else:
        common.prepare_lean(ctx, PROP, IMPORTS, THEOREMS, targets=TARGETS)
    ctx.trusted += ["np.linalg.svd contract (checked numerically per case against the model's exact correlation matrix)",
                    "np.linalg.norm / sqrt contract (checked numerically per case against the exact squared norm)",
                    "scipy.spatial.Delaunay returns a conforming triangulation (hypothesis of the PWA theorems)"]
    rng = ctx.rng
    n = ctx.n(1000, 11000)
    cases = witness_cases() + [gen_case(rng, k) for k in range(n)]
    run_batch(ctx, cases)
    return ctx.finish(search)


def replay(ctx, path):
    data = json.load(open(path))
    r = data.get("replay") or (data.get("broken_correspondence") or [{}])[0].get("case", {})
    if "cls" not in r:
        print("replay file carries no case")
        return 2
    case = {k: v for k, v in r.items() if k not in ("python", "reported", "required", "probe")}
    if case["cls"] == "tps" and "probes" not in case:
        case["probes"] = [[0.5, 0.25], [1.0, -2.0], [3.0, 1.5]]
    if case["cls"] == "pwa" and "probes" not in case:
        case["probes"] = [r["probe"]] if "probe" in r else []
    run_batch(ctx, [case], prefix="r")
    ctx.case(("replay", path), nontrivial=True)
    print("replayed %s %s kind=%s: %d oracle failure(s), %d model mismatch(es)" % (
        case["cls"], case["opts"], case.get("kind"), len(ctx.failures), len(ctx.mismatches)))
    for f in ctx.failures[:5]:
        print("  oracle:", f[0], f[1], "-", f[2])
    for m in ctx.mismatches[:5]:
        print("  model :", m[0], "-", m[1][:300])
    return ctx.finish(None)
