"""C07 — alignments recover exact maps, fit optimally where promised, and interpolate (DESIGN.md section 6, C07).

Three parties per generated case:
* the real menpo alignment classes (AlignmentTranslation, AlignmentUniformScale, AlignmentRotation,
  AlignmentSimilarity, AlignmentAffine, ThinPlateSplines, PiecewiseAffine, GeneralizedProcrustesAnalysis);
* a property oracle written from the property text and independent of the Lean model: exact least-squares
  optima computed here with `fractions.Fraction` (translation, affine), the closed form (2-D) / Horn's quaternion
  eigenvalue (3-D) for the best rotation, centroid / size identities, interpolation and per-triangle affinity checks,
  `aligned_source() == apply(source)`, `alignment_error() == ||requested target - apply(source)||`;
* the Lean model `Core/C07Align.lean` run through `Drive/C07.lean` on the same inputs as exact rationals.
"""
import json
import math
from fractions import Fraction

import numpy as np

from . import common

PROP = "C07"
INFO = dict(
    technique="Lean 4 proof (least-squares optimality by orthogonality of the residual, Kabsch with and without the "
              "determinant constraint from the SVD contract, exact recovery from optimality + full rank, barycentric "
              "algebra for piecewise-affine maps, block-system algebra for thin-plate splines) + model/implementation "
              "correspondence on generated alignments",
    level_text="Theorems over an executable model of the alignment constructors (exact rational arithmetic, matrices "
               "generic in the number of points and in the dimension): translation and affine alignments minimise the "
               "squared error over their whole family; the rotation alignment is optimal among all orthogonal maps "
               "when mirroring is allowed (every dimension) and among proper rotations otherwise (2-D and 3-D, the "
               "determinant-corrected Kabsch solution) and never has determinant -1 unless mirroring is allowed; scale "
               "and similarity alignments reproduce size (and centroid) exactly and the similarity uses the "
               "least-squares rotation; every family member is recovered; thin-plate splines and piecewise-affine "
               "maps interpolate, the latter being affine per triangle and single-valued on shared edges; aligned "
               "source = transform(source), alignment error = distance(requested target, aligned source) for a "
               "constructor that keeps the requested target, and identically 0 for the constructor of the original "
               "tree (refuted with a witness).  The model is tied to /repo by running the real classes on generated "
               "point sets and diffing matrices, coefficients, triangle choices, targets and errors against the Lean "
               "driver; an independent oracle decides the property on the real code.",
    level_note="Trusted: Lean kernel; axioms propext/Classical.choice/Quot.sound; the Python harness and the driver's "
               "parser.  Contract parameters (checked numerically on every case, not proved): np.linalg.svd returns "
               "orthogonal factors with non-negative, descending singular values; np.linalg.norm/sqrt returns the "
               "non-negative root; RBF kernel values (arbitrary in the theorem); scipy Delaunay returns a conforming "
               "triangulation.  np.linalg.solve and the TPS pseudo-inverse are NOT assumed: the model's solve is "
               "checked in Lean (solveChecked_spec).  Float rounding is not modelled (exact arithmetic, 1e-9 "
               "relative comparison, conditioning bounded on the input).",
    rule="classes x {2-D, 3-D where supported} x 3..12 points; targets = family member(source) (exact recovery), "
         "member + dyadic noise at 4 levels, or arbitrary; small dyadic coordinates; near-degenerate inputs (rank, "
         "singular-value gaps, TPS conditioning, points within 1e-6 of a triangle edge) rejected on the input.  "
         "distinct = distinct (class, options, source, target); non-trivial = target differs from source and the "
         "source spans the space",
    partial=["uniform-scale family members used for exact recovery are the positive scales (a negative factor is a "
             "scale composed with a point reflection; the norm-ratio fit cannot and does not claim to return it)",
             "'scale and similarity alignments reproduce the target's centroid and overall size' is read "
             "distributively: the one-parameter scale family reproduces size, the similarity centroid and size",
             "thin-plate splines: the theorem covers the branch of _build_coefficients in which no singular value "
             "falls below min_singular_val (then the truncated pseudo-inverse is the inverse); generated systems stay "
             "20x above the 1e-4 threshold.  Below it the code deliberately drops directions and no longer "
             "interpolates exactly (seen at 68 random landmarks in the unit square) - treated as the degenerate "
             "case the quantifier excludes",
             "generalized Procrustes is decided by the oracle only (each member transform is a similarity alignment "
             "covered by the theorems; the iteration itself belongs to C08)",
             "piecewise-affine theorems assume a conforming, non-degenerate source triangulation (Delaunay contract); "
             "points exactly on an edge are compared by value only, and float containment excluding a point that "
             "lies exactly on the hull boundary is counted, not judged",
             "no-mirror rotation theorems are stated for 2-D and 3-D (the dimensions menpo's affine family supports); "
             "the mirror-allowed, translation, affine, scale, similarity-centroid/size theorems are dimension-generic"],
    assumptions=["np.linalg.svd contract (orthogonal U, Vt; D >= 0 descending; U diag(D) Vt = M), verified to 1e-9 "
                 "against the exact correlation matrix on every rotation/similarity case",
                 "np.linalg.norm returns the non-negative square root (verified against the exact squared norm)",
                 "source point sets are non-degenerate (full rank, distinct points), as the property's quantifier says"],
    design_ref="DESIGN.md section 6, C07; section 7 #22")
IMPORTS = ["MenpoModel.Props.C07"]
_T = "MenpoModel.C07."
THEOREMS = [_T + t for t in [
    "translation_ls_optimal", "translation_ls_excess", "translation_recovery",
    "solveChecked_spec", "affine_ls_optimal", "affine_recovers_target", "affine_exact_recovery",
    "rotation_ls_optimal_mirror", "rotation_ls_optimal_2d", "rotation_ls_optimal_3d",
    "rotation_no_reflection_2d", "rotation_no_reflection_3d", "rotFit_isOrth",
    "rotation_recovers_target_mirror", "rotation_recovers_target_2d", "rotation_recovers_target_3d",
    "linear_unique_of_full_rank", "svdContractB_sound",
    "scale_reproduces_size", "scale_recovery",
    "similarity_reproduces_centroid", "similarity_reproduces_size",
    "similarity_uses_ls_rotation_mirror", "similarity_uses_ls_rotation_2d", "similarity_uses_ls_rotation_3d",
    "similarity_recovers_target_mirror", "similarity_recovers_target_2d", "similarity_recovers_target_3d",
    "similarity_recovers_target_norot",
    "tps_interpolates",
    "alpha_beta_correct", "alpha_beta_reconstruct", "triMap_affine", "triMap_vertex", "pwa_edge_continuity",
    "pwaApply_some", "pwa_interpolates", "pwa_affine_in_triangle", "pwa_on_edge",
    "aligned_source_def", "alignment_error_def", "alignment_error_resync_zero", "alignment_error_resync_refuted",
    "ofArr_toArr",
]]

TOL = 1e-9
F = Fraction


# ============================================================================ small exact helpers (oracle side)

def fr(a):
    """ndarray -> nested lists of Fractions (exact)"""
    return [[F(float(x)) for x in row] for row in np.asarray(a, dtype=float)]


def fsolve(G, Y):
    """exact Gauss-Jordan over Fractions; returns X with G X = Y or None"""
    k = len(G)
    rows = [list(G[i]) + list(Y[i]) for i in range(k)]
    for c in range(k):
        p = next((r for r in range(c, k) if rows[r][c] != 0), None)
        if p is None:
            return None
        rows[c], rows[p] = rows[p], rows[c]
        pv = rows[c][c]
        rows[c] = [x / pv for x in rows[c]]
        for r in range(k):
            if r != c and rows[r][c] != 0:
                f = rows[r][c]
                rows[r] = [x - f * y for x, y in zip(rows[r], rows[c])]
    return [row[k:] for row in rows]


def exact_affine_opt(S, T):
    """exact least-squares affine fit: (H as (d+1)x(d+1) Fractions, minimal squared error) or None"""
    Sf, Tf = fr(S), fr(T)
    n, d = len(Sf), len(Sf[0])
    A = [[Sf[i][r] for i in range(n)] for r in range(d)] + [[F(1)] * n]
    B = [[Tf[i][r] for i in range(n)] for r in range(d)] + [[F(1)] * n]
    G = [[sum(A[r][i] * A[c][i] for i in range(n)) for c in range(d + 1)] for r in range(d + 1)]
    Y = [[sum(A[r][i] * B[c][i] for i in range(n)) for c in range(d + 1)] for r in range(d + 1)]
    X = fsolve(G, Y)
    if X is None:
        return None
    H = [[X[c][r] for c in range(d + 1)] for r in range(d + 1)]
    e = F(0)
    for i in range(n):
        for r in range(d):
            v = sum(H[r][c] * A[c][i] for c in range(d + 1)) - Tf[i][r]
            e += v * v
    return H, e


def best_rotation_value(M, mirror):
    """max of tr(M^T Q) over proper rotations (mirror=False) or all orthogonal Q (mirror=True);
    closed form in 2-D, Horn's quaternion eigenvalue in 3-D.  M = T^T S as float ndarray."""
    d = M.shape[0]
    if d == 2:
        rot = math.hypot(M[0, 0] + M[1, 1], M[1, 0] - M[0, 1])
        ref = math.hypot(M[0, 0] - M[1, 1], M[0, 1] + M[1, 0])
        return max(rot, ref) if mirror else rot

    def horn(A):
        # A = sum t_i s_i^T (rows of A indexed by target axis): maximise tr(A^T R) = sum_i t_i . R s_i
        Sxx, Sxy, Sxz = A[0, 0], A[1, 0], A[2, 0]
        Syx, Syy, Syz = A[0, 1], A[1, 1], A[2, 1]
        Szx, Szy, Szz = A[0, 2], A[1, 2], A[2, 2]
        N = np.array([[Sxx + Syy + Szz, Syz - Szy, Szx - Sxz, Sxy - Syx],
                      [Syz - Szy, Sxx - Syy - Szz, Sxy + Syx, Szx + Sxz],
                      [Szx - Sxz, Sxy + Syx, -Sxx + Syy - Szz, Syz + Szy],
                      [Sxy - Syx, Szx + Sxz, Syz + Szy, -Sxx - Syy + Szz]])
        return float(np.linalg.eigvalsh(N)[-1])
    v = horn(M)
    return max(v, horn(-M)) if mirror else v


# ============================================================================ generators

def gen_points(rng, n, d, kmax=24, mexp=2):
    """n points in d dims, small dyadic coordinates, full rank, distinct, reasonably conditioned"""
    while True:
        P = np.array([[common.dyadic(rng, kmax, mexp) for _ in range(d)] for _ in range(n)], dtype=float)
        if len({tuple(r) for r in P.tolist()}) < n:
            continue
        C = P - P.mean(axis=0)
        s = np.linalg.svd(C, compute_uv=False)
        if n < d + 1 or len(s) < d or s[d - 1] < 0.05 * s[0] or s[0] < 1.0:
            continue
        return P


def rat_rotation(rng, d):
    """exact rational proper rotation as nested Fractions"""
    if d == 2:
        c, s = common.rat_circle(rng)
        return [[c, -s], [s, c]]
    while True:
        q = [rng.randint(-4, 4) for _ in range(4)]
        nn = sum(x * x for x in q)
        if nn:
            break
    w, x, y, z = [F(v) for v in q]
    nn = F(nn)
    return [[(w * w + x * x - y * y - z * z) / nn, 2 * (x * y - w * z) / nn, 2 * (x * z + w * y) / nn],
            [2 * (x * y + w * z) / nn, (w * w - x * x + y * y - z * z) / nn, 2 * (y * z - w * x) / nn],
            [2 * (x * z - w * y) / nn, 2 * (y * z + w * x) / nn, (w * w - x * x - y * y + z * z) / nn]]


def rat_orth(rng, d, proper):
    R = rat_rotation(rng, d)
    if not proper:
        R = [[R[i][j] * (-1 if j == d - 1 else 1) for j in range(d)] for i in range(d)]
    return R


def fmatmul(A, B):
    return [[sum(A[i][k] * B[k][j] for k in range(len(B))) for j in range(len(B[0]))] for i in range(len(A))]


def ftr(A):
    return [list(r) for r in zip(*A)]


def to_float(A):
    return np.array([[float(x) for x in r] for r in A], dtype=float)


def member_matrix(rng, cls, opts, d):
    """random member of the family of `cls` as an exact (d+1)x(d+1) Fraction matrix"""
    I = [[F(int(i == j)) for j in range(d)] for i in range(d)]
    t = [F(0)] * d
    L = I
    if cls == "translation":
        t = [F(common.dyadic(rng, 40, 2)) for _ in range(d)]
    elif cls == "scale":
        s = F(rng.choice([1, 2, 3, 5, 7, 12])) / F(rng.choice([1, 2, 4, 8]))
        L = [[s * I[i][j] for j in range(d)] for i in range(d)]
    elif cls == "rotation":
        L = rat_orth(rng, d, proper=not (opts["mirror"] and (opts.get("_force_improper") or rng.random() < 0.5)))
    elif cls == "similarity":
        s = F(rng.choice([1, 2, 3, 5, 7])) / F(rng.choice([1, 2, 4]))
        R = rat_orth(rng, d, proper=not (opts["mirror"] and (opts.get("_force_improper") or rng.random() < 0.5))) \
            if opts["rotation"] else I
        L = [[s * R[i][j] for j in range(d)] for i in range(d)]
        t = [F(common.dyadic(rng, 40, 2)) for _ in range(d)]
    elif cls == "affine":
        while True:
            Li = [[rng.randint(-6, 6) for _ in range(d)] for _ in range(d)]
            if abs(np.linalg.det(np.array(Li, dtype=float))) >= 1:
                break
        L = [[F(x) for x in r] for r in Li]
        t = [F(common.dyadic(rng, 40, 2)) for _ in range(d)]
    H = [L[i] + [t[i]] for i in range(d)] + [[F(0)] * d + [F(1)]]
    return H


def apply_exact(H, S):
    d = len(H) - 1
    Sf = fr(S)
    return [[sum(H[r][c] * p[c] for c in range(d)) + H[r][d] for r in range(d)] for p in Sf]


def gen_target(rng, cls, opts, S, kind):
    """target for the homogeneous classes; returns (T ndarray, member or None)"""
    n, d = S.shape
    if kind == "arbitrary":
        return gen_points(rng, n, d), None
    if kind == "improper":
        # a mirrored member plus noise: with allow_mirror=False this forces the determinant-corrected branch
        H = member_matrix(rng, cls, dict(opts, mirror=True, _force_improper=True), d)
        T = to_float(apply_exact(H, S))
        N = np.array([[rng.randint(-4, 4) / 8.0 for _ in range(d)] for _ in range(n)])
        return T + N, None
    H = member_matrix(rng, cls, opts, d)
    T = to_float(apply_exact(H, S))
    if kind == "recover":
        return T, H
    lvl = {"noise0": 1 / 64.0, "noise1": 1 / 8.0, "noise2": 1.0, "noise3": 8.0}[kind]
    N = np.array([[rng.randint(-4, 4) * lvl for _ in range(d)] for _ in range(n)])
    return T + N, None


KINDS = ["recover", "recover", "noise0", "noise1", "noise2", "noise3", "arbitrary"]
HOMOG = [("translation", {}), ("scale", {}), ("affine", {}),
         ("rotation", {"mirror": False}), ("rotation", {"mirror": True}),
         ("similarity", {"rotation": True, "mirror": False}), ("similarity", {"rotation": True, "mirror": True}),
         ("similarity", {"rotation": False, "mirror": False}), ("similarity", {"rotation": False, "mirror": True})]


def rot_gap_ok(M, mirror):
    """conditioning of the (constrained) Kabsch solution, judged on the input correlation matrix: the solution is
    Lipschitz with constant ~ 1/(s[-2] + sign * s[-1]); the determinant test must not sit on a tie"""
    s = np.linalg.svd(M, compute_uv=False)
    if s[0] <= 0:
        return False
    if mirror:
        return (s[-2] + s[-1]) > 2e-3 * s[0]
    dm = np.linalg.det(M)
    if s[-1] <= 1e-12 * s[0]:
        # exactly rank-deficient correlation (coplanar 3-D landmarks, three points after centring): the proper
        # rotation U diag(1,..,1,det(U V^T)) V^T is still unique and well conditioned as long as s[-2] > 0
        return s[-2] > 2e-3 * s[0]
    if abs(dm) < 1e-6 * s[0] ** len(s):
        return False
    sign = 1.0 if dm > 0 else -1.0
    return (s[-2] + sign * s[-1]) > 2e-3 * s[0]


def gen_homog_case(rng, cls, opts, d=None, kind=None):
    d = d or rng.choice([2, 2, 3])
    kind = kind or rng.choice(KINDS)
    rotating = cls == "rotation" or (cls == "similarity" and opts.get("rotation"))
    if rotating and not opts["mirror"] and kind in ("noise1", "noise2", "arbitrary") and rng.random() < 0.6:
        kind = "improper"
    planar = d == 3 and rotating and not opts["mirror"] and rng.random() < 0.3
    if planar and kind in ("improper", "arbitrary"):
        kind = "noise1" if kind == "improper" else "noise3"   # gen_points cannot draw fewer than d+1 points
    for _ in range(200):
        n = rng.randint(d + 1, 12) if rng.random() < 0.85 else d + 1
        n = max(n, 3)
        if planar:
            # coplanar 3-D landmarks (a flat template) or just three points: the correlation matrix has rank 2
            n = rng.choice([3, 3, 4, 5, 7])
            P2 = gen_points(rng, n, 2)
            a, b = rng.randint(-2, 2), rng.randint(-2, 2)
            S = np.column_stack([P2[:, 0], P2[:, 1], a * P2[:, 0] + b * P2[:, 1]])
            S = S[:, rng.sample(range(3), 3)]
        else:
            S = gen_points(rng, n, d)
        T, member = gen_target(rng, cls, opts, S, kind)
        if cls in ("rotation", "similarity") and (cls == "rotation" or opts.get("rotation")):
            if cls == "rotation":
                M = T.T.dot(S)
            else:
                Sc, Tc = S - S.mean(axis=0), T - T.mean(axis=0)
                if np.linalg.norm(Sc) == 0 or np.linalg.norm(Tc) == 0:
                    continue
                M = Tc.T.dot(Sc * (np.linalg.norm(Tc) / np.linalg.norm(Sc)))
            if not rot_gap_ok(M, opts["mirror"]):
                continue
        if cls in ("scale", "similarity") and np.linalg.norm(T - T.mean(axis=0)) < 1e-3:
            continue
        return dict(cls=cls, opts=opts, S=S.tolist(), T=T.tolist(), kind=kind,
                    member=None if member is None else [[str(x) for x in r] for r in member])
    raise common.Infra("C07 generator could not produce a well-conditioned %s case" % cls)


def gen_rotx_case(rng, d, mirror):
    """rotation case with an *exact rational SVD* of the correlation matrix: S integer full rank, M = U D V^T with
    rational orthogonal U, V and distinct positive D, T = S (S^T S)^-1 M^T + N with N^T S = 0 (all exact)."""
    while True:
        n = rng.randint(d + 1, 7)
        S = np.array([[rng.randint(-5, 5) for _ in range(d)] for _ in range(n)], dtype=float)
        if abs(np.linalg.det(S.T.dot(S))) >= 1:
            break
    Sf = fr(S)
    U = rat_orth(rng, d, proper=rng.random() < 0.5)
    V = rat_orth(rng, d, proper=rng.random() < 0.5)
    base = sorted(rng.sample(range(1, 9), d), reverse=True)
    D = [F(b * rng.choice([1, 2, 4])) for b in base]
    D.sort(reverse=True)
    if len(set(D)) < d:
        D = [F(x) for x in base]
    Dm = [[D[i] if i == j else F(0) for j in range(d)] for i in range(d)]
    Vt = ftr(V)
    M = fmatmul(U, fmatmul(Dm, Vt))
    G = fmatmul(ftr(Sf), Sf)
    Gi = fsolve(G, [[F(int(i == j)) for j in range(d)] for i in range(d)])
    P = fmatmul(Sf, fmatmul(Gi, ftr(Sf)))            # projector onto col(S)
    Z = [[F(rng.randint(-3, 3)) for _ in range(d)] for _ in range(n)]
    PZ = fmatmul(P, Z)
    N = [[Z[i][j] - PZ[i][j] for j in range(d)] for i in range(n)]
    T0 = fmatmul(Sf, fmatmul(Gi, ftr(M)))
    T = [[T0[i][j] + N[i][j] for j in range(d)] for i in range(n)]
    return dict(cls="rotx", opts={"mirror": mirror}, S=S.tolist(), T=to_float(T).tolist(), kind="exact-svd",
                Tq=[[str(x) for x in r] for r in T], U=[[str(x) for x in r] for r in U], D=[str(x) for x in D],
                Vt=[[str(x) for x in r] for r in Vt])


def gen_tps_case(rng, kind=None):
    from menpo.transform.rbf import R2LogR2RBF
    kind = kind or rng.choice(["arbitrary", "noise1", "affine-image"])
    for _ in range(400):
        n = rng.randint(4, 10)
        S = gen_points(rng, n, 2, kmax=16, mexp=3) if rng.random() < 0.6 else gen_points(rng, n, 2, kmax=16, mexp=2)
        if kind == "affine-image":
            H = member_matrix(rng, "affine", {}, 2)
            T = to_float(apply_exact(H, S))
        elif kind == "noise1":
            T = S + np.array([[rng.randint(-4, 4) / 8.0 for _ in range(2)] for _ in range(n)])
        else:
            T = gen_points(rng, n, 2, kmax=16, mexp=2)
        K = R2LogR2RBF(S).apply(S)
        Pm = np.hstack([np.ones((n, 1)), S])
        L = np.vstack([np.hstack([K, Pm]), np.hstack([Pm.T, np.zeros((3, 3))])])
        sv = np.linalg.svd(L, compute_uv=False)
        # the code drops singular values below min_singular_val = 1e-4 (then it no longer inverts l): stay 20x
        # above that threshold and bound the condition number, both judged on the input system
        if sv[-1] < 2e-3 or sv[0] / sv[-1] > 1e6:
            continue
        probes = [[common.dyadic(rng, 24, 3), common.dyadic(rng, 24, 3)] for _ in range(3)]
        return dict(cls="tps", opts={}, S=S.tolist(), T=T.tolist(), kind=kind, probes=probes)
    raise common.Infra("C07 generator could not produce a well-conditioned TPS case")


def tri_edges(trilist):
    e = {}
    for ti, (a, b, c) in enumerate(trilist):
        for u, v in ((a, b), (b, c), (a, c)):
            e.setdefault((min(u, v), max(u, v)), []).append(ti)
    return e


def exact_bary(S, tri, p):
    """exact barycentric (alpha, beta) of p (Fractions) in source triangle tri"""
    i, j, k = [[F(float(x)) for x in S[v]] for v in tri]
    ij = [j[0] - i[0], j[1] - i[1]]
    ik = [k[0] - i[0], k[1] - i[1]]
    ip = [p[0] - i[0], p[1] - i[1]]
    det = ij[0] * ik[1] - ij[1] * ik[0]
    if det == 0:
        return None
    a = (ip[0] * ik[1] - ip[1] * ik[0]) / det
    b = (ij[0] * ip[1] - ij[1] * ip[0]) / det
    return a, b


def gen_pwa_case(rng, kind=None):
    from menpo.shape import TriMesh
    kind = kind or rng.choice(["delaunay", "delaunay", "grid"])
    for _ in range(200):
        if kind == "grid":
            w, h = rng.randint(2, 3), rng.randint(2, 3)
            pts, tris = [], []
            for y in range(h + 1):
                for x in range(w + 1):
                    jx = 0 if x in (0, w) else rng.randint(-1, 1) / 4.0
                    jy = 0 if y in (0, h) else rng.randint(-1, 1) / 4.0
                    pts.append([2.0 * x + jx, 2.0 * y + jy])
            for y in range(h):
                for x in range(w):
                    a = y * (w + 1) + x
                    b, c, e = a + 1, a + w + 1, a + w + 2
                    tris += [[a, b, c], [b, e, c]] if rng.random() < 0.5 else [[a, b, e], [a, e, c]]
            S = np.array(pts)
            trilist = np.array(tris)
        else:
            n = rng.randint(4, 9)
            S = gen_points(rng, n, 2, kmax=16, mexp=1)
            trilist = np.array(TriMesh(S).trilist)
        n = S.shape[0]
        # non-degenerate triangles with decent aspect (bounded on the input), every vertex used
        ok = set(trilist.ravel().tolist()) == set(range(n))
        for t in trilist:
            a, b, c = S[t[0]], S[t[1]], S[t[2]]
            area2 = abs((b[0] - a[0]) * (c[1] - a[1]) - (b[1] - a[1]) * (c[0] - a[0]))
            L2 = max(np.sum((b - a) ** 2), np.sum((c - a) ** 2), np.sum((c - b) ** 2))
            if area2 < 0.02 * L2:
                ok = False
        if not ok:
            continue
        mode = rng.choice(["arbitrary", "affine-image", "noise"])
        if mode == "affine-image":
            T = to_float(apply_exact(member_matrix(rng, "affine", {}, 2), S))
        elif mode == "noise":
            T = S + np.array([[rng.randint(-3, 3) / 4.0 for _ in range(2)] for _ in range(n)])
        else:
            T = np.array([[common.dyadic(rng, 24, 2) for _ in range(2)] for _ in range(n)])
        # probe points: strict interior (dyadic barycentric weights), exact edge points, clearly outside
        probes = []
        for _ in range(4):
            t = trilist[rng.randrange(len(trilist))]
            w = [rng.randint(1, 6) for _ in range(3)]
            sw = 16
            w[2] = sw - w[0] - w[1]
            p = (w[0] * S[t[0]] + w[1] * S[t[1]] + w[2] * S[t[2]]) / sw
            probes.append(dict(kind="interior", tri=[int(x) for x in t], w=[x / float(sw) for x in w], p=p.tolist()))
        edges = sorted(tri_edges(trilist.tolist()).items())
        for _ in range(3):
            (u, v), owners = edges[rng.randrange(len(edges))]
            c = rng.choice([1, 2, 3, 4, 5, 6, 7]) / 8.0
            p = (1 - c) * S[u] + c * S[v]
            probes.append(dict(kind="edge", u=u, v=v, c=c, owners=owners, p=p.tolist()))
        lo, hi = S.min(axis=0), S.max(axis=0)
        probes.append(dict(kind="outside", p=[float(hi[0] + 3.0), float(hi[1] + 2.5)]))
        return dict(cls="pwa", opts={"mesh": kind}, S=S.tolist(), T=T.tolist(), kind=mode,
                    trilist=trilist.tolist(), probes=probes)
    raise common.Infra("C07 generator could not produce a PWA case")


def gen_gpa_case(rng, kind=None):
    kind = kind or rng.choice(["members", "noisy"])
    d = 2
    n = rng.randint(4, 8)
    base = gen_points(rng, n, d)
    shapes = []
    for _ in range(rng.randint(3, 5)):
        H = member_matrix(rng, "similarity", {"rotation": True, "mirror": False}, d)
        P = to_float(apply_exact(H, base))
        if kind == "noisy":
            P = P + np.array([[rng.randint(-2, 2) / 8.0 for _ in range(d)] for _ in range(n)])
        shapes.append(P.tolist())
    return dict(cls="gpa", opts={}, S=shapes, T=None, kind=kind)


# ============================================================================ the implementation + the oracle

def norm_scale(*arrs):
    return max([1.0] + [float(np.max(np.abs(a))) for a in arrs if a is not None and np.size(a)])


def code_of(case):
    """runnable python reproducing the case on the real code"""
    cls, o = case["cls"], case["opts"]
    ctor = {"translation": "AlignmentTranslation(S, T)", "scale": "AlignmentUniformScale(S, T)",
            "affine": "AlignmentAffine(S, T)",
            "rotation": "AlignmentRotation(S, T, allow_mirror=%r)" % o.get("mirror", False),
            "rotx": "AlignmentRotation(S, T, allow_mirror=%r)" % o.get("mirror", False),
            "similarity": "AlignmentSimilarity(S, T, rotation=%r, allow_mirror=%r)" % (o.get("rotation", True), o.get("mirror", False)),
            "tps": "ThinPlateSplines(S, T)", "pwa": "PiecewiseAffine(S, T)"}.get(cls)
    if cls == "gpa":
        return ("import numpy as np\nfrom menpo.shape import PointCloud\nfrom menpo.transform import GeneralizedProcrustesAnalysis\n"
                "shapes=[PointCloud(np.array(s)) for s in %r]\ng=GeneralizedProcrustesAnalysis(shapes)\n"
                "print([t.alignment_error() for t in g.transforms])" % (case["S"],))
    src = "PointCloud(np.array(%r))" % (case["S"],)
    if cls == "pwa" and case["opts"].get("mesh") == "grid":
        src = "TriMesh(np.array(%r), trilist=np.array(%r))" % (case["S"], case["trilist"])
    return ("import numpy as np\nfrom menpo.shape import PointCloud, TriMesh\nfrom menpo.transform import *\n"
            "S=%s\nT=PointCloud(np.array(%r))\na=%s\n"
            "print('alignment_error', a.alignment_error(), 'true residual', np.linalg.norm(a.apply(S.points)-T.points))\n"
            "print('target is the requested one', np.array_equal(a.target.points, T.points))" % (src, case["T"], ctor))


def rp(case, **kw):
    r = {k: v for k, v in case.items() if k not in ("probes",)}
    r["python"] = code_of(case)
    r.update(kw)
    return r


def build(case):
    """the alignment under test.  case["life"] == "retargeted": the object was not born from the constructor call
    Cls(S, T) but had a previous life - it is the pseudoinverse() of the reverse alignment (or, where that does not
    exist, an alignment to another target) and was then brought to T with set_target; property C08 makes it the same
    alignment, so every C07 clause must hold for it as for a fresh one."""
    a, S, T = _build_fresh(case)
    if case.get("life") != "retargeted" or case["cls"] == "pwa":
        return a, S, T
    from menpo.shape import PointCloud
    try:
        other = PointCloud(np.array(case["S"], dtype=float)[::-1] * 1.5 + 1.0)
        rev = dict(case, S=other.points.tolist(), T=case["S"], life=None)
        b = _build_fresh(rev)[0].pseudoinverse()          # an alignment S -> other
        if not np.array_equal(b.source.points, S.points):
            return a, S, T
        b.set_target(T)
        return b, S, T
    except Exception:      # noqa: BLE001 - a singular reverse alignment: keep the constructor-born object
        return a, S, T


def _build_fresh(case):
    from menpo.shape import PointCloud, TriMesh
    import menpo.transform as mt
    cls, o = case["cls"], case["opts"]
    S = PointCloud(np.array(case["S"], dtype=float))
    T = PointCloud(np.array(case["T"], dtype=float))
    if cls == "translation":
        return mt.AlignmentTranslation(S, T), S, T
    if cls == "scale":
        return mt.AlignmentUniformScale(S, T), S, T
    if cls == "affine":
        return mt.AlignmentAffine(S, T), S, T
    if cls in ("rotation", "rotx"):
        return mt.AlignmentRotation(S, T, allow_mirror=o["mirror"]), S, T
    if cls == "similarity":
        return mt.AlignmentSimilarity(S, T, rotation=o["rotation"], allow_mirror=o["mirror"]), S, T
    if cls == "tps":
        return mt.ThinPlateSplines(S, T), S, T
    if cls == "pwa":
        if o.get("mesh") == "grid":
            S = TriMesh(np.array(case["S"], dtype=float), trilist=np.array(case["trilist"]))
        return mt.PiecewiseAffine(S, T), S, T
    raise ValueError(cls)


CLASSNAME = {"translation": "AlignmentTranslation", "scale": "AlignmentUniformScale", "affine": "AlignmentAffine",
             "rotation": "AlignmentRotation", "rotx": "AlignmentRotation", "similarity": "AlignmentSimilarity",
             "tps": "ThinPlateSplines", "pwa": "PiecewiseAffine"}


def oracle_common(ctx, case, a, S, T, obs):
    """clauses that hold for every alignment: aligned source = transform(source); error = distance to the target"""
    cn = CLASSNAME[case["cls"]]
    Sp, Tp = np.array(case["S"], dtype=float), np.array(case["T"], dtype=float)
    sc = norm_scale(Sp, Tp)
    applied = a.apply(Sp)
    al = a.aligned_source().points
    ctx.check(np.allclose(al, applied, rtol=0, atol=TOL * (1 + sc)), "C07/%s.aligned_source" % cn, "differs-from-apply",
              "aligned_source() differs from apply(source) by %g" % float(np.max(np.abs(al - applied))), rp(case))
    true_err = float(np.linalg.norm(Tp - applied))
    rep_err = float(a.alignment_error())
    tgt = a.target.points
    obs["applied"], obs["true_err"], obs["rep_err"], obs["target"] = applied, true_err, rep_err, tgt
    if not common.close(rep_err, true_err, sc * math.sqrt(Sp.size), TOL):
        overwritten = (not np.allclose(tgt, Tp, rtol=0, atol=1e-12 * (1 + sc))) and \
            np.allclose(tgt, applied, rtol=0, atol=TOL * (1 + sc))
        pattern = "reports-zero-target-replaced-by-aligned-source" if (overwritten and abs(rep_err) <= TOL * (1 + sc)) \
            else "wrong-value"
        ctx.fail("C07/%s.alignment_error" % cn, pattern,
                 "%s(source, target).alignment_error() = %.12g but ||target - apply(source)|| = %.12g%s"
                 % (cn, rep_err, true_err, "; .target no longer equals the requested target, it equals the aligned source"
                    if overwritten else ""),
                 rp(case, reported=rep_err, required=true_err, target_equals_requested=bool(np.array_equal(tgt, Tp))))
    return applied, true_err, sc


def sq_err(X, T):
    return float(np.sum((np.asarray(X) - np.asarray(T)) ** 2))


def oracle_homog(ctx, case, a, obs):
    cls, o = case["cls"], case["opts"]
    cn = CLASSNAME[cls]
    Sp, Tp = np.array(case["S"], dtype=float), np.array(case["T"], dtype=float)
    n, d = Sp.shape
    H = np.array(a.h_matrix, dtype=float)
    obs["H"] = H
    applied, true_err, sc = obs["applied"], obs["true_err"], norm_scale(Sp, Tp)
    e2 = true_err ** 2
    tol2 = TOL * (1 + sc * sc * n * d)
    site = "C07/%s" % cn
    L, t = H[:d, :d], H[:d, d]
    ctx.check(np.allclose(H[d], np.r_[np.zeros(d), 1.0], rtol=0, atol=TOL), site + ".h_matrix", "last-row",
              "homogeneous row is %r" % H[d].tolist(), rp(case))
    # ---- exact recovery of the generating member
    if case.get("member") is not None:
        Hm = np.array([[float(F(x)) for x in r] for r in case["member"]])
        ctx.check(np.allclose(H, Hm, rtol=0, atol=TOL * (1 + norm_scale(Hm))), site + ".recovery", "member-not-recovered",
                  "target = member(source) but the fitted matrix differs from the member by %g" % float(np.max(np.abs(H - Hm))),
                  rp(case, fitted=H.tolist()))
        ctx.check(e2 <= tol2, site + ".recovery", "residual-not-zero",
                  "target = member(source) but the squared residual is %g" % e2, rp(case))
    # ---- family membership of the result + optimality / identities
    if cls == "translation":
        ctx.check(np.allclose(L, np.eye(d), rtol=0, atol=TOL), site + ".family", "not-a-translation", "linear part is not I", rp(case))
        Sf, Tf = fr(Sp), fr(Tp)
        topt = [sum(Tf[i][j] - Sf[i][j] for i in range(n)) / n for j in range(d)]
        eopt = sum((Sf[i][j] + topt[j] - Tf[i][j]) ** 2 for i in range(n) for j in range(d))
        ctx.check(e2 <= float(eopt) + tol2, site + ".optimal", "not-least-squares",
                  "squared error %.12g exceeds the exact optimum %.12g of the translation family" % (e2, float(eopt)),
                  rp(case, exact_optimum=str(eopt)))
        obs["opt2"] = float(eopt)
    elif cls == "affine":
        ex = exact_affine_opt(Sp, Tp)
        if ex is not None:
            ctx.check(e2 <= float(ex[1]) + tol2, site + ".optimal", "not-least-squares",
                      "squared error %.12g exceeds the exact optimum %.12g of the affine family" % (e2, float(ex[1])),
                      rp(case, exact_optimum=str(ex[1])))
            obs["opt2"] = float(ex[1])
    elif cls == "scale":
        s = H[0, 0]
        ctx.check(np.allclose(H, np.diag([s] * d + [1.0]), rtol=0, atol=TOL), site + ".family", "not-a-uniform-scale",
                  "matrix is not s*I", rp(case))
        na, nt = np.linalg.norm(applied - applied.mean(axis=0)), np.linalg.norm(Tp - Tp.mean(axis=0))
        ctx.check(common.close(na, nt, sc * math.sqrt(n * d), TOL), site + ".size", "size-not-reproduced",
                  "norm of aligned source %.12g, norm of target %.12g" % (na, nt), rp(case))
    elif cls in ("rotation", "rotx"):
        ctx.check(np.allclose(t, 0, rtol=0, atol=TOL), site + ".family", "has-translation", "rotation with translation", rp(case))
        ctx.check(np.allclose(L.dot(L.T), np.eye(d), rtol=0, atol=1e-9), site + ".family", "not-orthogonal",
                  "R R^T differs from I by %g" % float(np.max(np.abs(L.dot(L.T) - np.eye(d)))), rp(case))
        dt = float(np.linalg.det(L))
        if not o["mirror"]:
            ctx.check(dt > 0, site + ".no_reflection", "reflection-returned",
                      "allow_mirror=False but det(R) = %.6g" % dt, rp(case, det=dt))
        M = Tp.T.dot(Sp)
        best = best_rotation_value(M, o["mirror"])
        eopt = float(np.sum(Sp ** 2) + np.sum(Tp ** 2) - 2 * best)
        ctx.check(e2 <= eopt + tol2 * 10, site + ".optimal", "not-least-squares",
                  "squared error %.12g exceeds the optimum %.12g over %s" % (e2, eopt, "orthogonal maps" if o["mirror"] else "proper rotations"),
                  rp(case, optimum=eopt))
        obs["opt2"] = eopt
    elif cls == "similarity":
        ca, ct = applied.mean(axis=0), Tp.mean(axis=0)
        ctx.check(np.allclose(ca, ct, rtol=0, atol=TOL * (1 + sc)), site + ".centroid", "centroid-not-reproduced",
                  "centroid of aligned source %r, of target %r" % (ca.tolist(), ct.tolist()), rp(case))
        na, nt = np.linalg.norm(applied - ca), np.linalg.norm(Tp - ct)
        ctx.check(common.close(na, nt, sc * math.sqrt(n * d), TOL), site + ".size", "size-not-reproduced",
                  "norm of aligned source %.12g, norm of target %.12g" % (na, nt), rp(case))
        ns = np.linalg.norm(Sp - Sp.mean(axis=0))
        s = nt / ns
        R = L / s
        s_lin = math.sqrt(max(float(np.sum(L * L)) / d, 1e-300))   # L = s R  =>  ||L||_F^2 = d s^2
        Rl = L / s_lin
        ctx.check(np.allclose(Rl.dot(Rl.T), np.eye(d), rtol=0, atol=1e-9), site + ".family", "not-a-similarity",
                  "linear part is not a multiple of an orthogonal matrix (off by %g)" % float(np.max(np.abs(Rl.dot(Rl.T) - np.eye(d)))), rp(case))
        if o["rotation"]:
            if not o["mirror"]:
                ctx.check(np.linalg.det(R) > 0, site + ".no_reflection", "reflection-returned",
                          "allow_mirror=False but det = %.6g" % float(np.linalg.det(R)), rp(case))
            Xs, Xt = s * (Sp - Sp.mean(axis=0)), Tp - ct
            best = best_rotation_value(Xt.T.dot(Xs), o["mirror"])
            eopt = float(np.sum(Xs ** 2) + np.sum(Xt ** 2) - 2 * best)
            ctx.check(e2 <= eopt + tol2 * 10, site + ".ls_rotation", "rotation-not-least-squares",
                      "squared error %.12g exceeds %.12g, what the least-squares rotation of the centred, rescaled "
                      "source achieves" % (e2, eopt), rp(case, optimum=eopt))
            obs["opt2"] = eopt
        else:
            ctx.check(np.allclose(L, L[0, 0] * np.eye(d), rtol=0, atol=1e-9 * (1 + abs(L[0, 0]))), site + ".family",
                      "rotated-although-rotation-false", "rotation=False but the linear part is not a multiple of I", rp(case))
    # ---- a few explicit competitors of the same family (perturbations of the fitted map)
    if cls in ("translation", "affine", "rotation", "rotx") or (cls == "similarity" and o["rotation"]):
        for eps in (1e-3, 0.05, 0.7):
            Hc = H.copy()
            if cls == "translation":
                Hc[:d, d] += eps * np.array([1.0, -0.5, 0.25][:d])
            elif cls == "affine":
                Hc[:d, :] += eps * np.array([[0.3, -1.0, 0.5, 0.2], [1.0, 0.4, -0.6, -0.3], [0.2, 0.7, 0.1, 1.0]])[:d, :d + 1]
            else:
                G = np.eye(d)
                c_, s_ = math.cos(eps), math.sin(eps)
                G[0, 0], G[0, 1], G[1, 0], G[1, 1] = c_, -s_, s_, c_
                if cls == "similarity":
                    cS = Sp.mean(axis=0)
                    Lc = G.dot(L)
                    Hc[:d, :d] = Lc
                    Hc[:d, d] = Tp.mean(axis=0) - Lc.dot(cS)
                else:
                    Hc[:d, :d] = G.dot(L)
            ec = sq_err(Sp.dot(Hc[:d, :d].T) + Hc[:d, d], Tp)
            ctx.check(e2 <= ec + tol2, site + ".optimal", "beaten-by-competitor",
                      "a competitor of the same family has squared error %.12g < %.12g" % (ec, e2),
                      rp(case, competitor=Hc.tolist()))


def oracle_tps(ctx, case, a, obs):
    Sp, Tp = np.array(case["S"], dtype=float), np.array(case["T"], dtype=float)
    sc = norm_scale(Sp, Tp)
    out = obs["applied"]
    ctx.check(np.allclose(out, Tp, rtol=0, atol=1e-8 * (1 + sc)), "C07/ThinPlateSplines.interpolation", "landmark-missed",
              "a source landmark is sent %g away from its target landmark" % float(np.max(np.abs(out - Tp))), rp(case))
    if case["kind"] == "affine-image":
        # an affine image has no bending part: probes map affinely
        P = np.array(case["probes"], dtype=float)
        ex = exact_affine_opt(Sp, Tp)
        if ex is not None:
            Hm = np.array([[float(x) for x in r] for r in ex[0]])
            want = P.dot(Hm[:2, :2].T) + Hm[:2, 2]
            got = a.apply(P)
            ctx.check(np.allclose(got, want, rtol=0, atol=1e-7 * (1 + norm_scale(want))), "C07/ThinPlateSplines.recovery",
                      "affine-member-not-recovered", "target = affine(source) but the spline is not that affine map "
                      "(off by %g)" % float(np.max(np.abs(got - want))), rp(case))


def oracle_pwa(ctx, case, a, obs):
    Sp, Tp = np.array(case["S"], dtype=float), np.array(case["T"], dtype=float)
    sc = norm_scale(Sp, Tp)
    site = "C07/PiecewiseAffine"
    out = obs["applied"]
    ctx.check(np.allclose(out, Tp, rtol=0, atol=TOL * (1 + sc)), site + ".interpolation", "landmark-missed",
              "a source landmark is sent %g away from its target landmark" % float(np.max(np.abs(out - Tp))), rp(case))
    from menpo.transform.piecewiseaffine import TriangleContainmentError
    res = []
    for pr in case["probes"]:
        p = np.array([pr["p"]], dtype=float)
        try:
            q = a.apply(p)[0]
            ti = int(a.index_alpha_beta(p)[0][0])
        except TriangleContainmentError:
            q, ti = None, None
        res.append((q, ti))
        if pr["kind"] == "interior":
            want = sum(w * Tp[v] for w, v in zip(pr["w"], pr["tri"]))
            ctx.check(q is not None and np.allclose(q, want, rtol=0, atol=TOL * (1 + sc)), site + ".affine_in_triangle",
                      "not-the-triangle-affine-map",
                      "a point inside source triangle %r (weights %r) is sent to %r, the triangle's affine map gives %r"
                      % (pr["tri"], pr["w"], None if q is None else q.tolist(), want.tolist()), rp(case, probe=pr))
        elif pr["kind"] == "edge":
            want = (1 - pr["c"]) * Tp[pr["u"]] + pr["c"] * Tp[pr["v"]]
            if q is None:
                ctx.count("pwa:edge-point-float-containment-miss")
            else:
                ctx.check(np.allclose(q, want, rtol=0, atol=TOL * (1 + sc)), site + ".edge_continuity", "edge-value",
                          "a point on edge (%d,%d) is sent to %r; both adjacent triangles' affine maps give %r"
                          % (pr["u"], pr["v"], q.tolist(), want.tolist()), rp(case, probe=pr))
            # two-sided: points just inside each owner triangle stay within L*eps of the edge value
            S_u, S_v = Sp[pr["u"]], Sp[pr["v"]]
            for owner in pr["owners"]:
                tri = case["trilist"][owner]
                w = [x for x in tri if x not in (pr["u"], pr["v"])][0]
                eps = 1.0 / 1024
                pin = (1 - eps) * ((1 - pr["c"]) * S_u + pr["c"] * S_v) + eps * Sp[w]
                win = (1 - eps) * want + eps * Tp[w]
                try:
                    qin = a.apply(np.array([pin]))[0]
                except TriangleContainmentError:
                    qin = None
                ctx.check(qin is not None and np.allclose(qin, win, rtol=0, atol=1e-8 * (1 + sc)), site + ".edge_continuity",
                          "jump-across-edge", "approaching edge (%d,%d) from triangle %r the map does not tend to the "
                          "edge value" % (pr["u"], pr["v"], tri), rp(case, probe=pr))
        elif pr["kind"] == "outside":
            ctx.check(q is None, site + ".domain", "outside-point-mapped", "a point outside every source triangle was mapped",
                      rp(case, probe=pr))
    obs["probe_out"] = res


def oracle_gpa(ctx, case):
    from menpo.shape import PointCloud
    from menpo.transform import GeneralizedProcrustesAnalysis
    shapes = [PointCloud(np.array(s, dtype=float)) for s in case["S"]]
    g = GeneralizedProcrustesAnalysis(shapes)
    site = "C07/GeneralizedProcrustesAnalysis"
    sc = norm_scale(*[s.points for s in shapes])
    for k, t in enumerate(g.transforms):
        Sp = shapes[k].points
        applied = t.apply(Sp)
        al = t.aligned_source().points
        ctx.check(np.allclose(al, applied, rtol=0, atol=TOL * (1 + sc)), site + ".aligned_source", "differs-from-apply",
                  "transform %d: aligned_source() differs from apply(source)" % k, rp(case))
        tt = t.target.points
        ctx.check(common.close(t.alignment_error(), np.linalg.norm(tt - applied), sc * 4, TOL), site + ".alignment_error",
                  "wrong-value", "transform %d: alignment_error() is not the distance to its target" % k, rp(case))
        ctx.check(np.allclose(applied.mean(axis=0), tt.mean(axis=0), rtol=0, atol=TOL * (1 + sc)), site + ".centroid",
                  "centroid-not-reproduced", "transform %d does not reproduce its target's centroid" % k, rp(case))
        ctx.check(common.close(np.linalg.norm(applied - applied.mean(axis=0)), np.linalg.norm(tt - tt.mean(axis=0)), sc * 4, TOL),
                  site + ".size", "size-not-reproduced", "transform %d does not reproduce its target's size" % k, rp(case))
    if case["kind"] == "members":
        e = g.mean_alignment_error()
        ctx.check(e <= 1e-6 * (1 + sc), site + ".recovery", "members-not-aligned",
                  "all sources are similarity images of one shape but the mean alignment error is %g" % e, rp(case))
    return g


# ============================================================================ model lines + comparison

def mat_tok(a):
    return common.fmat(np.asarray(a, dtype=float).tolist())


def qmat_tok(rows):
    return "%d %d %s" % (len(rows), len(rows[0]), " ".join(common.fq(F(x)) for r in rows for x in r))


def harness_svd(M):
    U, D, Vt = np.linalg.svd(M)
    return U, D, Vt


def run_case(ctx, case, cid, lines, pending):
    """implementation + oracle for one case; appends model request lines; `pending[cid]` keeps what to compare"""
    cls, o = case["cls"], case["opts"]
    ctx.count("class:" + cls + ("" if not o else ":" + ",".join("%s=%s" % kv for kv in sorted(o.items()))))
    ctx.count("kind:" + case["kind"])
    if cls == "gpa":
        try:
            oracle_gpa(ctx, case)
        except Exception as e:
            ctx.fail("C07/GeneralizedProcrustesAnalysis", "raises", "GPA raised %s: %s" % (type(e).__name__, e), rp(case))
        return
    Sp, Tp = np.array(case["S"], dtype=float), np.array(case["T"], dtype=float)
    ctx.count("dims:%d" % Sp.shape[1])
    ctx.count("npoints:%d" % Sp.shape[0])
    obs = {}
    try:
        a, S, T = build(case)
        oracle_common(ctx, case, a, S, T, obs)
        if cls == "tps":
            oracle_tps(ctx, case, a, obs)
        elif cls == "pwa":
            oracle_pwa(ctx, case, a, obs)
        else:
            oracle_homog(ctx, case, a, obs)
    except Exception as e:
        import traceback
        ctx.fail("C07/%s" % CLASSNAME[cls], "raises",
                 "%s raised %s: %s" % (CLASSNAME[cls], type(e).__name__, e), rp(case, trace=traceback.format_exc()[-800:]))
        return
    # ---------------- model requests
    sS, sT = mat_tok(Sp), mat_tok(Tp)
    pend = dict(case=case, obs=obs, ops={})
    if cls == "translation":
        lines.append("%s.fit translation %s %s" % (cid, sS, sT))
    elif cls == "affine":
        lines.append("%s.fit affine %s %s" % (cid, sS, sT))
    elif cls == "scale":
        rT, rS = float(T.norm()), float(S.norm())
        pend["r"] = (rT, rS)
        lines.append("%s.fit scale %s %s %s %s" % (cid, sS, sT, common.fq(rT), common.fq(rS)))
    elif cls == "rotation":
        U, D, Vt = harness_svd(Tp.T.dot(Sp))
        pend["svd"] = (U, D, Vt)
        lines.append("%s.fit rotation %d %s %s %s %s" % (cid, int(o["mirror"]), sS, sT, mat_tok(U), mat_tok(Vt)))
    elif cls == "rotx":
        lines.append("%s.fit rotx %d %s %s %s %d %s %s" % (
            cid, int(o["mirror"]), sS, qmat_tok(case["Tq"]), qmat_tok(case["U"]), len(case["D"]),
            " ".join(common.fq(F(x)) for x in case["D"]), qmat_tok(case["Vt"])))
    elif cls == "similarity":
        rT, rS = float(T.norm()), float(S.norm())
        pend["r"] = (rT, rS)
        Xs = (rT / rS) * (Sp - Sp.mean(axis=0))
        Xt = Tp - Tp.mean(axis=0)
        U, D, Vt = harness_svd(Xt.T.dot(Xs))
        pend["svd"] = (U, D, Vt)
        lines.append("%s.fit similarity %d %d %s %s %s %s %s %s" % (
            cid, int(o["rotation"]), int(o["mirror"]), sS, sT, common.fq(rT), common.fq(rS), mat_tok(U), mat_tok(Vt)))
    elif cls == "tps":
        K = a.kernel.apply(Sp)
        P = np.array(case["probes"], dtype=float)
        KP = a.kernel.apply(P)
        pend["tps_probe_out"] = a.apply(P)
        pend["coef"] = np.array(a.coefficients)
        pr = " ".join("%s %s %s" % (common.fq(P[i, 0]), common.fq(P[i, 1]), common.fqs(KP[i])) for i in range(len(P)))
        lines.append("%s.fit tps %s %s %s %d %s" % (cid, mat_tok(K), sS, sT, len(P), pr))
    elif cls == "pwa":
        tl = np.array(a.trilist).tolist()
        pend["trilist"] = tl
        pts = [pr["p"] for pr in case["probes"]] + Sp.tolist()
        lines.append("%s.fit pwa %s %s %d %s %d %s" % (
            cid, sS, sT, len(tl), " ".join("%d %d %d" % tuple(t) for t in tl), len(pts),
            " ".join("%s %s" % (common.fq(p[0]), common.fq(p[1])) for p in pts)))
    if cls in ("translation", "scale", "affine", "rotation", "rotx", "similarity"):
        Hs = mat_tok(obs["H"])
        lines.append("%s.c0 construct 0 %s %s %s" % (cid, sS, sT, Hs))
        lines.append("%s.c1 construct 1 %s %s %s" % (cid, sS, sT, Hs))
    pending[cid] = pend


def parse_nums(reply):
    tk = reply.split()
    if not tk or tk[0] != "ok":
        return None
    return [F(x) for x in tk[1:]]


def take(nums, k):
    return nums[:k], nums[k:]


def cmp_mat(ctx, op, what, got, want_fr, shape, case, scale=None, tol=TOL):
    want = np.array([float(x) for x in want_fr], dtype=float).reshape(shape)
    got = np.asarray(got, dtype=float).reshape(shape)
    sc = scale if scale is not None else norm_scale(want, got)
    if not np.allclose(got, want, rtol=0, atol=tol * (1 + sc)):
        ctx.mismatch(op, "%s: implementation %s vs model %s (max diff %g)" % (
            what, np.round(got, 9).tolist(), np.round(want, 9).tolist(), float(np.max(np.abs(got - want)))), rp(case))
        return False
    return True


def compare(ctx, cid, pend, model):
    case, obs = pend["case"], pend["obs"]
    cls, o = case["cls"], case["opts"]
    Sp, Tp = np.array(case["S"], dtype=float), np.array(case["T"], dtype=float)
    n, d = Sp.shape
    sc = norm_scale(Sp, Tp)
    rep = model.get(cid + ".fit", "")
    nums = parse_nums(rep)
    op = cls
    hh = (d + 1) * (d + 1)
    if nums is None:
        ctx.mismatch(op, "model answered %r where the implementation produced an alignment" % rep, rp(case))
        return
    e2 = obs["true_err"] ** 2
    tol2 = TOL * (1 + sc * sc * n * d)
    if cls in ("translation", "affine"):
        Hm, rest = take(nums, hh)
        cmp_mat(ctx, op, "h_matrix", obs["H"], Hm, (d + 1, d + 1), case)
        if abs(e2 - float(rest[0])) > tol2:
            ctx.mismatch(op, "squared error: implementation %.12g vs model optimum %.12g" % (e2, float(rest[0])), rp(case))
    elif cls == "scale":
        n2S, n2T = nums[0], nums[1]
        rT, rS = pend["r"]
        if not (common.close(rT * rT, n2T, float(n2T), TOL) and common.close(rS * rS, n2S, float(n2S), TOL) and rT >= 0 and rS > 0):
            ctx.mismatch(op, "norm contract: target.norm()^2=%.12g vs exact %.12g, source.norm()^2=%.12g vs exact %.12g"
                         % (rT * rT, float(n2T), rS * rS, float(n2S)), rp(case))
        Hm, rest = take(nums[2:], hh)
        cmp_mat(ctx, op, "h_matrix", obs["H"], Hm, (d + 1, d + 1), case)
        if not common.close(float(rest[0]), float(n2T), float(n2T), TOL):
            ctx.mismatch(op, "model: size of aligned source %.12g vs target %.12g" % (float(rest[0]), float(n2T)), rp(case))
    elif cls == "rotation":
        R, rest = take(nums, d * d)
        detuv, err2m = rest[0], rest[1]
        corr = rest[2:2 + d * d]
        U, D, Vt = pend["svd"]
        Mx = np.array([float(x) for x in corr]).reshape(d, d)
        msc = norm_scale(Mx)
        okc = (np.allclose(U.dot(np.diag(D)).dot(Vt), Mx, rtol=0, atol=TOL * (1 + msc)) and
               np.allclose(U.T.dot(U), np.eye(d), atol=1e-9) and np.allclose(Vt.dot(Vt.T), np.eye(d), atol=1e-9) and
               np.all(D >= 0) and np.all(np.diff(D) <= 0))
        ctx.count("svd-contract:" + ("ok" if okc else "BROKEN"))
        if not okc:
            ctx.mismatch(op, "np.linalg.svd contract does not hold against the exact correlation matrix", rp(case))
        cmp_mat(ctx, op, "rotation matrix", obs["H"][:d, :d], R, (d, d), case, scale=1.0)
        if abs(e2 - float(err2m)) > tol2:
            ctx.mismatch(op, "squared error: implementation %.12g vs model %.12g" % (e2, float(err2m)), rp(case))
        ctx.count("rotation-branch:" + ("corrected" if (float(detuv) < 0 and not o["mirror"]) else "plain"))
    elif cls == "rotx":
        contract, rest = nums[0], nums[1:]
        R, rest = take(rest, d * d)
        ctx.count("rotx-contract-exact:" + str(int(contract)))
        if int(contract) != 1:
            ctx.mismatch(op, "the exact rational SVD witness fails the model's contract check (generator bug?)", rp(case))
        cmp_mat(ctx, op, "rotation matrix (exact SVD witness)", obs["H"][:d, :d], R, (d, d), case, scale=1.0, tol=1e-8)
        if float(rest[1]) != 1.0 and not o["mirror"]:
            ctx.mismatch(op, "model rotation has determinant %s" % rest[1], rp(case))
    elif cls == "similarity":
        Hm, rest = take(nums, hh)
        corr, rest = take(rest, d * d)
        n2S, n2T, err2m = rest[0], rest[1], rest[2]
        rT, rS = pend["r"]
        if not (common.close(rT * rT, n2T, float(n2T), TOL) and common.close(rS * rS, n2S, float(n2S), TOL)):
            ctx.mismatch(op, "norm contract broken", rp(case))
        if o["rotation"]:
            U, D, Vt = pend["svd"]
            Mx = np.array([float(x) for x in corr]).reshape(d, d)
            okc = (np.allclose(U.dot(np.diag(D)).dot(Vt), Mx, rtol=0, atol=1e-9 * (1 + norm_scale(Mx))) and
                   np.allclose(U.T.dot(U), np.eye(d), atol=1e-9) and np.allclose(Vt.dot(Vt.T), np.eye(d), atol=1e-9) and
                   np.all(D >= 0) and np.all(np.diff(D) <= 0))
            ctx.count("svd-contract:" + ("ok" if okc else "BROKEN"))
            if not okc:
                ctx.mismatch(op, "np.linalg.svd contract does not hold against the model's exact correlation matrix", rp(case))
        cmp_mat(ctx, op, "h_matrix", obs["H"], Hm, (d + 1, d + 1), case)
        if abs(e2 - float(err2m)) > tol2 * 10:
            ctx.mismatch(op, "squared error: implementation %.12g vs model %.12g" % (e2, float(err2m)), rp(case))
        cent = rest[3:3 + 2 * d]
        if not np.allclose([float(x) for x in cent[:d]], [float(x) for x in cent[d:]], rtol=0, atol=1e-9 * (1 + sc)):
            ctx.mismatch(op, "model: centroid of aligned source differs from centroid of target", rp(case))
    elif cls == "tps":
        coef, rest = take(nums, (n + 3) * 2)
        csc = norm_scale(pend["coef"])
        cmp_mat(ctx, op, "coefficients", pend["coef"], coef, (n + 3, 2), case, scale=csc * 100, tol=1e-8)
        P = pend["tps_probe_out"]
        cmp_mat(ctx, op, "spline at probe points", P, rest, P.shape, case, scale=norm_scale(P) * 100, tol=1e-8)
    elif cls == "pwa":
        tk = rep.split()[1:]
        pos = 0
        outs = []
        while pos < len(tk):
            if tk[pos] == "1":
                outs.append((float(F(tk[pos + 1])), float(F(tk[pos + 2])), int(tk[pos + 3])))
                pos += 4
            else:
                outs.append(None)
                pos += 1
        probes = case["probes"]
        for k, pr in enumerate(probes):
            q, ti = obs["probe_out"][k]
            m = outs[k]
            if pr["kind"] == "edge":
                if q is not None and m is not None and not np.allclose(q, m[:2], rtol=0, atol=TOL * (1 + sc)):
                    ctx.mismatch(op, "edge point value: implementation %r vs model %r" % (q.tolist(), m[:2]), rp(case, probe=pr))
                continue
            if (q is None) != (m is None):
                ctx.mismatch(op, "containment of %s point %r: implementation %s vs model %s" % (
                    pr["kind"], pr["p"], "outside" if q is None else "inside", "outside" if m is None else "inside"), rp(case, probe=pr))
            elif q is not None:
                if not np.allclose(q, m[:2], rtol=0, atol=TOL * (1 + sc)) or ti != m[2]:
                    ctx.mismatch(op, "interior point: implementation %r (triangle %r) vs model %r" % (q.tolist(), ti, m), rp(case, probe=pr))
        for v in range(n):
            m = outs[len(probes) + v]
            if m is None or not np.allclose(obs["applied"][v], m[:2], rtol=0, atol=TOL * (1 + sc)):
                ctx.mismatch(op, "source vertex %d: implementation %r vs model %r" % (v, obs["applied"][v].tolist(), m), rp(case))
    # ------- which point set is `.target` after construction / the reported error
    if cid + ".c0" in model:
        variants = {}
        for key, name in ((".c0", "requested-target"), (".c1", "resynced-to-aligned-source")):
            nm = parse_nums(model[cid + key])
            tg, rest = take(nm, n * d)
            al, rest = take(rest, n * d)
            variants[name] = (np.array([float(x) for x in tg]).reshape(n, d),
                              np.array([float(x) for x in al]).reshape(n, d), float(rest[0]))
        al_ok = np.allclose(obs["applied"], variants["requested-target"][1], rtol=0, atol=TOL * (1 + sc))
        if not al_ok:
            ctx.mismatch("construct", "aligned source: implementation vs model apply(h, source) differ", rp(case))
        match = [name for name, (tg, al, er2) in variants.items()
                 if np.allclose(obs["target"], tg, rtol=0, atol=TOL * (1 + sc)) and abs(obs["rep_err"] ** 2 - er2) <= tol2]
        if not match:
            ctx.mismatch("construct", ".target / alignment_error() after construction match neither model variant", rp(case))
        else:
            # when the residual is ~0 both variants coincide; record only decisive cases
            if e2 > 1e-6 * (1 + sc):
                ctx.notes.setdefault("target_after_construction", {})
                ctx.notes["target_after_construction"][CLASSNAME[cls]] = match[0]
                ctx.count("construct:%s:%s" % (CLASSNAME[cls], match[0]))


# ============================================================================ runs

def gen_case(rng, k):
    case = _gen_case(rng, k)
    if isinstance(case, dict) and case.get("cls") in ("translation", "scale", "affine", "rotation", "similarity", "tps") \
            and rng.random() < 0.3:
        case["life"] = "retargeted"
    return case


def _gen_case(rng, k):
    """deterministic schedule over classes so every class/option is hit in every run"""
    slot = k % 16
    if slot < 9:
        cls, opts = HOMOG[slot]
        return gen_homog_case(rng, cls, dict(opts))
    if slot == 9:
        cls, opts = HOMOG[rng.randrange(len(HOMOG))]
        return gen_homog_case(rng, cls, dict(opts), kind="recover")
    if slot == 10:
        return gen_rotx_case(rng, rng.choice([2, 3]), rng.random() < 0.4)
    if slot in (11, 12):
        return gen_tps_case(rng)
    if slot in (13, 14):
        return gen_pwa_case(rng)
    return gen_gpa_case(rng)


def witness_cases():
    """DESIGN section 7 #22: the 7-point probe (notes/probes/p7.py) and the Lean witness of `alignment_error_resync_refuted`"""
    g = np.random.default_rng(6)
    S = g.integers(-6, 7, size=(7, 2)).astype(float)
    T = g.integers(-6, 7, size=(7, 2)).astype(float)
    out = [dict(cls="affine", opts={}, S=S.tolist(), T=T.tolist(), kind="arbitrary", member=None),
           dict(cls="rotation", opts={"mirror": False}, S=S.tolist(), T=T.tolist(), kind="arbitrary", member=None)]
    wS = [[-1.0, -1.0], [-1.0, 1.0], [1.0, -1.0], [1.0, 1.0]]
    wT = [[p[0] + p[0] * p[1], p[1]] for p in wS]
    out.append(dict(cls="affine", opts={}, S=wS, T=wT, kind="arbitrary", member=None))
    return out


def is_nontrivial(case):
    if case["cls"] == "gpa":
        return True
    return not np.array_equal(np.array(case["S"]), np.array(case["T"]))


def run_batch(ctx, cases, prefix="k"):
    lines, pending = [], {}
    for k, case in enumerate(cases):
        cid = "%s%d" % (prefix, k)
        run_case(ctx, case, cid, lines, pending)
        sig = (case["cls"], sorted(case["opts"].items()), case["S"], case["T"])
        smp = None
        if len(ctx.samples) < 6 and k % 3 == 0:
            smp = {"class": CLASSNAME.get(case["cls"], case["cls"]), "options": case["opts"], "kind": case["kind"],
                   "source": case["S"] if case["cls"] != "gpa" else "%d shapes" % len(case["S"]), "target": case["T"]}
        ctx.case(sig, nontrivial=is_nontrivial(case), sample=smp)
    if lines:
        model = common.run_driver(PROP, lines)
        for cid, pend in pending.items():
            try:
                compare(ctx, cid, pend, model)
            except Exception as e:  # a reply the comparison cannot read is a broken tie, not a crash
                ctx.mismatch(pend["case"]["cls"], "model reply unreadable (%s: %s): %r" % (
                    type(e).__name__, e, model.get(cid + ".fit", "")[:200]), rp(pend["case"]))


def search(ctx):
    """directed search after a broken tie: the classes whose correspondence broke (then all), oracle only"""
    rng = ctx.rng
    broken = []
    for op, _, r in ctx.mismatches:
        c = r.get("cls")
        if c and (c, json.dumps(r.get("opts", {}), sort_keys=True)) not in broken:
            broken.append((c, json.dumps(r.get("opts", {}), sort_keys=True)))
    plan = []
    for c, oj in broken:
        plan += [(c, json.loads(oj))] * 400
    plan += [None] * 1200

    class Sink(list):
        def append(self, x):
            pass
    for k, item in enumerate(plan):
        if item is None:
            case = gen_case(rng, k)
        else:
            c, o = item
            if c in ("rotx",):
                case = gen_rotx_case(rng, rng.choice([2, 3]), o.get("mirror", False))
            elif c == "tps":
                case = gen_tps_case(rng)
            elif c == "pwa":
                case = gen_pwa_case(rng)
            elif c == "gpa":
                case = gen_gpa_case(rng)
            else:
                case = gen_homog_case(rng, c, o)
        run_case(ctx, case, "s%d" % k, Sink(), {})
        ctx.searched += 1
        if ctx.failures:
            return True
    return False


def run(ctx):
    common.prepare_lean(ctx, PROP, IMPORTS, THEOREMS)
    ctx.trusted += ["np.linalg.svd contract (checked numerically per case against the model's exact correlation matrix)",
                    "np.linalg.norm / sqrt contract (checked numerically per case against the exact squared norm)",
                    "scipy.spatial.Delaunay returns a conforming triangulation (hypothesis of the PWA theorems)"]
    rng = ctx.rng
    n = ctx.n(1000, 12000)
    cases = witness_cases() + [gen_case(rng, k) for k in range(n)]
    run_batch(ctx, cases)
    return ctx.finish(search)


def replay(ctx, path):
    data = json.load(open(path))
    r = data.get("replay") or (data.get("broken_correspondence") or [{}])[0].get("case", {})
    if "cls" not in r:
        print("replay file carries no case")
        return 2
    case = {k: v for k, v in r.items() if k not in ("python", "reported", "required", "probe")}
    if case["cls"] == "tps" and "probes" not in case:
        case["probes"] = [[0.5, 0.25], [1.0, -2.0], [3.0, 1.5]]
    if case["cls"] == "pwa" and "probes" not in case:
        case["probes"] = [r["probe"]] if "probe" in r else []
    run_batch(ctx, [case], prefix="r")
    ctx.case(("replay", path), nontrivial=True)
    print("replayed %s %s kind=%s: %d oracle failure(s), %d model mismatch(es)" % (
        case["cls"], case["opts"], case.get("kind"), len(ctx.failures), len(ctx.mismatches)))
    for f in ctx.failures[:5]:
        print("  oracle:", f[0], f[1], "-", f[2])
    for m in ctx.mismatches[:5]:
        print("  model :", m[0], "-", m[1][:300])
    return ctx.finish(None)
