"""py2lean2x — generic extensions of harness/py2lean2.py for METHODS: code that calls other methods which may raise
and which mutate their receiver in place (kept in a module of its own so that builders working on py2lean2.py at the
same time are not disturbed; nothing here depends on a property; first user: harness/trans_c02.py).

`Translator2X(Rules2X(...))` is a `Translator2` that additionally translates, in MONADIC mode (`Rules2X.monad`), every
block into a term of a monad M (default `Except`), so that a call which raises ends the function:

  monadic operands     an expression rule flagged "bind" (template : M a) used as an operand is HOISTED into a bind in
                       front of the statement it occurs in, operands in Python's evaluation order
                       `(m).bind fun h_0 => …`; as the value of a `return` it is a tail call and stays as it is.
                       Not under `and` / `or` / conditional expressions / comprehensions / lambdas (Python would not
                       always evaluate it there): untranslatable.
  stmt rules           `(pattern, receiver, template[, "bind"[, new value[, {metavariable: template}]]])`: with "bind" the
                       template is monadic, its result is bound to `{r}` and the receiver is rebound to `new value`
                       (template over the metavariables and `{r}`, default `{r}`); receiver `None`: the statement is
                       run for its effect.  The optional dict binds further variables of the pattern
                       (`$v = $s.method($t)`: the call mutates `$s` AND its value is kept: `{"v": "{r}.2"}`).
  for loops            `forLoopE init xs (fun acc it => … : M state)` (`monad["loop"]`), the state is the tuple of
                       loop-carried variables; `raise` inside the body is the monad's failure; `continue` ends the
                       iteration; `break` / `return` inside a monadic loop are not supported.
  write-back loops     `iters=[(iterable pattern, receiver metavariable, list template, write-back template)]`:
                       `for x in self.items.values(): x.method()` mutates the elements of a container reachable from the
                       receiver.  The loop runs over `List.zipIdx <list>`, the receiver is loop-carried, and at the end of
                       every iteration the (rebound) loop variable is written back:
                       `receiver := <write-back template>({recv}, {i}, {x})`.
  a and b / a or b     whose LATER operands are monadic keep Python's short circuit: the test becomes a monadic Boolean
                       `(if a then (binds of b; ok b) else ok false)`; as the value of `return` / in an `if` test it
                       is bound like any monadic operand.
  comprehensions       `[E for t in IT if C]` whose element `E` may raise -> `mapME (fun it => <binds of E; ok E>) IT`
                       (`monad["mapm"]`, monadic: the first failure ends it); `IT` is evaluated once, in front of the
                       statement (it may be monadic itself: `range(...)` with a zero step); `C` must be pure.  This is
                       the canonical form of the loop `acc = []; for t in IT: acc.append(E)` (lemma
                       `forLoopE_append` of the vocabulary), so loop <-> comprehension rewrites keep the obligations.
  effect loops         with `monad["effects"]` a loop whose body only runs statements for their effect (no variable of
                       the scope is rebound) is translated with the unit state `()`.
  nested def           `def inner(a, b): …` -> `let inner0 : <closures[inner]> := fun a0 b0 => <body>` (a closure over
                       the variables in scope; its body is a block of its own); `inner(x, y)` -> `(inner0 x y)`, or, when
                       the body is one `return <expr>`, that expression with the arguments in place of the parameters
                       (inlined at the call site: closure call <-> the call it wraps).
  try / except         `try: BODY except E: HANDLER` where BODY and HANDLER end in `return` / `raise` on every path
                       (no `else`, no `finally`, no `as`): `tryExcept (BODY) (catch[E]) (HANDLER)` (`monad["tryexc"]`).
  reduce               `reduce(lambda acc, it: E, xs, init)` -> `reduceE (fun acc0 it0 => E) xs init`, monadic.
  x is None            `({x}).isNone` / `({x}).isSome` unless a rule matches first
  import               `import` / `from .. import` inside a function body is dropped
  retx / endx          templates of `return e` (pure `e`) and of falling off the end; may mention python variables of
                       the scope by name (`{self}` = the current Lean name of `self`), `{e}` = the returned expression.
In pure mode (`monad=None`) only nested defs, `is None`, imports and retx / endx are added.
"""
import ast

from .py2lean2 import Rules2, Translator2, _Ctx, _proj, _tuple, Untranslatable, source_ast, match, _pat  # noqa: F401

MONAD_DEFAULT = dict(ok=".ok ({e})", bind="({m}).bind fun {x} =>\n{k}", loop="forLoopE", reduce="reduceE",
                     tryexc="tryExcept", mapm="mapME")


class Rules2X(Rules2):
    def __init__(self, expr=(), stmt=(), iters=(), monad=None, catch=None, closures=None, retx=None, endx=None, **kw):
        stmt = [tuple(s) + ("",) * (6 - len(s)) for s in stmt]
        self.stmt_flag = [s[3] for s in stmt]
        self.stmt_new = [s[4] or "{r}" for s in stmt]
        self.stmt_also = [dict(s[5] or {}) for s in stmt]
        Rules2.__init__(self, expr=expr, stmt=[(s[0], s[1] or "NONE__", s[2]) for s in stmt], **kw)
        self.stmt_effect = [s[1] is None for s in stmt]
        self.iters = [(_pat(p, "expr"), recv, lt, wt) for p, recv, lt, wt in iters]
        self.monad = None
        if monad is not None:
            self.monad = dict(MONAD_DEFAULT)
            self.monad.update(monad)
        self.catch = dict(catch or {})
        self.closures = dict(closures or {})
        self.retx = retx
        self.endx = endx


class Translator2X(Translator2):
    def __init__(self, rules):
        Translator2.__init__(self, rules)
        self._frames = []
        self._nohoist = 0
        self._n = 0

    # ------------------------------------------------------------------------------------------ helpers
    def _num(self):
        self._n += 1
        return self._n - 1

    @staticmethod
    def _fmt(tmpl, scope, **extra):
        env = {k: v for k, v in scope.items() if k.isidentifier()}
        env.update(extra)
        try:
            return tmpl.format(**env)
        except (KeyError, IndexError) as e:
            raise Untranslatable("template %r needs the variable %s" % (tmpl, e))

    def _bind(self, m, x, k, ind):
        return "  " * ind + self.r.monad["bind"].format(m=m, x=x, k=k)

    # ------------------------------------------------------------------------------------------ expressions
    def expr(self, node, scope):
        for i, (pat, tmpl, flag) in enumerate(self.r.expr):
            env = {}
            if match(pat, node, env):
                self.used_rules.add(i)
                return tmpl.format(**{k: self.pure(v, scope) for k, v in env.items()}), flag
        if (isinstance(node, ast.Compare) and len(node.ops) == 1 and isinstance(node.ops[0], (ast.Is, ast.IsNot))
                and isinstance(node.comparators[0], ast.Constant) and node.comparators[0].value is None):
            x = self.pure(node.left, scope)
            return "(%s).%s" % (x, "isSome" if isinstance(node.ops[0], ast.IsNot) else "isNone"), ""
        if (isinstance(node, ast.Call) and isinstance(node.func, ast.Name) and not node.keywords
                and scope.get("\0closure:" + node.func.id)):
            d = scope.get("\0closuredef:" + node.func.id)
            body = [b for b in (d.body if d is not None else [])
                    if not (isinstance(b, ast.Expr) and isinstance(b.value, ast.Constant) and isinstance(b.value.value, str))]
            if (d is not None and len(body) == 1 and isinstance(body[0], ast.Return) and body[0].value is not None
                    and len(d.args.args) == len(node.args) and not any(isinstance(a, ast.Starred) for a in node.args)):
                # a CALL of a one-expression closure is its body with the arguments in place of the parameters (the
                # free variables are those of the call site: Python binds them late).  This is what makes
                # `return transform(x)` and `return self.f(x, k)` (the body of `transform`) one and the same term.
                sc = dict(scope)
                for p_, a in zip(d.args.args, node.args):
                    sc[p_.arg] = self.pure(a, scope)
                return self.expr(body[0].value, sc)
            args = " ".join(self.pure(a, scope) for a in node.args)
            return "(%s %s)" % (scope[node.func.id], args), ("bind" if self.r.monad is not None else "")
        if (isinstance(node, ast.Call) and isinstance(node.func, ast.Name) and node.func.id == "reduce"
                and len(node.args) == 3 and not node.keywords and isinstance(node.args[0], ast.Lambda)):
            lam = node.args[0]
            a = lam.args
            if len(a.args) != 2 or a.vararg or a.kwarg or a.kwonlyargs or a.defaults or a.posonlyargs:
                raise Untranslatable("reduce with a lambda of another shape: `%s`" % ast.unparse(node))
            xs, init = self.pure(node.args[1], scope), self.pure(node.args[2], scope)
            sc = dict(scope)
            names = []
            for p in a.args:
                new = self.fresh(p.arg, sc)
                sc[p.arg] = new
                names.append(new)
            if self.r.monad is None:
                self._nohoist += 1
                try:
                    body, flag = self.expr(lam.body, sc)
                finally:
                    self._nohoist -= 1
                if flag == "bind":
                    raise Untranslatable("monadic reduce in pure mode")
                return "(List.foldl (fun %s => %s) %s %s)" % (" ".join(names), body, init, xs), ""
            # the lambda body is a block of its own: operands that may raise are bound inside it
            saved, self._nohoist = self._nohoist, 0
            self._frames.append([])
            try:
                body, flag = self.expr(lam.body, sc)
            finally:
                pend = self._frames.pop()
                self._nohoist = saved
            if flag != "bind":
                body = self.r.monad["ok"].format(e=body)
            for m, x in reversed(pend):
                body = "(" + self.r.monad["bind"].format(m=m, x=x, k=body).replace("\n", " ") + ")"
            return "(%s (fun %s => %s) %s %s)" % (self.r.monad["reduce"], " ".join(names), body, xs, init), "bind"
        if (isinstance(node, ast.ListComp) and self.r.monad is not None and not self._nohoist and self._frames
                and len(node.generators) == 1 and not node.generators[0].is_async):
            g = node.generators[0]
            it = self.pure(g.iter, scope)                      # evaluated once, before the elements (may be hoisted)
            item = self.fresh("it", scope)
            sc = dict(scope)
            sc["\0tmp" + item] = item
            lines, sc = self.bind_target(g.target, item, sc)
            lets = "".join(l + "; " for l in lines)
            self._nohoist += 1
            try:
                conds = [self.pure(c, sc) for c in g.ifs]
            finally:
                self._nohoist -= 1
            saved, self._nohoist = self._nohoist, 0
            self._frames.append([])
            try:
                body, flag = self.expr(node.elt, sc)
            finally:
                pend = self._frames.pop()
                self._nohoist = saved
            src = it if not conds else "(List.filter (fun %s => %s%s) %s)" % (item, lets, " && ".join(conds), it)
            if not pend and flag != "bind":
                return "(List.map (fun %s => %s%s) %s)" % (item, lets, body, src), ""
            if flag != "bind":
                body = self.r.monad["ok"].format(e=body)
            for m, x in reversed(pend):
                body = "(" + self.r.monad["bind"].format(m=m, x=x, k=body).replace("\n", " ") + ")"
            return "(%s (fun %s => %s%s) %s)" % (self.r.monad["mapm"], item, lets, body, src), "bind"
        if isinstance(node, (ast.BoolOp, ast.IfExp)):
            if isinstance(node, ast.BoolOp):
                is_and = isinstance(node.op, ast.And)
                first = self.pure(node.values[0], scope)
                if self.r.monad is None or self._nohoist or not self._frames:
                    self._nohoist += 1
                    try:
                        parts = [first] + [self.pure(v, scope) for v in node.values[1:]]
                    finally:
                        self._nohoist -= 1
                    return "(" + (" && " if is_and else " || ").join(parts) + ")", ""
                later = []
                for v in node.values[1:]:
                    self._frames.append([])
                    try:
                        e = self.pure(v, scope)
                    finally:
                        pend = self._frames.pop()
                    later.append((e, pend))
                if not any(p for _e, p in later):
                    return "(" + (" && " if is_and else " || ").join([first] + [e for e, _p in later]) + ")", ""
                ok = self.r.monad["ok"]

                def binds(pend, text):
                    for m, x in reversed(pend):
                        text = "(" + self.r.monad["bind"].format(m=m, x=x, k=text).replace("\n", " ") + ")"
                    return text
                acc = binds(later[-1][1], ok.format(e=later[-1][0]))
                for e, pend in reversed(later[:-1]):
                    inner = ("(if %s then %s else %s)" % (e, acc, ok.format(e="false")) if is_and else
                             "(if %s then %s else %s)" % (e, ok.format(e="true"), acc))
                    acc = binds(pend, inner)
                text = ("(if %s then %s else %s)" % (first, acc, ok.format(e="false")) if is_and else
                        "(if %s then %s else %s)" % (first, ok.format(e="true"), acc))
                return text, "bind"
            c = self.pure(node.test, scope)
            self._nohoist += 1
            try:
                a, b = self.pure(node.body, scope), self.pure(node.orelse, scope)
            finally:
                self._nohoist -= 1
            return "(if %s then %s else %s)" % (c, a, b), ""
        return Translator2.expr(self, node, scope)

    def pure(self, node, scope):
        e, flag = self.expr(node, scope)
        if flag == "bind":
            if self.r.monad is None or self._nohoist or not self._frames:
                raise Untranslatable("monadic expression where it cannot be hoisted: `%s`" % ast.unparse(node))
            tmp = "h_%d" % self._num()
            self._frames[-1].append((e, tmp))
            return tmp
        return e

    def comprehension(self, node, scope, kind):
        self._nohoist += 1
        try:
            return Translator2.comprehension(self, node, scope, kind)
        finally:
            self._nohoist -= 1

    # ------------------------------------------------------------------------------------------ statements
    def assigned_names(self, stmts):
        """as Translator2.assigned_names; effect-only stmt rules bind nothing; nested defs and try bodies are walked"""
        out = []

        def add(n):
            if n not in out:
                out.append(n)

        def tgt(t):
            if isinstance(t, ast.Name):
                add(t.id)
            elif isinstance(t, (ast.Tuple, ast.List)):
                for e in t.elts:
                    tgt(e)

        def walk(sts):
            for st in sts:
                matched = False
                for i, (pat, recv, _t) in enumerate(self.r.stmt):
                    env = {}
                    if match(pat, st, env):
                        if not self.r.stmt_effect[i] and isinstance(env.get(recv), ast.Name):
                            add(env[recv].id)
                        for mv in self.r.stmt_also[i]:
                            if isinstance(env.get(mv), ast.Name):
                                add(env[mv].id)
                        matched = True
                        break
                if matched:
                    continue
                if isinstance(st, ast.Assign):
                    for t in st.targets:
                        tgt(t)
                elif isinstance(st, ast.AugAssign):
                    tgt(st.target)
                elif isinstance(st, ast.If):
                    walk(st.body)
                    walk(st.orelse)
                elif isinstance(st, ast.For):
                    tgt(st.target)
                    walk(st.body)
                elif isinstance(st, ast.Try):
                    walk(st.body)
                    for h in st.handlers:
                        walk(h.body)
                elif isinstance(st, ast.FunctionDef):
                    add(st.name)
                elif isinstance(st, (ast.While, ast.With, ast.ClassDef)):
                    raise Untranslatable("statement form `%s`" % ast.unparse(st).splitlines()[0])
        walk(stmts)
        return out

    def block(self, stmts, scope, ind, ctx):
        if not stmts:
            return ctx.end(scope, ind)
        frame = []
        self._frames.append(frame)
        try:
            text = self._block1(stmts, dict(scope), ind, ctx)
        finally:
            self._frames.pop()
        for e, tmp in reversed(frame):
            text = self._bind(e, tmp, text, ind)
        return text

    @staticmethod
    def _terminal(stmts):
        """every path through the statements ends in return / raise"""
        if not stmts:
            return False
        st = stmts[-1]
        if isinstance(st, (ast.Return, ast.Raise)):
            return True
        if isinstance(st, ast.If):
            return Translator2X._terminal(st.body) and Translator2X._terminal(st.orelse)
        if isinstance(st, ast.Try):
            return Translator2X._terminal(st.body) and all(Translator2X._terminal(h.body) for h in st.handlers)
        return False

    def _block1(self, stmts, scope, ind, ctx):
        pad = "  " * ind
        st, rest = stmts[0], stmts[1:]
        if isinstance(st, (ast.Import, ast.ImportFrom)):
            return self.block(rest, scope, ind, ctx)
        if isinstance(st, ast.Continue) and getattr(ctx, "cont", None) is not None:
            return ctx.cont(scope, ind)
        if isinstance(st, ast.Return):
            if st.value is None:
                tmpl = self.r.endx if self.r.endx is not None else self.r.end
                if tmpl is None:
                    raise Untranslatable("bare return")
                return ctx.exit(self._fmt(tmpl, scope), scope, ind)
            e, flag = self.expr(st.value, scope)
            if flag == "bind":
                return ctx.exit(e, scope, ind)              # tail call
            tmpl = self.r.retx if self.r.retx is not None else self.r.ret
            return ctx.exit(self._fmt(tmpl, scope, e=e), scope, ind)
        if isinstance(st, ast.FunctionDef):
            return self._nested_def(st, rest, scope, ind, ctx)
        if isinstance(st, ast.Try):
            return self._try(st, rest, scope, ind, ctx)
        for i, (pat, recv, tmpl) in enumerate(self.r.stmt):
            env = {}
            if match(pat, st, env) and (self.r.stmt_flag[i] == "bind" or self.r.stmt_effect[i]):
                self.used_rules.add(("s", i))
                if self.r.monad is None:
                    raise Untranslatable("monadic statement rule in pure mode: `%s`" % ast.unparse(st))
                also = self.r.stmt_also[i]
                for mv in also:
                    if not isinstance(env.get(mv), ast.Name):
                        raise Untranslatable("value of an in-place call bound to a non-variable: `%s`" % ast.unparse(st))
                vals = {k: self.pure(v, scope) for k, v in env.items() if k not in also}
                m = tmpl.format(**vals)
                r = "r_%d" % self._num()
                if self.r.stmt_effect[i]:
                    return self._bind(m, "_" + r, self.block(rest, scope, ind, ctx), ind)
                target = env.get(recv)
                if not isinstance(target, ast.Name):
                    raise Untranslatable("in-place statement on a non-variable: `%s`" % ast.unparse(st))
                new = self.fresh(target.id, scope)
                val = self.r.stmt_new[i].format(r=r, **vals)
                sc = dict(scope)
                sc[target.id] = new
                lets = "%slet %s := %s\n" % (pad, new, val)
                for mv, t2 in also.items():
                    nm = self.fresh(env[mv].id, sc)
                    sc[env[mv].id] = nm
                    lets += "%slet %s := %s\n" % (pad, nm, t2.format(r=r, **vals))
                return self._bind(m, r, lets + self.block(rest, sc, ind, ctx), ind)
        if isinstance(st, ast.For) and self.r.monad is not None:
            return self._loop_m(st, rest, scope, ind, ctx)
        return Translator2.block(self, stmts, scope, ind, ctx)

    def _nested_def(self, st, rest, scope, ind, ctx):
        pad = "  " * ind
        a = st.args
        if a.vararg or a.kwarg or a.kwonlyargs or a.defaults or a.posonlyargs or st.decorator_list:
            raise Untranslatable("nested def with a non-trivial signature: `%s`" % st.name)
        sc = dict(scope)
        params = []
        for p in a.args:
            new = self.fresh(p.arg, sc)
            sc[p.arg] = new
            params.append(new)
        self._frames.append([])          # a closure body never hoists into the enclosing statement
        try:
            body = self.block(list(st.body), sc, ind + 2, self.top_ctx())
        finally:
            self._frames.pop()
        name = self.fresh(st.name, scope)
        ty = self.r.closures.get(st.name)
        after = dict(scope)
        after[st.name] = name
        after["\0closure:" + st.name] = name
        after["\0closuredef:" + st.name] = st
        head = "%slet %s%s := fun %s =>\n%s\n" % (pad, name, " : " + ty if ty else "", " ".join(params) or "_", body)
        return head + self.block(rest, after, ind, ctx)

    def _try(self, st, rest, scope, ind, ctx):
        pad = "  " * ind
        if self.r.monad is None:
            raise Untranslatable("try / except in pure mode")
        if st.orelse or st.finalbody or len(st.handlers) != 1:
            raise Untranslatable("try with else / finally / several handlers")
        h = st.handlers[0]
        if h.name is not None or h.type is None:
            raise Untranslatable("except clause `%s`" % ast.unparse(h).splitlines()[0])
        cname = h.type.id if isinstance(h.type, ast.Name) else h.type.attr if isinstance(h.type, ast.Attribute) else None
        if cname not in self.r.catch:
            raise Untranslatable("except %s" % ast.unparse(h.type))
        if not (self._terminal(list(st.body)) and self._terminal(list(h.body))):
            raise Untranslatable("try / except whose arms do not all end in return / raise")
        if ctx.brk is not None:
            raise Untranslatable("try / except inside a loop")
        body = self.block(list(st.body), scope, ind + 2, ctx)
        hand = self.block(list(h.body), scope, ind + 2, ctx)
        return "%s%s (\n%s\n%s) %s (\n%s\n%s)" % (pad, self.r.monad["tryexc"], body, "  " * (ind + 1), self.r.catch[cname],
                                                hand, "  " * (ind + 1))

    def _loop_m(self, st, rest, scope, ind, ctx):
        pad = "  " * ind
        if st.orelse:
            raise Untranslatable("for/else")
        if self._has(st.body, (ast.Return, ast.Break), True):
            raise Untranslatable("break / return inside a monadic loop")
        wb = None
        for pat, recv, lt, wt in self.r.iters:
            env = {}
            if match(pat, st.iter, env):
                rnode = env.get(recv)
                if not isinstance(rnode, ast.Name) or rnode.id not in scope:
                    raise Untranslatable("write-back loop over a non-variable: `%s`" % ast.unparse(st.iter))
                if not isinstance(st.target, ast.Name):
                    raise Untranslatable("write-back loop with a pattern target: `%s`" % ast.unparse(st.target))
                vals = {k: self.pure(v, scope) for k, v in env.items()}
                wb = (rnode.id, wt, vals)
                it = "(List.zipIdx %s)" % lt.format(**vals)
                break
        else:
            it = self.pure(st.iter, scope)
        carried = [n for n in self.assigned_names(st.body) if n in scope]
        if wb and wb[0] not in carried:
            carried.append(wb[0])
        if not carried and not self.r.monad.get("effects"):
            raise Untranslatable("loop without any effect on the variables in scope: `%s`"
                                 % ast.unparse(st).splitlines()[0])
        n = len(carried)
        sc0 = dict(scope)
        acc = self.fresh("acc", sc0)
        sc0["\0tmp" + acc] = acc
        item = self.fresh("it", sc0)
        sc0["\0tmp" + item] = item
        lines, sc = [], dict(sc0)
        for c in carried:
            new = self.fresh(c, sc)
            sc[c] = new
            lines.append("let %s := %s" % (new, _proj(acc, carried.index(c), n)))
        tl, sc = self.bind_target(st.target, item + ".1" if wb else item, sc)
        lines += tl
        ok = self.r.monad["ok"]

        def end(scope_, i):
            p = "  " * i
            if wb:
                recv, wt, vals = wb
                new = self.fresh(recv, scope_)
                v = dict(vals)
                v.update(i=item + ".2", x=scope_[st.target.id])
                v["recv"] = scope_[recv]
                s2 = dict(scope_)
                s2[recv] = new
                return "%slet %s := %s\n%s%s" % (p, new, wt.format(**v), p,
                                                 ok.format(e=_tuple([s2[c] for c in carried])))
            return p + ok.format(e=_tuple([scope_[c] for c in carried]) if carried else "()")

        inner = _Ctx(exit_=lambda v, s, i: "  " * i + v, end=end, brk=None)
        inner.cont = end
        body = self.block(list(st.body), sc, ind + 2, inner)
        p3 = "  " * (ind + 2)
        text = "".join(p3 + l + "\n" for l in lines) + body
        res = "r_%d" % self._num()
        after = dict(scope)
        out = ""
        for c in carried:
            new = self.fresh(c, after)
            after[c] = new
            out += "%slet %s := %s\n" % (pad, new, _proj(res, carried.index(c), n))
        k = out + self.block(rest, after, ind, ctx)
        m = "%s %s %s (fun %s %s =>\n%s)" % (self.r.monad["loop"], _tuple([scope[c] for c in carried]) if carried else "()",
                                              it, acc, item, text)
        return self._bind(m, res, k, ind)

    def top_ctx(self):
        def end(scope, ind):
            tmpl = self.r.endx if self.r.endx is not None else self.r.end
            if tmpl is None:
                raise Untranslatable("control reaches the end of the function without return/raise")
            return "  " * ind + self._fmt(tmpl, scope)
        return _Ctx(exit_=lambda v, s, i: "  " * i + v, end=end)
