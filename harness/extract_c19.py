"""C19 — regenerated tables: argument dispatch of LazyList.__getitem__ / map / __add__ measured on the live code
(features the code tests + what CPython's list does with the argument + observed outcome + how many element
callables the call invoked), and the receiver-attribute write table.  -> lean/MenpoModel/Generated/C19Tables.lean
"""
import collections.abc as cabc

GEN_FILE = "MenpoModel/Generated/C19Tables.lean"
TARGETS = ["MenpoModel.Generated.C19Tables", "MenpoModel.GenProps.C19"]
OBLIGATIONS = ["getitem_dispatch_ok", "getitem_catalogue_ok", "getitem_lazy_ok", "map_dispatch_ok",
               "map_catalogue_ok", "add_dispatch_ok", "add_catalogue_ok", "receiver_writes_ok"]
N_OBLIGATIONS = len(OBLIGATIONS)

N = 4   # length of the probed list


class _CallIter(list):
    def __call__(self, x):
        return x


def getitem_catalogue():
    import numpy as np
    return [
        ("py_int", lambda: 2), ("py_int_neg", lambda: -1), ("py_int_oob", lambda: N), ("py_int_oob_neg", lambda: -N - 1),
        ("py_bool", lambda: True), ("np_int64", lambda: np.int64(1)), ("np_int32_neg", lambda: np.int32(-2)),
        ("np_uint8", lambda: np.uint8(3)), ("np_int64_oob", lambda: np.int64(9)),
        ("zero_d_int_array", lambda: np.array(2)), ("zero_d_float_array", lambda: np.array(2.0)),
        ("list", lambda: [0, 2]), ("list_empty", lambda: []), ("list_neg", lambda: [-1, -N]), ("list_oob", lambda: [0, N]),
        ("tuple", lambda: (1, 1)), ("ndarray_int", lambda: np.array([3, 0])), ("ndarray_empty", lambda: np.array([], dtype=int)),
        ("ndarray_uint8", lambda: np.array([1, 2], dtype=np.uint8)), ("generator", lambda: (i for i in [2, 1])),
        ("range", lambda: range(1, 3)), ("set", lambda: {1}), ("dict", lambda: {1: 2}),
        ("list_of_py_bool", lambda: [True, False]), ("list_of_np_int", lambda: [np.int32(1), np.int64(-1)]),
        ("np_bool_array", lambda: np.array([True, False, True, False])), ("np_bool_array_empty", lambda: np.array([], dtype=bool)),
        ("np_bool_scalar", lambda: np.True_), ("float_array", lambda: np.array([1.0])),
        ("array_2d", lambda: np.array([[0, 1], [2, 3]])), ("nested_list", lambda: [[0, 1]]),
        ("str", lambda: "ab"), ("str_empty", lambda: ""),
        ("slice_all", lambda: slice(None)), ("slice_neg_step", lambda: slice(None, None, -2)),
        ("slice_np_bounds", lambda: slice(np.int64(1), np.int64(3))), ("slice_oob", lambda: slice(-9, 9)),
        ("slice_step0", lambda: slice(None, None, 0)), ("slice_float", lambda: slice(1.0, None)),
        ("float", lambda: 1.5), ("np_float64", lambda: np.float64(1.0)), ("none", lambda: None), ("ellipsis", lambda: Ellipsis),
    ]


def _exc_kind(e):
    if isinstance(e, IndexError):
        return "indexErr"
    if isinstance(e, TypeError):
        return "typeErr"
    if isinstance(e, ValueError):
        return "valueErr"
    return "other:" + type(e).__name__


def _probe_list():
    from menpo.base import LazyList
    log = []

    def g(i):
        log.append(i)
        return 10 + i
    return LazyList.init_from_index_callable(g, N), log, [10 + i for i in range(N)]


def getitem_rows():
    from menpo.base import LazyList
    rows = []
    for name, mk in getitem_catalogue():
        ll, log, plain = _probe_list()
        x = mk()
        feat = dict(iterable=isinstance(x, cabc.Iterable), isInt=isinstance(x, int), hasIndex=hasattr(x, "__index__"),
                    zeroDim=(getattr(x, "ndim", None) == 0), iterRaises=False, itemsOk=True, itemsIndexErr=False)
        if feat["iterable"]:
            try:
                items = list(iter(mk()))
            except TypeError:
                items, feat["iterRaises"], feat["itemsOk"] = [], True, False
            for it in items:
                try:
                    plain[it]
                except Exception as e:      # noqa: BLE001
                    feat["itemsOk"] = False
                    feat["itemsIndexErr"] = isinstance(e, IndexError)
                    break
        else:
            feat["itemsOk"] = False
        try:
            r = plain[mk()]
            feat["listAcc"] = "slice" if isinstance(r, list) else "index"
        except Exception as e:      # noqa: BLE001
            feat["listAcc"] = _exc_kind(e)
        try:
            r = ll[mk()]
            obs = "newList" if isinstance(r, LazyList) else "element"
        except Exception as e:      # noqa: BLE001
            obs = {"indexErr": "indexError", "typeErr": "typeError", "valueErr": "valueError"}.get(_exc_kind(e), _exc_kind(e))
        rows.append(dict(name=name, feat=feat, observed=obs, evaluated=len(log)))
    return rows


def map_catalogue():
    import numpy as np
    f = lambda x: x
    return [
        ("function", lambda: f), ("builtin_type", lambda: int), ("list_of_n", lambda: [f] * N), ("tuple_of_n", lambda: (f,) * N),
        ("list_short", lambda: [f] * (N - 1)), ("list_long", lambda: [f] * (N + 1)), ("list_empty", lambda: []),
        ("generator_of_n", lambda: (f for _ in range(N))), ("callable_iterable", lambda: _CallIter([f] * N)),
        ("int", lambda: 5), ("none", lambda: None), ("str_of_n", lambda: "a" * N), ("str_short", lambda: "ab"),
        ("ndarray_of_n", lambda: np.arange(N)), ("dict_of_n", lambda: {i: f for i in range(N)}),
    ]


def map_rows():
    from menpo.base import LazyList
    rows = []
    for name, mk in map_catalogue():
        ll, log, _ = _probe_list()
        x = mk()
        feat = dict(iterable=isinstance(x, cabc.Iterable), callable=callable(x), hasLen=False, lenMatches=False)
        try:
            feat["hasLen"] = True
            feat["lenMatches"] = (len(x) == len(ll))
        except TypeError:
            feat["hasLen"] = False
        try:
            r = ll.map(mk())
            parts = [c for c in r._callables]
            # each / single are told apart by the function object the element callables hold
            fs = [getattr(c, "args", (None,))[0] for c in parts]
            obs = "single" if all(a is fs[0] for a in fs) and not feat["iterable"] else "each"
            if not isinstance(r, LazyList) or len(r) != len(ll):
                obs = "other:shape"
        except Exception as e:      # noqa: BLE001
            obs = {"typeErr": "typeError", "valueErr": "valueError"}.get(_exc_kind(e), _exc_kind(e))
        rows.append(dict(name=name, feat=feat, observed=obs, evaluated=len(log)))
    return rows


def add_catalogue():
    import numpy as np
    return [
        ("lazy_list", lambda ll: _probe_list()[0]), ("itself", lambda ll: ll), ("list", lambda ll: [1, 2]), ("list_empty", lambda ll: []),
        ("tuple", lambda ll: (1, 2)), ("generator", lambda ll: (i for i in [1, 2])), ("str", lambda ll: "ab"), ("dict", lambda ll: {1: 2}),
        ("ndarray", lambda ll: np.array([5, 6])), ("range", lambda ll: range(2)), ("int", lambda ll: 5), ("none", lambda ll: None),
        ("float", lambda ll: 1.5),
    ]


def add_rows():
    from menpo.base import LazyList
    rows = []
    for name, mk in add_catalogue():
        ll, log, _ = _probe_list()
        x = mk(ll)
        feat = dict(isLazy=isinstance(x, LazyList), iterable=isinstance(x, cabc.Iterable))
        try:
            n_other = len(x) if hasattr(x, "__len__") else 2
            r = ll + x
            if not isinstance(r, LazyList) or len(r) != len(ll) + n_other:
                obs = "other:shape"
            elif feat["isLazy"] and all(a is b for a, b in zip(r._callables[len(ll):], x._callables)):
                obs = "concat"
            else:
                obs = "wrap"
        except Exception as e:      # noqa: BLE001
            obs = {"typeErr": "typeError", "valueErr": "valueError"}.get(_exc_kind(e), _exc_kind(e))
        rows.append(dict(name=name, feat=feat, observed=obs, evaluated=len(log)))
    return rows


def live_tables(write_table):
    return dict(getitem=getitem_rows(), map=map_rows(), add=add_rows(), writes=write_table)


def _b(x):
    return "true" if x else "false"


def _s(x):
    return '"%s"' % str(x).replace("\\", "\\\\").replace('"', '\\"')


def _ctor(x, allowed):
    # an outcome the model has no constructor for is emitted as an identifier that does not exist: the generated
    # file then fails to build, which is recorded as a broken obligation (never an infrastructure error)
    return "." + x if x in allowed else ".unmodelled_" + "".join(c if c.isalnum() else "_" for c in x)


def generated_text(t):
    g = []
    for r in t["getitem"]:
        f = r["feat"]
        g.append("⟨%s, ⟨%s, %s, %s, %s, %s, %s, %s, %s⟩, %s, %d⟩" % (
            _s(r["name"]), _b(f["iterable"]), _b(f["isInt"]), _b(f["hasIndex"]), _b(f["zeroDim"]), _b(f["iterRaises"]),
            _b(f["itemsOk"]), _b(f["itemsIndexErr"]),
            _ctor(f["listAcc"], ("index", "slice", "typeErr", "valueErr", "indexErr")),
            _ctor(r["observed"], ("element", "newList", "typeError", "valueError", "indexError")), r["evaluated"]))
    m = []
    for r in t["map"]:
        f = r["feat"]
        m.append("⟨%s, ⟨%s, %s, %s, %s⟩, %s, %d⟩" % (
            _s(r["name"]), _b(f["iterable"]), _b(f["callable"]), _b(f["hasLen"]), _b(f["lenMatches"]),
            _ctor(r["observed"], ("each", "single", "valueError", "typeError")), r["evaluated"]))
    a = []
    for r in t["add"]:
        f = r["feat"]
        a.append("⟨%s, ⟨%s, %s⟩, %s, %d⟩" % (_s(r["name"]), _b(f["isLazy"]), _b(f["iterable"]),
                                              _ctor(r["observed"], ("concat", "wrap", "valueError")), r["evaluated"]))
    w = ["(%s, [%s])" % (_s(k), ", ".join(_s(x) for x in v)) for k, v in sorted(t["writes"].items())]
    sep = ",\n   "
    return ("/- REGENERATED by harness/c19.py (harness/extract_c19.py) from the live menpo code on every run.  For a catalogue\n"
            "   of argument kinds: the features LazyList.__getitem__ / map / __add__ test, what CPython's list does with the\n"
            "   argument, the observed outcome, and how many element callables the call invoked; and for every operation the\n"
            "   instance attributes of the receiver (or of the other operand) it wrote.  Do not edit. -/\n"
            "import MenpoModel.Core.C19Dispatch\n\nnamespace MenpoModel.Generated.C19\nopen MenpoModel.LazyList\n\n"
            "def getitemRows : List GetRow :=\n  [%s]\n\n"
            "def mapRows : List MapRow :=\n  [%s]\n\n"
            "def addRows : List AddRow :=\n  [%s]\n\n"
            "def receiverWrites : List (String × List String) :=\n  [%s]\n\n"
            "end MenpoModel.Generated.C19\n" % (sep.join(g), sep.join(m), sep.join(a), sep.join(w)))
