"""C06 — the vocabulary of the source-to-Lean translation (harness/py2lean2s.py on top of harness/py2lean2.py).

On every run of `./check C06` the SOURCE TEXT of the working tree's

    Copyable.copy, LazyList.copy                       menpo/base.py
    LandmarkManager.copy                               menpo/landmark/base.py
    LabelledPointUndirectedGraph.copy                  menpo/shape/labelled.py
    HomogFamilyAlignment.copy                          menpo/transform/homogeneous/base.py
    LandmarkManager.__init__ / __setitem__ / __getitem__ / __delitem__ / __len__ / n_groups / has_landmarks /
        group_labels / n_dims / copy / _transform_inplace, Landmarkable.landmarks (setter)
                                                       menpo/landmark/base.py     (on the manager world)
    LandmarkManager.__init__, Landmarkable.landmarks (getter: the lazily created manager)
                                                       menpo/landmark/base.py     (on the heap)

is translated statement by statement into `lean/MenpoModel/Generated/C06Src.lean` (committed in its unchanged-tree
state); `lean/MenpoModel/GenProps/C06Src.lean` (hand-written) proves every translated body equal, for all arguments, to
the hand-written model the C06 theorems are about.  The Lean operations the rules map Python expressions to are in
`lean/MenpoModel/Core/C06Src.lean`.

A function whose source has no translation any more (`Untranslatable`) gets a stub body for which the equality is
false, so the obligation breaks (never a crash)."""
import os

from . import py2lean2s as S
from .py2lean2 import translate_or_stub

GEN_REL = os.path.join("MenpoModel", "Generated", "C06Src.lean")
GEN_MODULE = "MenpoModel.Generated.C06Src"
OBL_MODULE = "MenpoModel.GenProps.C06Src"
GEN_TARGETS = [GEN_MODULE, OBL_MODULE]

# the equality obligations of GenProps/C06Src.lean (one per translated function, plus the assembled `copy`)
OBLIGATIONS = [
    "copyableCopy_eq", "landmarkManagerCopy_eq", "labelledCopy_eq", "lazyListCopy_eq", "homogAlignCopy_eq",
    "srcCopyObj_eq", "lmInitHeap_eq", "landmarksGetter_eq", "landmarksGetter_noop",
    "lmNGroups_eq", "lmLen_eq", "lmHasLandmarks_eq", "lmGroupLabels_eq", "lmNDims_eq", "lmSetItem_eq",
    "lmGetItem_eq", "lmDelItem_eq", "lmCopy_eq", "lmTransformInplace_eq", "lmInit_eq", "setLandmarks_eq",
    "srcStep_eq",
]
N_OBLIGATIONS = len(OBLIGATIONS)
N_FUNCTIONS = 19

# theorems of GenProps/C06Src.lean that restate property theorems for the TRANSLATED methods (axiom-audited when the
# obligations hold)
SRC_THEOREMS = [
    "MenpoModel.C06.SrcProps." + t for t in OBLIGATIONS
] + ["MenpoModel.C06.SrcProps." + t for t in (
    "copy_preserves_pyDict", "src_copy_equal", "src_copy_independent", "src_copy_total",
    "src_lm_refines_ordered_map", "src_keys_order", "src_get_none_iff_single", "src_assign_stores_copy",
    "src_copy_mgr_equal_independent", "src_xform_refines", "src_observers_refine",
    "src_run_eq", "src_reachable_inv", "src_one_dimensionality", "src_set_stores_copy")] + [
    "MenpoModel.C06.pyDict_of_pyDictB"]

DEEPENED = ["_landmark_groups", "_labels_to_masks"]


def _super_copy_is_copyable(owner):
    """does `super().copy()` inside a method of `owner` resolve to Copyable.copy (live MRO)?"""
    from menpo.base import Copyable
    for c in owner.__mro__[1:]:
        if "copy" in c.__dict__:
            return c is Copyable
    return False


def heap_rules(deepens=None, owner=None):
    """the five `copy` methods: the world is the heap, `self` a `Src.SelfObj`, the object built a `Src.PObj`"""
    expr = []
    if owner is not None and _super_copy_is_copyable(owner):
        # `super().copy()` / `super(K, self).copy()` is `Copyable.copy(self)` when the live MRO says so
        expr += [("super().copy()", "(copyableCopy rec {STATE} self)", "bindstate"),
                 ("super(%s, $s).copy()" % owner.__name__, "(copyableCopy rec {STATE} {s})", "bindstate")]
    expr += [
        ("$s.__class__", "{s}.cls"),
        ("type($s)", "{s}.cls"),                        # one rule per call / attribute: `cls = self.__class__;
        ("$c.__new__($c)", "(Src.newOf {c})"),              # new = cls.__new__(cls)` and the one-liner are the same
        ("$s.__dict__.items()", "{s}.fs"),
        ("$s.__dict__.copy()", "{s}.fs"),
        ("Copyable.copy($s)", "(copyableCopy rec {STATE} {s})", "bindstate"),
        ("self._callables", '(Src.selfAttr self "_callables")', "bind"),
        ("self._h_matrix", '(Src.selfAttr self "_h_matrix")', "bind"),
        ("$n._h_matrix", '(Src.getAttr {n} "_h_matrix")', "bind"),
        ("list($x)", "(Src.listCopy {STATE} {x})", "bindstate"),
        ("$x[:]", "(Src.listCopy {STATE} {x})", "bindstate"),      # a full slice of a list is a new list as well
    ]
    stmt = [
        ("$n.__dict__[$k] = $v", "n", "(Src.setAttr {n} {k} {v})"),
        ("$n.__dict__ = $d", "n", "(Src.withDict {n} {d})"),
        ("$n._callables = $v", "n", '(Src.setAttr {n} "_callables" {v})'),
        ("$n._h_matrix = $v", "n", '(Src.setAttr {n} "_h_matrix" {v})'),
    ]
    for x in DEEPENED:
        expr.append(("$n.%s.items()" % x, '(Src.itemsOf {STATE} {n} "%s")' % x, "bind"))
        stmt.append(("$n.%s[$k] = $v" % x, "n", '(Src.setItem {STATE} {n} "%s" {k} {v})' % x))
    expr.append(("$v.copy()", "(Src.callCopy rec {STATE} {v})", "bindstate"))
    ret = ".ok ({e}, {STATE})" if deepens is None else '.ok (Src.sealOver {STATE} {e} "%s", {STATE})' % deepens
    # TypeError: the heap model has no such failure (`.copy()` fails with AttributeError or not at all), so naming it
    # in the `except` next to AttributeError changes nothing in the model
    return S.Rules2S(expr=expr, stmt=stmt, ret=ret, catch={"AttributeError": ".error .attr", "TypeError": None},
                     state_name="h",
                     alias_attrs=DEEPENED)


EXC = {"ValueError": ".error .valueError", "KeyError": ".error .keyError", "AttributeError": ".error .attributeError"}


def world_rules(expr=(), stmt=(), ret="{e}", end=None):
    """the manager: the world is the `LM.World`, `self` the index of the manager (or of the owner)"""
    common_expr = [
        ("$s._landmark_groups.values()", "(LM.Mgr.addrs (Src.groups {STATE} {s}))"),
        ("$s._landmark_groups.keys()", "(LM.Mgr.keys (Src.groups {STATE} {s}))"),
        ("$s._landmark_groups.items()", "(Src.groups {STATE} {s})"),
        ("$s._landmark_groups[$g]", "(Src.dictGet (Src.groups {STATE} {s}) {g})", "bind"),
        ("$s._landmark_groups", "(Src.groups {STATE} {s})"),
        ("$s.n_groups", "(lmNGroups {STATE} {s})"),
        ("$s.group_labels", "(lmGroupLabels {STATE} {s})"),
        ("len($x)", "({x}).length"),
        ("$x[0]", "(List.head? {x})"),
    ]
    return S.Rules2S(expr=list(expr) + common_expr, stmt=stmt, ret=ret, end=end, raise_=None, raise_by=EXC,
                     state_name="w", alias_attrs=["_landmark_groups"])


HEADER = """/- TRANSLATED by harness/trans_c06.py (harness/py2lean2s.py) from the SOURCE TEXT of the working tree's
   Copyable.copy, LazyList.copy, LandmarkManager.copy, LabelledPointUndirectedGraph.copy, HomogFamilyAlignment.copy
   (on the heap of Core/C06Heap.lean) and LandmarkManager.__init__ / __setitem__ / __getitem__ / __delitem__ / __len__ /
   n_groups / has_landmarks / group_labels / n_dims / copy / _transform_inplace, Landmarkable.landmarks setter (on the
   world of Core/C06Landmarks.lean), LandmarkManager.__init__ and the Landmarkable.landmarks getter (on the heap)
   on every run of `./check C06`; do not edit.  The vocabulary is Core/C06Src.lean;
   GenProps/C06Src.lean proves every definition equal to the hand-written model. -/
import MenpoModel.Core.C06Src

set_option linter.unusedVariables false

namespace MenpoModel.C06.GenSrc
open MenpoModel.C06
"""

FOOTER = "end MenpoModel.C06.GenSrc\n"


def items():
    from menpo.base import Copyable, LazyList
    from menpo.landmark.base import LandmarkManager, Landmarkable
    from menpo.shape.labelled import LabelledPointUndirectedGraph
    from menpo.transform.homogeneous.base import HomogFamilyAlignment

    out = []

    def heap(name, fn, deepens=None, owner=None):
        sig = ("def %s (rec : Src.Rec) (h : Heap) (self : Src.SelfObj) : Except MenpoModel.C06.Err (Src.PObj × Heap) :="
               % name)
        out.append((sig, lambda: S.Translator2S(heap_rules(deepens, owner)).function(
            fn, {"self": "self", S.STATE: "h"}, ind=1), "  .error .unknown"))

    heap("copyableCopy", Copyable.__dict__["copy"])
    heap("landmarkManagerCopy", LandmarkManager.__dict__["copy"], "_landmark_groups", LandmarkManager)
    heap("labelledCopy", LabelledPointUndirectedGraph.__dict__["copy"], "_labels_to_masks",
         LabelledPointUndirectedGraph)
    heap("lazyListCopy", LazyList.__dict__["copy"], None, LazyList)
    heap("homogAlignCopy", HomogFamilyAlignment.__dict__["copy"])

    # the lazily created manager: LandmarkManager.__init__ on the object under construction, the getter on the heap
    init_rules = S.Rules2S(
        expr=[("OrderedDict()", "(Src.newDict {STATE})", "state")],
        stmt=[("super(LandmarkManager, $s).__init__()", "s", "{s}"),
              ("$s._landmark_groups = $v", "s", '(Src.setAttr {s} "_landmark_groups" {v})')],
        end="({self}, {STATE})", state_name="h")
    out.append(("def lmInitHeap (h : Heap) (self : Src.PObj) : Src.PObj × Heap :=",
                lambda: S.Translator2S(init_rules).function(LandmarkManager.__dict__["__init__"],
                                                             {"self": "self", S.STATE: "h"}, ind=1),
                "  (self, h)"))
    getter_rules = S.Rules2S(
        expr=[("$s._landmarks is None", '(Src.attrIsNone {STATE} {s} "_landmarks")'),
              ("$s._landmarks is not None", '(!Src.attrIsNone {STATE} {s} "_landmarks")'),
              ("LandmarkManager()", "(Src.construct Src.lmClass lmInitHeap {STATE})", "state"),
              ("$s._landmarks", '(Src.attrAt {STATE} {s} "_landmarks")', "bind")],
        stmt=[("$s._landmarks = $v", None, '(Src.setAttrAt {STATE} {s} "_landmarks" {v})', "state")],
        ret=".ok ({e}, {STATE})", state_name="h")
    out.append(("def landmarksGetter (h : Heap) (self : Nat) : Except MenpoModel.C06.Err (Val × Heap) :=",
                lambda: S.Translator2S(getter_rules).function(Landmarkable.__dict__["landmarks"].fget,
                                                               {"self": "self", S.STATE: "h"}, ind=1),
                "  .error .unknown"))

    def world(sig, fn, rules, args, stub):
        names = dict(args)
        names[S.STATE] = "w"
        out.append(("def %s :=" % sig, lambda: S.Translator2S(rules).function(fn, names, ind=1), "  " + stub))

    LMd = LandmarkManager.__dict__
    me = {"self": "self"}
    world("lmNGroups (w : LM.World) (self : Nat) : Nat", LMd["n_groups"].fget, world_rules(), me, "0")
    world("lmLen (w : LM.World) (self : Nat) : Nat", LMd["__len__"], world_rules(), me, "0")
    world("lmHasLandmarks (w : LM.World) (self : Nat) : Bool", LMd["has_landmarks"].fget, world_rules(), me, "false")
    world("lmGroupLabels (w : LM.World) (self : Nat) : List Nat", LMd["group_labels"].fget,
          world_rules(expr=[("list($x)", "{x}")]), me, "[]")
    world("lmNDims (w : LM.World) (self : Nat) : Option Nat", LMd["n_dims"].fget,
          world_rules(expr=[("$v.n_dims", "(Src.shapeDim {STATE} {v})")], end="none"), me, "none")
    world("lmSetItem (w : LM.World) (self : Nat) (group : Option Nat) (value : LM.Arg) : Except Src.PyExc LM.World",
          LMd["__setitem__"],
          world_rules(expr=[("self.n_dims", "(lmNDims {STATE} self)"),
                            ("value.n_dims", "(Src.argNDims {STATE} value)", "bind"),
                            ("isinstance(value, PointCloud)", "(Src.argIsPC value)"),
                            ("value.copy()", "(Src.copyArg {STATE} value)", "bindstate")],
                      stmt=[("self._landmark_groups[$g] = $v", None, "(Src.storeGroupO {STATE} self {g} {v})", "state")],
                      end=".ok {STATE}"),
          {"self": "self", "group": "group", "value": "value"}, ".error .bad")
    world("lmGetItem (w : LM.World) (self : Nat) (group : Option Nat) : Except Src.PyExc Nat", LMd["__getitem__"],
          world_rules(ret=".ok {e}"), {"self": "self", "group": "group"}, ".error .bad")
    world("lmDelItem (w : LM.World) (self : Nat) (group : Option Nat) : Except Src.PyExc LM.World", LMd["__delitem__"],
          world_rules(stmt=[("del $s._landmark_groups[$g]", None, "(Src.delGroup {STATE} {s} {g})", "bindstate")],
                      end=".ok {STATE}"),
          {"self": "self", "group": "group"}, ".error .bad")
    world("lmCopy (w : LM.World) (self : Nat) : Except Src.PyExc (Nat × LM.World)", LMd["copy"],
          world_rules(expr=([("super().copy()", "(Src.shallowCopyMgr {STATE} self)", "bindstate"),
                             ("super(LandmarkManager, $s).copy()", "(Src.shallowCopyMgr {STATE} {s})", "bindstate")]
                            if _super_copy_is_copyable(LandmarkManager) else []) + [
                            ("Copyable.copy($s)", "(Src.shallowCopyMgr {STATE} {s})", "bindstate"),
                            ("$v.copy()", "(Src.copyShape {STATE} {v})", "state")],
                      stmt=[("$n._landmark_groups[$k] = $v", None, "(Src.storeGroup {STATE} {n} {k} {v})", "state")],
                      ret=".ok ({e}, {STATE})"),
          me, ".error .bad")
    world("lmTransformInplace (w : LM.World) (self : Nat) (transform : Int) : Except Src.PyExc LM.World",
          LMd["_transform_inplace"],
          world_rules(stmt=[("$g._transform_inplace($t)", None, "(LM.mutateAt {STATE} {g} {t})", "state")],
                      ret=".ok {STATE}"),
          {"self": "self", "transform": "transform"}, ".error .bad")
    world("lmInit (w : LM.World) (self : Nat) : LM.World", LMd["__init__"],
          world_rules(expr=[("OrderedDict()", "([] : LM.Mgr)")],
                      stmt=[("super(LandmarkManager, $s).__init__()", "s", "{s}"),
                            ("$s._landmark_groups = $d", None, "(Src.initGroups {STATE} {s} {d})", "state")],
                      end="{STATE}"),
          me, "w")
    world("setLandmarks (w : LM.World) (self : Nat) (value : Nat) : Except Src.PyExc LM.World",
          Landmarkable.__dict__["landmarks"].fset,
          world_rules(expr=[("value.n_dims", "(lmNDims {STATE} value)"),
                            ("self.n_dims", "(Src.ownerDim {STATE} self)"),
                            ("value.copy()", "(lmCopy {STATE} value)", "bindstate")],
                      stmt=[("self._landmarks = $v", None, "(Src.setOwnerMgr {STATE} self {v})", "bindstate")],
                      end=".ok {STATE}"),
          {"self": "self", "value": "value"}, ".error .bad")
    return out


def generated_files():
    """({relative path: text}, [reasons of the functions that could not be translated])"""
    def guarded(thunk):
        def run():
            try:
                return thunk()
            except S.Untranslatable:
                raise
            except (KeyError, AttributeError, IndexError, ValueError, TypeError) as e:   # a rule template met a shape
                raise S.Untranslatable("translator: %r" % (e,))                           # it was not written for
        return run
    try:
        its = [(sig, guarded(thunk), stub) for sig, thunk, stub in items()]
    except (ImportError, KeyError, AttributeError) as e:
        its = []
        text = HEADER + "/- TRANSLATION FAILED: %s -/\n" % repr(e).replace("-/", "- /") + FOOTER
        return {GEN_REL: text}, ["anchored function missing: %r" % (e,)]
    text, reasons = translate_or_stub(its, HEADER, FOOTER)
    return {GEN_REL: text}, reasons


if __name__ == "__main__":
    files, why = generated_files()
    print(files[GEN_REL])
    print(why)
